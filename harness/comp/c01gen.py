"""C01: portfolios in which an asset lists the SAME node more than once, and a balance oracle on the reported dispatch table that
counts every reported column once per (asset, node).

Why a family of its own.  Every multi-node asset of the shared generators links DISTINCT nodes (rnd.sample).  The package however
accepts a node list with repetitions wherever it accepts a list: Storage(nodes=[n, n]) is the documented way to give a storage
separate charge / discharge variables (and, with neither losses nor costs, the only way to make no_simult_in_out effective);
Transport / ExtendedTransport(nodes=[n, n]) is a loop (a source or a sink at n, depending on the efficiency);
MultiCommodityContract lists one node per commodity factor, CHPAsset / Plant one node per role (power, heat, fuel), and two
commodities / roles may live at one node; a StructuredAsset may name an external node twice; a ScaledAsset or StructuredAsset may
wrap any of these.  For such an asset the mapping has several dispatch rows per (step, node) of ONE asset, and every loop "for n in
asset.nodes" of the read-out passes the same (asset, node) - the same column of the dispatch table - more than once.

 gen_case(rnd, tmax)   a scenario (plain JSON, see harness/scen.py) with at least one such asset.  A portfolio of the shared
                       generator on 2-3 nodes (any asset kinds, windows, coarse frequency, periodicity, wacc, time zones) is
                       taken and node lists are made to repeat in one of three ways drawn from the seed:
                         'one-node'  every node name is mapped to one name (a one-node portfolio: column label = asset name; every
                                     former link between nodes becomes a repeated node),
                         'merge'     two of the node names are identified everywhere (fewer nodes; the assets that linked the two
                                     repeat the node, the others stay as they were),
                         'per-asset' only drawn assets get their own node list collapsed (anywhere in the nesting: base of a
                                     scaled asset, wrapped assets and external nodes of a structured asset), the other assets and
                                     the node set of the portfolio stay;
                       then 1-2 further assets with a repeated node are added (storage with separate variables incl.
                       no_simult_in_out without losses, loop transports with a minimal flow so that they are not idle,
                       multi-commodity contracts with 2-4 factors on 1-2 nodes, CHP / plant with coinciding role nodes, a scaled
                       storage, a structured asset naming its external node twice), each with its own window / coarse frequency
                       by the same rules as the shared generator.
                       Further drawn: whether every mention of a node is an object of its own (Node('n'), Node('n') - what
                       a portfolio loaded from JSON looks like) or one shared object; the way the solution is obtained ('doors').

 orc_balance(rec, tag) C01's statement on the dispatch TABLE: for every node n of the portfolio and every step, the sum over the
                       assets attached to n (n among the asset's nodes - an asset is attached to a node or not, however often it
                       names it) of the column reported for (asset, n) is zero.  Nothing is skipped: a column that the table does
                       not have counts as zero flow (fact `missing`); labels that occur more than once in the table are read by
                       position, once (fact `duplicate_label`).

 via_doors(scn, ...)   the same scenario through io.optimize (one go / split) and through to_json -> run_from_json; what they return
                       is a dispatch table like any other.
"""
import copy
import random

import numpy as np
import pandas as pd

import eaopack as eao
from .. import gen, scen, impl
from ..impl import Quiet

FACTORS = [1.0, 0.5, -1.0, 2.0, 0.25, -0.5]


# ------------------------------------------------------------------ building (own builder: one Node object per mention, if drawn)
class _FreshNodes(dict):
    """looks like the name -> Node dictionary of scen.make_nodes, but hands out a new Node object at every look-up"""

    def __getitem__(self, k):
        if not dict.__contains__(self, k):
            raise KeyError(k)
        return eao.Node(k)


def build(scn):
    """(portfolio, timegrid, prices, nodes) like scen.build; scn['fresh_nodes']: every mention of a node is an object of its own"""
    tg = scen.make_grid(scn['grid'])
    nodes = scen.make_nodes(scn['nodes'])
    if scn.get('fresh_nodes'):
        nodes = _FreshNodes(nodes)
    assets = [scen.build_asset(s, nodes) for s in scn['assets']]
    prices = {k: np.asarray(v, dtype=float) for k, v in scn.get('prices', {}).items()}
    return eao.portfolio.Portfolio(assets), tg, prices, nodes


def setup_mono(scn):
    """as pf.setup_mono, on objects of build()"""
    portf, tg, prices, nodes = build(scn)
    rec = {'portf': portf, 'tg': tg, 'prices': prices, 'scn': scn}
    with Quiet(), impl.Capture(portf) as cap:
        op = portf.setup_optim_problem(prices, tg)
    rec['op'] = op
    rec['captured'] = {k: v[-1] for k, v in cap.caught.items()}
    return rec


def setup_split(scn, interval):
    from .. import pf
    portf, tg, prices, nodes = build(scn)
    return pf.setup_split(scn, interval, objects=(portf, tg, prices))


# ------------------------------------------------------------------ correspondence of the assembled problem
def corr_assemble(rec, drv, tol=1e-12):
    """pf.corr_assemble for this stream.  Mapping and list of nodal restrictions are compared exactly as everywhere; the
    coefficients of the nodal rows up to `tol` (relative), after dropping coefficients below `tol`: an asset that names a node twice
    has several dispatch rows of ONE variable at one (node, step), the real code adds their factors in floating point, the model
    in rationals - with factors that are not dyadic (weights 1/3 of a coarse frequency) the two sums differ in the last bit."""
    from .. import pf
    dis = pf.corr_assemble(rec, drv, aspects=('mapping', 'nodal'))
    ft = pf.Fraction(tol)

    def rows(pj):
        out = []
        for r in pj['rows']:
            if r['kind'] == 'N':
                k, cs, rhs = pf.norm_row(r)
                out.append((k, tuple((j, v) for j, v in cs if abs(v) > ft), rhs))
        return sorted(out, key=lambda r: (tuple(j for j, _ in r[1]), tuple(float(v) for _, v in r[1])))
    a, b = rows(rec['model_json']), rows(rec['op_json'])
    d = None
    if len(a) != len(b):
        d = 'assemble.N-rows: %d rows (model) vs %d (impl)' % (len(a), len(b))
    else:
        for i, (x, y) in enumerate(zip(a, b)):
            if tuple(j for j, _ in x[1]) != tuple(j for j, _ in y[1]):
                d = 'assemble.N-rows row %d: variables %s (model) vs %s (impl)' % (i, [j for j, _ in x[1]][:12], [j for j, _ in y[1]][:12])
            elif not pf.feq(x[2], y[2], tol):
                d = 'assemble.N-rows row %d: rhs %s (model) vs %s (impl)' % (i, float(x[2]), float(y[2]))
            else:
                for (j, v), (_, w) in zip(x[1], y[1]):
                    if not pf.feq(v, w, tol):
                        d = 'assemble.N-rows row %d: coefficient of var %d: %r (model) vs %r (impl)' % (i, j, float(v), float(w))
                        break
            if d:
                break
    if d:
        dis.append({'component': 'assemble', 'detail': d})
    return dis


# ------------------------------------------------------------------ the oracle
def attached(portf):
    """[(asset name, node name)] in portfolio order, each pair ONCE, however often the asset names the node"""
    pairs = []
    for a in portf.assets:
        seen = set()
        for n in a.nodes:
            if n.name not in seen:
                seen.add(n.name)
                pairs.append((a.name, n.name))
    return pairs


def repeated(portf):
    """{asset name: [node names the asset lists more than once]} (outer assets: the ones that have columns in the table)"""
    out = {}
    for a in portf.assets:
        names = [n.name for n in a.nodes]
        rep = sorted(set(x for x in names if names.count(x) > 1))
        if rep:
            out[a.name] = rep
    return out


def label(portf, asset, node):
    """column label of (asset, node) in the dispatch table, as documented: the asset's name, with the node in brackets if the
    portfolio has more than one node"""
    return asset if len(portf.nodes) == 1 else asset + ' (' + node + ')'


def _column(disp, lab):
    """(values of the column labelled lab - read ONCE -, how many columns carry the label)"""
    pos = [i for i, c in enumerate(disp.columns) if c == lab]
    if not pos:
        return np.zeros(len(disp)), 0
    return np.asarray(disp.iloc[:, pos[0]].values, dtype=float), len(pos)


def orc_balance(rec, tag='mono'):
    """returns (violations, info); info = {'node_steps_two_flows', 'repeat_active' (node-steps where an asset that repeats the node
    reports a non-zero flow there), 'ambiguous' (nodes whose labels cannot tell two (asset, node) pairs apart)}"""
    out, portf = rec['out'], rec['portf']
    disp = out['dispatch']
    pairs = attached(portf)
    rep = repeated(portf)
    labs = {p: label(portf, *p) for p in pairs}
    vals = np.asarray(disp.values, dtype=float)
    scale = max(1.0, float(np.nanmax(np.abs(vals)))) if vals.size and np.isfinite(vals).any() else 1.0
    tol = 2e-6 * scale
    viol = []
    info = {'node_steps_two_flows': 0, 'repeat_active': 0, 'ambiguous': 0}
    for n in portf.nodes:
        mine = [p for p in pairs if p[1] == n]
        # two DIFFERENT (asset, node) pairs with one label (contrived names like asset 'a (n)'): the table cannot tell them apart
        amb = [p for p in mine if sum(1 for q in pairs if labs[q] == labs[p]) > 1]
        if amb:
            info['ambiguous'] += 1
        tot = np.zeros(len(disp))
        nz = np.zeros(len(disp))
        cells, missing, dup = {}, [], []
        for p in mine:
            v, k = _column(disp, labs[p])
            if k == 0:
                missing.append(labs[p])
            elif k > 1:
                dup.append(labs[p])
            tot = tot + v
            nz = nz + (np.abs(v) > 1e-7)
            cells[labs[p]] = v
            if p[0] in rep and n in rep[p[0]]:
                info['repeat_active'] += int((np.abs(v) > 1e-7).sum())
        info['node_steps_two_flows'] += int((nz >= 2).sum())
        bad = np.where(~(np.abs(tot) <= tol))[0]          # (also an undefined cell)
        if len(bad) and not amb:
            t = int(bad[0])
            here = sorted(a for a in rep if n in rep[a])
            viol.append({'oracle': 'nodal_balance',
                         'detail': '%s: node %s step %d: the reported dispatches of the assets attached to the node sum to %.6g (tolerance %.2g); '
                                   'columns %s; assets naming this node more than once: %s' % (
                                       tag, n, t, tot[t], tol, {c: float(v[t]) for c, v in cells.items()}, here or 'none'),
                         'facts': {'mode': tag, 'node': n, 'step': t, 'stream': 'repeat', 'n_nodes': len(portf.nodes),
                                   'assets_repeating_node': here, 'missing': missing, 'duplicate_label': dup,
                                   'asset_types': {a.name: type(a).__name__ for a in portf.assets if a.name in here}}})
    return viol, info


# ------------------------------------------------------------------ generator
def _collapse(nodes, rnd):
    """a node list of the same length over the same names with at least one name repeated"""
    nodes = list(nodes)
    if len(nodes) < 2:
        return nodes
    tgt = rnd.choice(nodes)
    others = [i for i, x in enumerate(nodes) if x != tgt]
    if not others:
        return nodes
    for i in rnd.sample(others, rnd.randint(1, len(others))):
        nodes[i] = tgt
    return nodes


def _has_repeat(spec):
    return any(len(a.get('nodes', [])) != len(set(a.get('nodes', []))) for a in scen.all_asset_specs({'assets': [spec]}))


def _visited_twice(spec):
    """the OUTER asset lists a node twice (its column of the dispatch table is passed more than once)"""
    if spec['type'] == 'ScaledAsset':
        return _visited_twice(spec['base'])
    return len(spec.get('nodes', [])) != len(set(spec.get('nodes', [])))


def _coarse(rnd, g, T, tgt):
    """coarse frequency by the rule of the shared generator (whole horizon a multiple of the coarse step, no own window)"""
    if 'start' in tgt or 'end' in tgt or 'block_size' in tgt or 'max_store_duration' in tgt:
        return
    mult = rnd.choice([2, 2, 3, 4])
    if T % mult == 0:
        tot = int(g['step_s']) * mult
        tgt['freq'] = ('%dmin' % (tot // 60)) if tot % 3600 else ('%dh' % (tot // 3600))


def gen_repeat_asset(rnd, g, prices, T, name, node_names, allow_mip=True):
    """one more asset that lists a node more than once"""
    n = rnd.choice(node_names)
    m = rnd.choice(node_names)          # may or may not be another node
    kind = rnd.choice(['storage', 'storage', 'storage_nsio', 'transport', 'ext_transport', 'multi', 'multi', 'chp', 'plant',
                       'scaled_storage', 'scaled_transport', 'struct_ext_twice', 'struct_inner'])
    a = None
    if kind == 'storage':
        a = gen.gen_storage(rnd, g, prices, T, name, [n, n], allow_mip, True)
    elif kind == 'storage_nsio':
        # neither losses nor costs: only the two nodes give separate variables, which no_simult_in_out needs
        a = gen.gen_storage(rnd, g, prices, T, name, [n, n], False, False)
        for k in ('eff_in', 'cost_in', 'cost_out'):
            a['args'].pop(k, None)
        if allow_mip:
            a['args']['no_simult_in_out'] = True
    elif kind in ('transport', 'ext_transport'):
        a = gen.gen_transport(rnd, g, prices, T, name, n, n, ext=(kind == 'ext_transport'))
        a['args'].pop('min_take', None)
        if a['args']['max_cap'] > 0 and rnd.random() < 0.6:
            a['args']['min_cap'] = gen.q8(rnd, 0.125, a['args']['max_cap'])       # a loop with a minimal flow is never idle
            a['args'].setdefault('efficiency', rnd.choice([0.5, 0.75, 1.5]))
    elif kind == 'multi':
        k = rnd.randint(2, 4)
        nodes = [rnd.choice([n, n, m]) for _ in range(k)]
        if len(set(nodes)) == k:
            nodes[-1] = nodes[0]
        a = gen.gen_multi(rnd, g, prices, T, name, nodes)
    elif kind == 'chp':
        nodes = _collapse(rnd.choice([[n, m], [n, m, rnd.choice(node_names)]]), rnd)
        if len(set(nodes)) == len(nodes):
            nodes = [n] * len(nodes)
        a = gen.gen_plant(rnd, g, prices, T, name, nodes, chp=True, allow_mip=allow_mip and rnd.random() < 0.4)
    elif kind == 'plant':
        a = gen.gen_plant(rnd, g, prices, T, name, [n, n], chp=False, allow_mip=allow_mip and rnd.random() < 0.4)
    elif kind in ('scaled_storage', 'scaled_transport'):
        if kind == 'scaled_storage':
            base = gen.gen_storage(rnd, g, prices, T, name + '_b', [n, n], False, False)
        else:
            base = gen.gen_transport(rnd, g, prices, T, name + '_b', n, n)
        a = {'type': 'ScaledAsset', 'name': name, 'base': base,
             'args': {'min_scale': rnd.choice([0.0, 0.0, 0.5]), 'max_scale': rnd.choice([1.0, 2.0, 4.0]),
                      'norm_scale': rnd.choice([1.0, 2.0, 0.5]), 'fix_costs': gen.q8(rnd, 0, 1)}}
    elif kind == 'struct_ext_twice':
        # the structured asset names its external node twice; inside: a link from an inner node and something to move
        i1 = name + '_i1'
        inner = [gen.gen_transport(rnd, g, prices, T, name + '_tr', i1, n)]
        inner[0]['args'].pop('costs_time_series', None)
        inner.append(gen.gen_simple_contract(rnd, g, prices, T, name + '_c', i1) if rnd.random() < 0.5
                     else gen.gen_storage(rnd, g, prices, T, name + '_s', [i1], False, False))
        a = {'type': 'StructuredAsset', 'name': name, 'nodes': [n, n], 'inner': inner, 'args': {}, 'inner_nodes': [i1]}
    else:
        # wrapped assets that repeat the inner or the external node
        i1 = name + '_i1'
        x = rnd.choice([i1, n])
        inner = [gen.gen_transport(rnd, g, prices, T, name + '_tr', i1, n),
                 gen.gen_storage(rnd, g, prices, T, name + '_s', [x, x], False, False)]
        inner[0]['args'].pop('costs_time_series', None)
        if rnd.random() < 0.4:
            inner.append(gen.gen_multi(rnd, g, prices, T, name + '_m', [n, i1, rnd.choice([n, i1])]))
        a = {'type': 'StructuredAsset', 'name': name, 'nodes': rnd.choice([[n], [n, n]]), 'inner': inner, 'args': {}, 'inner_nodes': [i1]}
    tgt = a['base']['args'] if a['type'] == 'ScaledAsset' else a['args']
    if a['type'] != 'StructuredAsset':
        if rnd.random() < 0.3:
            gen.put_window(tgt, gen.window(rnd, g))
        base_t = a['base']['type'] if a['type'] == 'ScaledAsset' else a['type']
        if base_t in ('Transport', 'Storage', 'MultiCommodityContract', 'ExtendedTransport') and rnd.random() < 0.2 \
                and not tgt.get('no_simult_in_out'):
            _coarse(rnd, g, T, tgt)
    return a


def gen_case(rnd, tmax=10):
    """a scenario with at least one asset listing a node more than once; keys beyond harness/scen.py: stream='repeat', pattern,
    fresh_nodes, mode ('mono' | 'split'), doors (further ways to obtain the solution), repeat_assets (names)"""
    for _ in range(20):
        s = gen.gen_portfolio(random.Random(rnd.getrandbits(48)), tmax=tmax, max_assets=4, nodes_max=3,
                              kinds=['simple', 'contract', 'transport', 'transport', 'ext_transport', 'storage', 'storage2', 'storage2',
                                     'multi', 'multi', 'orderbook', 'scaled', 'structured', 'plant', 'chp', 'chp'])
        outer = [x for x in s['nodes'] if not x.endswith('_i1')]
        if len(outer) >= 2:
            break
    g = s['grid']
    T = scen.make_grid(g).T
    pattern = rnd.choice(['one-node', 'one-node', 'merge', 'per-asset', 'per-asset'])
    if pattern in ('one-node', 'merge'):
        if pattern == 'one-node':
            keep = rnd.choice(outer)
            nmap = {x: keep for x in outer}
        else:
            x1, x2 = rnd.sample(outer, 2)
            nmap = {x1: x2}
        s = scen.rename_scenario(s, {}, nmap)
        s['nodes'] = list(dict.fromkeys(s['nodes']))
        outer = list(dict.fromkeys(nmap.get(x, x) for x in outer))
    else:
        for a in s['assets']:
            for sp in scen.all_asset_specs({'assets': [a]}):
                if len(sp.get('nodes', [])) >= 2 and rnd.random() < 0.6:
                    sp['nodes'] = _collapse(sp['nodes'], rnd)
                elif sp['type'] == 'StructuredAsset' and rnd.random() < 0.3:
                    sp['nodes'] = sp['nodes'] * 2
    # further assets with a repeated node (always at least one asset whose own column is passed twice)
    k = rnd.randint(1, 2)
    if not any(_visited_twice(a) for a in s['assets']):
        k = max(k, 1)
    names = set(sp['name'] for sp in scen.all_asset_specs(s))
    for j in range(k):
        nm = 'rp%d' % (j + 1)
        while nm in names:
            nm += 'x'
        a = gen_repeat_asset(rnd, g, s['prices'], T, nm, outer)
        names.add(nm)
        s['assets'].insert(rnd.randint(0, len(s['assets'])), a)
        for x in a.get('inner_nodes', []):
            if x not in s['nodes']:
                s['nodes'].append(x)
    s['stream'] = 'repeat'
    s['pattern'] = pattern
    s['fresh_nodes'] = rnd.random() < 0.35
    s['mode'] = rnd.choice(['mono', 'mono', 'split'])
    if s['mode'] == 'split':
        s['refix_seed'] = rnd.getrandbits(30)       # the split solution is re-optimised with whole intervals pinned
    s['doors'] = rnd.sample(['io', 'io_split', 'json'], rnd.choice([0, 1, 1, 2]))
    s['door_seed'] = rnd.getrandbits(30)
    s['repeat_assets'] = [a['name'] for a in s['assets'] if _has_repeat(a)]
    return s


def features(scn, rec=None):
    f = ['stream:repeat', 'repeat:pattern=' + scn.get('pattern', '?'), 'repeat:nodes=%d' % len([x for x in scn['nodes'] if not x.endswith('_i1')])]
    if scn.get('fresh_nodes'):
        f.append('repeat:node-objects-per-mention')
    for a in scn['assets']:
        if _visited_twice(a):
            f.append('repeat:column-passed-twice:' + (a['type'] if a['type'] != 'ScaledAsset' else 'ScaledAsset(' + a['base']['type'] + ')'))
        elif _has_repeat(a):
            f.append('repeat:wrapped-only:' + a['type'])
    return f


# ------------------------------------------------------------------ other doors
def via_doors(scn, split_interval):
    """the scenario through io.optimize (one go, split) and to_json -> run_from_json, as drawn in scn['doors'];
    returns (violations, features, evaluated)"""
    viol, feats, n = [], [], 0
    for door in scn.get('doors', []):
        try:
            portf, tg, prices, nodes = build(scn)
            with Quiet():
                if door == 'io':
                    out = eao.io.optimize(portf, tg, data=prices)
                elif door == 'io_split':
                    out = eao.io.optimize(portf, tg, data=prices, split_interval_size=split_interval)
                else:
                    js = eao.serialization.to_json(portf)
                    out = eao.serialization.run_from_json(json_str=js, prices=prices, timegrid=tg)
                    portf = eao.serialization.load_from_json(js)          # the table refers to the LOADED portfolio
                    portf.set_timegrid(tg)
        except Exception as e:
            feats.append('repeat:door-%s-error:%s' % (door, impl.err_class(e)))
            continue
        if out is None or not isinstance(out.get('dispatch'), pd.DataFrame) or 'summary' not in out:
            feats.append('repeat:door-%s-no-solution' % door)
            continue
        sm = out['summary']
        status = sm.get('status') if isinstance(sm, dict) else (sm.loc['status', 'Values'] if 'status' in sm.index else None)
        if str(status) != 'successful' or len(out['dispatch'].columns) == 0:
            feats.append('repeat:door-%s-no-solution' % door)
            continue
        n += 1
        feats.append('repeat:door-%s-solved' % door)
        v, _ = orc_balance({'out': out, 'portf': portf}, tag={'io': 'io.optimize', 'io_split': 'io.optimize(split %s)' % split_interval,
                                                               'json': 'run_from_json'}[door])
        viol += v
    return viol, feats, n
