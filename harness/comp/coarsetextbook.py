"""pkg-c02coarse - C02 + C13: a contract / transport with an own, coarser frequency refines the textbook model with equal rates
(proof package).

Lean side: `EAO/Lemmas/CoarseTextbook.lean` (namespace `EAO.CoarseTextbook`: `EqualRate` - the additional textbook constraint
"volume over step length is the same in all fine steps of a coarse step", `contractSemEq` / `transportSemEq` - the textbook
semantics of `EAO/Spec/Textbook.lean` with that constraint, `CoreData` - what the `freq=None` set-up on the fine steps looks
at, the composition lemmas `compose_exact` / `compose_two`) and `EAO/Properties/C02Coarse.lean` (namespace `EAO.C02C`).

No new executable definition is evaluated by the driver: the coarse builders are `buildCoarseSimpleContract` /
`buildCoarseTransport` of `EAO/Model/CoarseBuild.lean` (correspondence: `harness/comp/coarsebuild.py`), the textbook
specification is `EAO/Spec/Textbook.lean` (run against the real code by `harness/comp/textbook.py`).  The theorems compose
`EAO.C13B.coarse_equiv_contract` / `coarse_equiv_transport` (coarse problem = fine problem with mean prices + same rate) with
the C02 refinement lemmas of the fine problem.  This module only carries the theorem list.

Not covered (as in C13): windows that are not whole coarse steps (finding F-19b; the theorems speak about the fine steps the
coarse grid HAS, the `_grid` versions assume whole coarse steps), unequal discount factors inside a coarse step (F-13h) and
capacities / spreads varying inside a coarse step (F-13i) - these are the hypotheses `EqualDiscount` / `ConstInside`;
`Contract` with take periods together with `freq` (F-13g).
"""

M = 'EAO.Properties.C02Coarse'

THEOREMS_C02_COARSE = [
    (M, 'EAO.C02C.coarse_contract_refines_textbook',
     'SimpleContract(freq=f): under the hypotheses of C13 (well-formed coarse grid, equal discounting and constant capacities / spread '
     'inside a coarse step) the coarse problem and the TEXTBOOK contract on the FINE steps with the per-coarse-step mean price, the fine '
     'rates and the additional constraint "same rate in all fine steps of a coarse step" have the same attainable (flows per fine step, '
     'cash) pairs in the one-variable form (textbook volume of a coarse point = its expansion dt_fine/dt_coarse), and dominate each other '
     '(same flows, no less cash, both directions) in the two-variable form for spread >= 0 and discount factors >= 0'),
    (M, 'EAO.C02C.coarse_transport_refines_textbook',
     'Transport(freq=f): the coarse problem and the textbook transport on the fine steps (flow within [min,max]*dt, -f at the first and '
     '+eff*f at the second node, cash -df*(mean cost + const)*|f|) with the additional same-rate constraint have the same attainable '
     '(flows, cash) pairs'),
    (M, 'EAO.C02C.coarse_contract_refines_textbook_grid',
     'the contract theorem from the grid up: top-level reference grid, cuts of whole coarse steps [s, e), scalar capacities and spread: '
     'the fine steps ARE the window ref.restrict s e of the freq=None asset and the textbook contract lives on it; only equal discounting '
     'inside the coarse steps is assumed about the data'),
    (M, 'EAO.C02C.coarse_transport_refines_textbook_grid',
     'the transport theorem from the grid up (top-level grid, cuts of whole coarse steps): the textbook transport lives on ref.restrict s e'),
    (M, 'EAO.C02C.coarse_pairs_sub_fine',
     'the same-rate constraint only removes pairs: every (flows, cash) pair of the textbook contract / transport WITH the constraint is one '
     'of the textbook asset without it (a coarse frequency never gains against the fine textbook asset with the averaged price)'),
]
