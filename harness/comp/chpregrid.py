"""Stream 'regrid' of property C06: ONE `Plant` / `CHPAsset` / `CHPAsset_with_min_load_costs` OBJECT taken through a
sequence of set-ups on time grids that differ in frequency (hourly then 15 min, 4-hourly then hourly, ...) with the same
main time unit, in the main time unit with the same frequency, in both, or not at all (same grid, other horizon) - the way a
plant object is used for a day-ahead run and then for an intraday run.  Between the set-ups the object may go through
`setup_optim_problem(costs_only=True)`, `Portfolio.create_cost_samples`, `Portfolio.setup_optim_problem`,
`set_timegrid`, `to_json`, a JSON round trip or a deep copy (the copy then carries on).

The property is stated per grid: minimum runtime / downtime and the declared initial state are durations in main time
units and count in steps of THE GRID IN USE, ramps and capacities are rates per main time unit.  So every stage of the
sequence is judged like a fresh case of `harness.comp.chp` ON ITS OWN GRID, but with the problem the SHARED object builds:

  stage 'setup'      exact row correspondence with the model (base problem of a fresh object as the model's input), the
                     pattern oracle chp.pattern (all 2^T on/off patterns pinned in the REAL rows vs the run-length
                     specification / automaton with the durations converted for that grid), chp.first_ramp, chp.start_flag
  stage 'portfolio'  the shared object optimised together with markets on the stage's grid: portfolio oracles of
                     `chp.oracle_portfolio` (capacity, ramp, heat share, fuel, start flags, start costs, profiles) and
                     chp.commitment (the optimised on/off pattern is one the specification admits on that grid)
  stage 'costs_only' / 'cost_samples'   the cost vector the shared object returns vs the model's (correspondence)
  others             no judgement of their own; they are there for what they may leave behind in the object

A case is a plain JSON value: the asset (`cls`, `nodes`, `args` in grid-independent forms: scalars, price keys, interval
dictionaries reaching beyond every horizon; `companions`) and `stages`: [{do, grid, step_s, unit_s, T, prices}].
"""
import copy
import math
import random
from fractions import Fraction

import numpy as np
import pandas as pd

import eaopack as eao
from .. import scen
from ..impl import Quiet, problem_json, err_class
from ..lean import fs
from . import chp as CH

FREQ_S = {'15min': 900, '30min': 1800, 'h': 3600, '2h': 7200, '4h': 14400, '6h': 21600, '12h': 43200, 'd': 86400}
UNIT_S = {'min': 60, 'h': 3600, 'd': 86400}
# frequencies a plant is plausibly run on, per main time unit
FREQS_OF_UNIT = {'h': ['h', 'h', '15min', '15min', '30min', '2h', '4h'], 'min': ['15min', '30min', 'h'], 'd': ['d', '12h', '6h', 'h']}
UNITS_OF_FREQ = {'h': ['h', 'min', 'd'], '15min': ['h', 'min'], '30min': ['h', 'min'], '2h': ['h'], '4h': ['h'], 'd': ['d', 'h'],
                 '12h': ['d', 'h'], '6h': ['d', 'h']}
GRID_OPS = ('setup', 'portfolio', 'costs_only', 'cost_samples', 'portfolio_setup', 'set_timegrid')
FREE_OPS = ('to_json', 'json_copy', 'deepcopy')


def grid_of(freq, unit):
    return (freq, unit, FREQ_S[freq], UNIT_S[unit])


def gen_grid_sequence(rnd, n):
    """n grids: a family decides what changes from one to the next"""
    fam = rnd.choice(['freq', 'freq', 'freq', 'unit', 'both', 'same', 'mixed'])
    unit = rnd.choice(['h', 'h', 'h', 'min', 'd'])
    freq = rnd.choice(FREQS_OF_UNIT[unit])
    seq = [grid_of(freq, unit)]
    while len(seq) < n:
        f0, u0 = seq[-1][0], seq[-1][1]
        how = fam if fam != 'mixed' else rnd.choice(['freq', 'unit', 'both', 'same'])
        f1, u1 = f0, u0
        if how in ('freq', 'both'):
            cand = [f for f in FREQS_OF_UNIT[u0] if f != f0]
            f1 = rnd.choice(cand) if cand else f0
        if how in ('unit', 'both'):
            cand = [u for u in UNITS_OF_FREQ[f1] if u != u0]
            u1 = rnd.choice(cand) if cand else u0
        if how == 'freq' and len(seq) >= 2 and rnd.random() < 0.3:
            f1 = seq[-2][0] if seq[-2][1] == u0 else f1            # back to an earlier grid (A, B, A)
        seq.append(grid_of(f1, u1))
    return fam, seq


def widen(d):
    """interval dictionary of the reference grid -> one that reaches beyond every horizon of the sequence"""
    d = copy.deepcopy(d)
    if d['start']:
        d['start'][0] = {'$dt': '2000-01-01T00:00:00'}
        d['end'][-1] = {'$dt': '2100-01-01T00:00:00'}
    return d


def gen_case(rnd, tmax=7):
    n_grids = rnd.choice([2, 2, 2, 3, 3, 4])
    fam, grids = gen_grid_sequence(rnd, n_grids)
    ref = rnd.randrange(n_grids)                      # the durations / rates are drawn to make sense on this grid
    base_kind = rnd.choice(['pattern', 'pattern', 'portfolio'])
    base = CH.gen_case(rnd, kind=base_kind, tmax=tmax, grid=grids[ref])
    a = base['args']
    series = {k: list(v) for k, v in base['prices'].items()}          # value pools of the price keys
    # grid-independent parameter forms: arrays of the horizon's length become price keys, interval data reaches everywhere
    for k in list(a):
        v = a[k]
        if isinstance(v, dict) and '$arr' in v and not (k.endswith('_bounds') or k.endswith('_bounds_heat')):
            key = 'k_arr_' + k
            series[key] = list(v['$arr']) or [0.]
            a[k] = key
        elif isinstance(v, dict) and 'values' in v:
            a[k] = widen(v)
    # a declared state the constructor accepts (its guard on the raw values: known finding F-06d is not the subject here)
    if a.get('min_downtime', 0) > 1 and (a.get('time_already_running', 0) == 0) == (a.get('time_already_off', 0) == 0):
        a.pop('time_already_running', None)
        a.pop('time_already_off', None)
        which = rnd.choice(['time_already_running', 'time_already_off'])
        a[which] = rnd.choice([0.5, 1., 2., 3.])
        base['state'] = 'running' if which == 'time_already_running' else 'off'
        if which == 'time_already_off' and base_kind == 'pattern':
            a.pop('last_dispatch', None)           # (a last dispatch > 0 belongs to a plant declared running)
    # durations that fall between the step counts of the grids of the sequence (a quarter of cases): e.g. 1 main time
    # unit = 4 steps on one grid and 1 step on the other
    if rnd.random() < 0.25:
        per = [g[2] / g[3] for g in grids]                     # main time units per step
        for k in ('min_runtime', 'min_downtime'):
            if rnd.random() < 0.7:
                a[k] = math.floor(rnd.choice([1, 2, 3]) * max(per) * 8) / 8.0
    case = {'kind': 'regrid', 'family': fam, 'base_kind': base_kind, 'cls': base['cls'], 'name': base['name'], 'nodes': base['nodes'],
            'args': a, 'mode': base.get('mode'), 'state': base.get('state'), 'base_exact': bool(base.get('exact'))}
    for k in ('profiles', 'profile_form'):
        if k in base:
            case[k] = base[k]
    dummy = {'nodes': base['nodes'], 'prices': {}}
    case['companions'] = CH.gen_companions(rnd, dummy, 1)
    for k in dummy['prices']:
        series.setdefault(k, None)
    start0 = pd.Timestamp(base['grid']['start']).normalize()
    # the grid stages; the last one is always judged ('setup' or 'portfolio')
    stages = []
    for i, g in enumerate(grids):
        last = i == n_grids - 1
        if base_kind == 'pattern':
            do = rnd.choice(['setup', 'setup', 'setup', 'portfolio'] if (last or rnd.random() < 0.7) else ['costs_only', 'cost_samples', 'portfolio_setup', 'set_timegrid'])
        else:
            do = rnd.choice(['portfolio', 'portfolio', 'setup'] if (last or rnd.random() < 0.7) else ['costs_only', 'cost_samples', 'portfolio_setup', 'set_timegrid'])
        stages.append(gen_stage(rnd, do, g, start0, series, tmax))
        if not last and rnd.random() < 0.3:
            stages.append({'do': rnd.choice(FREE_OPS)})
        if not last and rnd.random() < 0.25:
            # the same grid once more through another entry point (other horizon, other prices)
            stages.append(gen_stage(rnd, rnd.choice(['costs_only', 'cost_samples', 'portfolio_setup', 'setup']), g, start0, series, tmax))
    case['stages'] = stages
    return case


def gen_stage(rnd, do, g, start0, series, tmax):
    freq, unit, step_s, unit_s = g
    T = rnd.randint(2, tmax)
    start = start0 + rnd.choice([0, 0, 0, 1, 2]) * pd.Timedelta(days=1)
    if step_s < 86400:
        start = start + rnd.choice([0, 0, 6, 12]) * pd.Timedelta(hours=1)
    end = start + T * pd.Timedelta(seconds=step_s)
    st = {'do': do, 'grid': {'start': CH.iso(start), 'end': CH.iso(end), 'freq': freq, 'unit': unit, 'tz': None},
          'step_s': step_s, 'unit_s': unit_s, 'T': T}
    st['prices'] = gen_prices(rnd, series, T)
    if do == 'cost_samples':
        st['samples'] = [gen_prices(rnd, series, T) for _ in range(rnd.randint(1, 3))]
    return st


def gen_prices(rnd, series, T):
    pr = {}
    for k, pool in series.items():
        if k == 'm_el':
            if rnd.random() < 0.6:
                # blocks of attractive / unattractive power prices: cycling pays, minimum run / down times bind
                blk = rnd.choice([1, 1, 2, 2, 3])
                off0 = rnd.randint(0, 2 * blk - 1)
                hi, lo = rnd.choice([120., 400.]), rnd.choice([-50., -200.])
                pr[k] = [(hi if ((t + off0) // blk) % 2 == 0 else lo) + CH.q8(rnd, 0, 4) for t in range(T)]
            else:
                sh = rnd.choice([0, 40])
                pr[k] = [CH.q8(rnd, -30, 80) + sh for _ in range(T)]
        elif k == 'm_heat':
            pr[k] = [CH.q8(rnd, 0, 40) for _ in range(T)]
        elif k == 'm_gas':
            pr[k] = [CH.q8(rnd, 5, 40) for _ in range(T)]
        else:
            pr[k] = [rnd.choice(pool) for _ in range(T)]
    return pr


def stage_case(case, st, kind):
    """the stage as a case of `harness.comp.chp` on the stage's own grid"""
    sc = {'kind': kind, 'grid': st['grid'], 'step_s': st['step_s'], 'unit_s': st['unit_s'], 'name': case['name'], 'cls': case['cls'],
          'nodes': case['nodes'], 'args': case['args'], 'prices': st['prices'], 'window': [0, st['T']], 'mode': case.get('mode'),
          'state': case.get('state'), 'companions': case['companions'],
          'exact': bool(case['base_exact'] and CH.dyadic(st['step_s'] / st['unit_s']) and 'profiles' not in case)}
    for k in ('profiles', 'profile_form'):
        if k in case:
            sc[k] = case[k]
    return sc


def steps(value, st):
    """a duration in main time units in steps of the stage's grid (rounded up)"""
    return int(math.ceil(Fraction(float(value)) * st['unit_s'] / st['step_s']))


def label(st):
    return '%s/%s' % (st['grid']['freq'], st['grid']['unit']) if 'grid' in st else '-'


def run_case(case, drv, pattern_tmax=7):
    r = {'disagreements': [], 'violations': [], 'features': ['regrid', 'family:' + case['family'], 'base:' + case['base_kind'], case['cls']],
         'observed': {}}
    f = r['features']
    nodes = {n: eao.Node(n) for n in case['nodes']}
    with Quiet():
        try:
            shared = CH.build_asset(case)
        except Exception as e:
            f.append('error:%s@ctor' % err_class(e))
            return r
    shared.nodes = [nodes[n] for n in case['nodes']]
    a = case['args']
    hist = []
    n_pat = n_solved = n_judged = 0
    for i, st in enumerate(case['stages']):
        do = st['do']
        hist.append('%s@%s' % (do, label(st)))
        f.append('do:' + do)
        if do in FREE_OPS:
            with Quiet():
                if do == 'to_json':
                    eao.serialization.to_json(shared)
                elif do == 'json_copy':
                    shared = eao.serialization.load_from_json(eao.serialization.to_json(shared))
                    shared.nodes = [nodes[n] for n in case['nodes']]
                else:
                    shared = copy.deepcopy(shared)
                    shared.nodes = [nodes[n] for n in case['nodes']]
            continue
        # (the pattern oracle pins on/off patterns only: it needs a plant whose ramp never binds, the 'pattern' plants)
        kind = {'setup': 'pattern' if case['base_kind'] == 'pattern' else 'build', 'portfolio': 'portfolio'}.get(do, 'build')
        sc = stage_case(case, st, kind)
        prices = CH.np_prices(sc)
        sub = {'disagreements': [], 'violations': [], 'features': [], 'observed': {}}
        where = 'stage %d of %s' % (i, ' > '.join(hist))
        if do == 'set_timegrid':
            with Quiet():
                shared.set_timegrid(scen.make_grid(st['grid']))
            continue
        if do == 'portfolio_setup':
            with Quiet():
                try:
                    others = [scen.build_asset(s, nodes) for s in case['companions'].values()]
                    eao.portfolio.Portfolio([shared] + others).setup_optim_problem(prices, scen.make_grid(st['grid']))
                except Exception as e:
                    f.append('error:%s@portfolio_setup' % err_class(e))
            continue
        # the model's answer for THIS grid (input: the parent class's problem of a fresh object)
        def base_of(pr):
            out = {'grid': CH.restricted_grid(sc)}
            with Quiet():
                try:
                    fresh = CH.build_asset(sc)
                    base = eao.assets.Contract.setup_optim_problem(fresh, {k: np.asarray(v, dtype=float) for k, v in pr.items()}, scen.make_grid(st['grid']))
                    out['base'] = problem_json(base, name=sc['name'], nodes=sc['nodes'])
                except Exception as e:
                    out.update(error=err_class(e), stage='base')
            return out
        ir = base_of(st['prices'])
        if do in ('costs_only', 'cost_samples'):
            with Quiet():
                try:
                    if do == 'costs_only':
                        cs = [shared.setup_optim_problem(prices, scen.make_grid(st['grid']), costs_only=True)]
                        prs = [st['prices']]
                    else:
                        # through the portfolio with the plant alone: the portfolio's vector is the plant's
                        prs = st['samples']
                        cs = eao.portfolio.Portfolio([shared]).create_cost_samples([{k: np.asarray(v, dtype=float) for k, v in p.items()} for p in prs],
                                                                                  scen.make_grid(st['grid']))
                except Exception as e:
                    cs, prs = None, []
                    ir['costs_only'] = {'error': err_class(e)}
            for c, p in zip(cs or [None], prs or [st['prices']]):
                sc1 = dict(sc, prices=p)
                ir1 = base_of(p)
                if ir1.get('stage') == 'base':
                    continue
                ir1['costs_only'] = {'c': [fs(v) for v in np.asarray(c, dtype=float)]} if c is not None else ir['costs_only']
                mc = drv.ask(CH.request(sc1, ir1, costs_only=True))
                if 'ok' not in mc:
                    sub['disagreements'].append('chp.costs_only: driver rejected the request: %s' % str(mc)[:300])
                else:
                    sub['disagreements'] += CH.compare_costs_only(sc1, ir1, mc['ok'])
            f.append('costs_only')
        else:
            if 'error' not in ir:
                with Quiet():
                    try:
                        op = shared.setup_optim_problem(prices, scen.make_grid(st['grid']))
                        ir['problem'] = problem_json(op, name=sc['name'], nodes=sc['nodes'])
                        # (index attributes of the object mean something only where THIS problem has the variable block: an
                        #  earlier set-up may have left others behind)
                        names = set(op.mapping['var_name'].values)
                        blocks = {'heat_idx': None, 'on_idx': 'bool_on', 'start_idx': 'bool_start', 'shutdown_idx': 'bool_shutdown'}
                        ir['attrs'] = {k: int(getattr(shared, k)) for k, b in blocks.items() if hasattr(shared, k) and (b is None or b in names)}
                        ir['op'] = op
                        ir['asset'] = shared
                    except Exception as e:
                        ir.update(error=err_class(e), stage='chp')
            mr = drv.ask(CH.request(sc, ir))
            CH.judge(sc, ir, mr, drv, sub, pattern_tmax, shared=(shared, nodes))
            n_judged += 1
            info = (mr.get('ok') or {}).get('info') if isinstance(mr, dict) else None
            if info and 'profiles' not in case:
                mine = dict(R=steps(a.get('min_runtime', 0), st), D=steps(a.get('min_downtime', 0), st),
                            tar=steps(a.get('time_already_running', 0), st), tao=steps(a.get('time_already_off', 0), st))
                got = {k: info[k] for k in mine}
                if got != mine:
                    sub['disagreements'].append('regrid: step counts of the model %s vs ceil(duration * unit / step) %s' % (got, mine))
            n_pat += int(sub['observed'].get('patterns', 0) or 0)
            n_solved += int(bool(sub['observed'].get('solved')))
            if 'patterns' in sub['features']:
                f.append('patterns')
            if 'solved' in sub['features']:
                f.append('solved')
            if sub['observed'].get('commitment_checked'):
                f.append('commitment-binding')
            for x in sub['features']:
                if x in ('on', 'no-on', 'R>1', 'D>1', 'start') or x.startswith('profiles:'):
                    f.append(x)
        f.append('grid:' + label(st))
        for v in sub['violations']:
            v['detail'] = '[%s; the object was set up before on: %s] %s' % (where, ', '.join(hist[:-1]) or 'nothing', v['detail'])
            v['facts'].update(regrid=True, stage=i, do=do, history=list(hist), family=case['family'], grid=label(st))
            r['violations'].append(v)
        for d in sub['disagreements']:
            r['disagreements'].append('[%s] %s' % (where, d if not isinstance(d, dict) else d.get('detail')))
        r['observed']['stage%d' % i] = {k: v for k, v in sub['observed'].items() if k != 'first_ramp'}
    grids = [label(st) for st in case['stages'] if 'grid' in st]
    f.append('seq:' + '>'.join(grids))
    if len(set(g.split('/')[0] for g in grids)) > 1:
        f.append('freq-changes')
    if len(set(g.split('/')[1] for g in grids)) > 1:
        f.append('unit-changes')
    r['observed']['patterns'] = n_pat
    r['observed']['solved_stages'] = n_solved
    r['observed']['judged_stages'] = n_judged
    return r
