"""C12 with price keys: change of the main time unit when rates are given as keys into the price data (proof package
`pkg-unitkeys`).

Lean side: `EAO/Lemmas/UnitKeys.lean` (relations `RateSeries` / `SameSeries`, `UnitPrices*`, `rescaleTable`, lemmas) and
`EAO/Properties/C12Keys.lean` (namespace `EAO.C12K`, the theorems of `THEOREMS_C12_KEYS`).  No new model, no new driver op:
the executable cross-check goes through the EXISTING builder ops (`simple_contract`, `contract`, `multi`, `transport`,
`ext_transport` of `harness/comp/contract.py`, `storage` of `harness/comp/storage.py`, `chp` of `harness/comp/chp.py`).

A case = a builder case of one of those modules in main time unit U1 (`base`, rates preferably given as price keys), a second
unit U2, kappa = U1 / U2 (in seconds), and the case re-expressed for U2 (`other`): every rate per time divided by kappa —
scalars, arrays, interval data in the arguments; for a KEY exactly its series in the price table, under the same key — every
duration in main time units multiplied by kappa; prices, extra costs, transport costs, take volumes, levels, efficiencies
untouched.  When a series is a rate AND a per-volume quantity no table exists (`EAO.C12K.shared_key_has_no_table`): such cases
are generated on purpose (`shared`) and only recorded.

  run_impl   the real `setup_optim_problem` on both cases
  oracle     the theorems' statement on the REAL code: same error class, or the same problem (c, l, u, rows, mapping; exact
             where both computations are exact in floating point, else 1e-9 relative)
  request    for each family the requests of the existing ops for both cases, plus (contracts, transports, storage) the
             request of the base case transformed EXACTLY as the theorem says (`g.scaleDt k`, `p.rescale k`, `rescaleTable`,
             unit length u' = u / k) in rational arithmetic
  compare    (1) the existing correspondence model vs real on the re-expressed case, (2) the theorem on the compiled model:
             the answer to the exactly transformed request is IDENTICAL to the answer for the base case, (3) the exactly
             transformed request agrees with the request built from the real objects of the re-expressed case up to float
             rounding (so (1)-(3) tie the real code in unit U2 to the real code in unit U1 through the theorem)
"""
import copy
import os
import random
import sys
import traceback
from fractions import Fraction

sys.path.insert(0, os.environ.get('EAO_REPO', '/repo'))

from . import contract as C  # noqa: E402
from . import storage as S  # noqa: E402
from . import chp as CH  # noqa: E402
from .. import scen, pf  # noqa: E402
from ..lean import fs  # noqa: E402

M = 'EAO.Properties.C12Keys'
THEOREMS_C12_KEYS = [
    (M, 'EAO.C12K.unit_change_keys',
     'SimpleContract, rates in ANY form incl. price keys: dt times k > 0, rates (key series in the second table) divided by k, price and extra-cost series the same: buildSimpleContract returns the SAME problem / the same error'),
    (M, 'EAO.C12K.unit_change_keys_contract',
     'Contract with take periods: the same, the unit length in seconds follows (u\' k = u), take volumes untouched'),
    (M, 'EAO.C12K.unit_change_keys_multi', 'MultiCommodityContract: the same (factors per node are pure numbers)'),
    (M, 'EAO.C12K.unit_change_is_special_case', 'the key-free unit_change_contract of EAO.C12 is the special case "same table"'),
    (M, 'EAO.C12K.unit_table_exists',
     'the table of the new unit exists when no capacity series is also the price / extra-cost series: rescaleTable divides exactly the capacity series by k'),
    (M, 'EAO.C12K.unit_change_keys_contract_table', 'for such a contract the unit change with rescaleTable gives the same problem'),
    (M, 'EAO.C12K.shared_key_has_no_table',
     'a non-zero series required to be a rate (divided by k) and per volume (unchanged) has no table for k != 1'),
    (M, 'EAO.C12K.shared_key_contract', 'a contract whose capacity series is also its price / extra-cost series admits no table in another unit'),
    (M, 'EAO.C12K.unit_change_keys_transport',
     'Transport: capacities are numbers (divided by k); costs_time_series is per volume and the only series read: any table agreeing on it gives the same problem'),
    (M, 'EAO.C12K.unit_change_keys_ext_transport', 'ExtendedTransport: the same with take periods'),
    (M, 'EAO.C12K.unit_change_keys_storage',
     'Storage: cap_in, cap_out, inflow, cost_store divided by k, max_store_duration times k; the price series is per volume and the only series read'),
    (M, 'EAO.C12K.unit_change_keys_mk_storage', 'the same with the constructor guards'),
    (M, 'EAO.C12K.unit_change_keys_chp',
     'CHPAsset / Plant without profiles: running_costs, consumption_if_on in any form (key series divided by k), start costs / conversion factor / heat share / start fuel / fuel efficiency series the same; guard stable (F-06d): same problem'),
    (M, 'EAO.C12K.unit_change_keys_chp_costs_only', 'the same for the costs_only vector'),
    (M, 'EAO.C12K.unit_change_keys_chp_profiles', 'the same with start / shutdown ramp profiles'),
    (M, 'EAO.C12K.unit_change_keys_chp_any', 'the dispatching CHP builder'),
    (M, 'EAO.C12K.unit_change_keys_min_load', 'minimum-load costs: threshold and costs in any form (key series divided by k)'),
    (M, 'EAO.C12K.unit_change_keys_min_load_costs_only', 'its costs_only vector'),
    (M, 'EAO.C12K.unit_change_keys_chp_chain',
     'the whole chain Contract -> CHP -> min-load with every parameter in any form and ONE table serving the three layers'),
    (M, 'EAO.C12K.Ex.rate_series_needed', 'necessity: with the old table (capacity series not rescaled) the contract in the new unit is a different problem (kernel-checked instance)'),
    (M, 'EAO.C12K.Ex.price_series_must_stay', 'necessity: dividing the price series as well gives another cost vector (kernel-checked instance)'),
]

UNIT_S = {'s': 1, 'min': 60, 'h': 3600, 'd': 86400}
TOL = 1e-9


def kappa_of(u1, u2):
    return Fraction(UNIT_S[u1], UNIT_S[u2])


def div(v, kappa):
    return float(Fraction(float(v)) / kappa)


def exact_div(v, kappa):
    """is float(v) / kappa representable (then the real code sees exactly the theorem's number)?"""
    return Fraction(div(v, kappa)) == Fraction(float(v)) / kappa


# ------------------------------------------------------------------ re-expression of a case for another unit
def rate_param(v, kappa, rate_keys):
    """a make_vector parameter that is a rate per main time unit, divided by kappa; a key is collected"""
    if v is None or isinstance(v, bool):
        return v
    if isinstance(v, (int, float)):
        return div(v, kappa)
    if isinstance(v, str):
        rate_keys.add(v)
        return v
    if isinstance(v, dict) and '$arr' in v:
        return {'$arr': [div(x, kappa) for x in v['$arr']]}
    if isinstance(v, dict) and 'values' in v:
        vals = v['values']
        return dict(v, values=[div(x, kappa) for x in vals] if isinstance(vals, list) else div(vals, kappa))
    raise TypeError('unsupported parameter form %r' % (v,))


def contract_other(case, u2):
    """the contract / transport case in unit u2; (case2, rate_keys) or (None, reason) when no table exists"""
    kappa = kappa_of(case['grid']['unit'], u2)
    c2 = copy.deepcopy(case)
    c2['grid']['unit'] = u2
    a, a2 = case['spec']['args'], c2['spec']['args']
    rate_keys = set()
    for which in ('min_cap', 'max_cap'):
        if which in a:
            a2[which] = rate_param(a[which], kappa, rate_keys)
    same_keys = {a.get(n) for n in ('price', 'extra_costs', 'costs_time_series') if isinstance(a.get(n), str)}
    if rate_keys & same_keys:
        return None, 'shared:' + ','.join(sorted(rate_keys & same_keys))
    for key in rate_keys:
        if key in case['prices']:
            c2['prices'][key] = [div(x, kappa) for x in case['prices'][key]]
    c2['exact'] = False
    return c2, rate_keys


STORAGE_RATES = ('cap_in', 'cap_out', 'inflow', 'cost_store')


def storage_other(case, u2):
    kappa = kappa_of(case['grid']['unit'], u2)
    c2 = copy.deepcopy(case)
    c2['grid']['unit'] = u2
    for which in STORAGE_RATES:
        if which in case['args']:
            c2['args'][which] = div(case['args'][which], kappa)
    if case['args'].get('max_store_duration') is not None:
        c2['args']['max_store_duration'] = float(Fraction(float(case['args']['max_store_duration'])) * kappa)
    return c2


# ------------------------------------------------------------------ generators
def keyify_contract(case, rnd):
    """turn scalar capacities / extra costs of a generated contract case into price keys (constant or step-wise varied series
    over the FULL grid): the subject of this package"""
    a = case['spec']['args']
    if case['kind'] not in ('simple_contract', 'contract', 'multi'):
        return
    T = len(C.grid_points(case['grid'])) - 1
    for which in ('min_cap', 'max_cap', 'extra_costs'):
        v = a.get(which)
        if isinstance(v, (int, float)) and not isinstance(v, bool) and rnd.random() < (0.75 if which != 'extra_costs' else 0.3):
            key = 'uk_' + which
            f = [rnd.choice([1.0, 1.0, 0.5, 0.75]) for _ in range(T)] if rnd.random() < 0.6 else [1.0] * T
            case['prices'][key] = [float(v) * x for x in f]
            a[which] = key
            case['features'].append('keyified:' + which)


def other_unit(rnd, u1):
    return rnd.choice([u for u in ('h', 'd', 'min') if u != u1])


def gen_case(rnd, malformed=False, family=None):
    family = family or rnd.choice(['contract'] * 6 + ['storage'] * 2 + ['chp'] * 2)
    if family == 'contract':
        base = C.gen_case(random.Random(rnd.getrandbits(48)), malformed=malformed)
        keyify_contract(base, rnd)
        a = base['spec']['args']
        shared = False
        if base['kind'] in ('simple_contract', 'contract', 'multi') and rnd.random() < 0.04 and isinstance(a.get('max_cap'), str) \
                and a['max_cap'] in base['prices']:
            a['price'] = a['max_cap']       # one series as capacity and as price: no table in another unit
            shared = True
        u2 = other_unit(rnd, base['grid']['unit'])
        feats = ['family:' + base['kind'], 'unit:%s->%s' % (base['grid']['unit'], u2)] + \
                [f for f in base['features'] if f.split(':')[0] in ('min', 'max', 'spread', 'bad', 'window', 'keyified', 'freq', 'sign', 'takes', 'tz', 'wacc')]
        keys = [n for n in ('min_cap', 'max_cap') if isinstance(a.get(n), str)]
        feats.append('ratekeys:%d' % len(keys))
        return {'family': 'contract', 'base': base, 'to': u2, 'features': feats + (['shared'] if shared else [])}
    if family == 'storage':
        base = S.gen_case(random.Random(rnd.getrandbits(48)), mip_prob=0.3, malformed_prob=0.06 if malformed else 0.0)
        if 'price' not in base['args'] and rnd.random() < 0.5:
            tg = scen.make_grid(base['grid'])
            base['prices']['uk_price'] = [rnd.randint(-8, 80) / 8.0 for _ in range(int(tg.T))]
            base['args']['price'] = 'uk_price'
        u2 = other_unit(rnd, base['grid']['unit'])
        return {'family': 'storage', 'base': base, 'to': u2,
                'features': ['family:storage', 'unit:%s->%s' % (base['grid']['unit'], u2), 'price' if base['args'].get('price') else 'noprice']}
    base = CH.gen_unit_change_case(random.Random(rnd.getrandbits(48)))
    u2 = base['unit_change']['to']
    tg = scen.make_grid(base['grid'])
    T = int(tg.T)
    a = base['args']
    keyed = []
    for which in ('min_cap', 'max_cap', 'running_costs', 'consumption_if_on', 'min_load_threshhold', 'min_load_costs'):
        v = a.get(which)
        if v is None and which in ('running_costs', 'consumption_if_on') and rnd.random() < 0.5:
            v = rnd.randint(0, 32) / 8.0            # the argument's default is 0: give it a value so that the key matters
        if v is None and which.startswith('min_load') and base['cls'] == 'CHPAsset_with_min_load_costs' and rnd.random() < 0.5:
            v = rnd.randint(0, 16) / 8.0
        if isinstance(v, (int, float)) and not isinstance(v, bool) and rnd.random() < 0.8:
            key = 'uk_' + which
            f = [rnd.choice([1.0, 1.0, 0.5]) for _ in range(T)] if which not in ('min_cap', 'max_cap') else [1.0] * T
            base['prices'][key] = [float(v) * x for x in f]
            a[which] = key
            keyed.append(which)
    return {'family': 'chp', 'base': base, 'to': u2,
            'features': ['family:chp:' + base['cls'], 'unit:%s->%s' % (base['grid']['unit'], u2)] + ['keyified:' + k for k in keyed]}


# ------------------------------------------------------------------ implementation side
def others(case):
    """the re-expressed case, or None"""
    if case['family'] == 'contract':
        c2, info = contract_other(case['base'], case['to'])
        return c2, info
    if case['family'] == 'storage':
        return storage_other(case['base'], case['to']), set()
    return CH.unit_change_case(case['base'], case['to']), set()


def run_impl(case):
    c2, info = others(case)
    out = {'other_case': c2, 'info': info}
    if case['family'] == 'contract':
        out['base'] = C.run_impl(case['base'])
        out['other'] = C.run_impl(c2) if c2 is not None else None
    elif case['family'] == 'storage':
        out['base'] = S.run_impl(case['base'], solve=False)
        out['other'] = S.run_impl(c2, solve=False)
    else:
        out['base'] = CH.run_impl(case['base'])
        out['other'] = CH.run_impl(c2)
    return out


def _outcome(family, r):
    """('skip', why) | ('error', cls) | ('problem', json)"""
    if family == 'contract':
        if 'grid_error' in r:
            return ('skip', 'grid-error')
        if r.get('error') in ('NonExistentTimeError', 'AmbiguousTimeError'):
            return ('skip', 'pandas-tz-error')
        if 'error' in r:
            return ('error', r['error'])
        return ('problem', r['problem'])
    if family == 'storage':
        if r.get('aa_error'):
            return ('skip', 'blocks-pandas-error')
        res = r['result']
        return ('error', res['error']) if 'error' in res else ('problem', res['problem'])
    if 'error' in r:
        return ('error', r['error'] + ':' + str(r.get('stage')))
    return ('problem', r['problem'])


def _clean(rows):
    return [dict(r, coeffs=[[j, v] for j, v in r['coeffs'] if abs(Fraction(v)) > Fraction(1, 10 ** 12)]) for r in rows]


def same_problem(tag, p1, p2, tol):
    """the statement `p2 = p1` for two problem JSONs"""
    out = []
    if p1.get('name') != p2.get('name') or p1.get('nodes') != p2.get('nodes'):
        out.append('%s: name/nodes differ' % tag)
    if tol:
        p1 = dict(p1, rows=_clean(p1['rows']))
        p2 = dict(p2, rows=_clean(p2['rows']))
    out += pf.cmp_problem(tag, p2, p1, tol, aspects=('c', 'l', 'u', 'rows', 'mapping'))
    if not out:
        d = pf.cmp_rows(tag + '.rows(ordered)', p2['rows'], p1['rows'], tol, ordered=True)
        if d:
            out.append(d)
        if [(m['var'], m['step'], m['node']) for m in p1['mapping']] != [(m['var'], m['step'], m['node']) for m in p2['mapping']]:
            out.append('%s: order of mapping rows differs' % tag)
    return out


def oracle(case, impl_result):
    """the theorems' statement evaluated on the real code"""
    if impl_result['other'] is None:
        return []
    fam = case['family']
    o1 = _outcome(fam, impl_result['base'])
    o2 = _outcome(fam, impl_result['other'])
    if o1[0] == 'skip' or o2[0] == 'skip':
        return []
    facts = {'family': fam, 'unit_from': case['base']['grid']['unit'], 'unit_to': case['to']}
    if fam == 'chp':
        facts['guard_stable'] = CH.guard_stable(case['base'], case['to'])
    viol = []
    if o1[0] != o2[0] or (o1[0] == 'error' and o1[1] != o2[1]):
        kind = 'unit_keys_outcome'
        if fam == 'chp' and not facts['guard_stable'] and 'assert:ctor' in (o1[1] if o1[0] == 'error' else '', o2[1] if o2[0] == 'error' else ''):
            kind = 'unit_change_guard'       # known finding F-06d (hypothesis GuardStable)
        viol.append({'oracle': 'unit_change_keys', 'detail': 'unit %s: %s; re-expressed for %s with the rescaled table: %s' % (
            facts['unit_from'], o1[1] if o1[0] == 'error' else 'problem', facts['unit_to'], o2[1] if o2[0] == 'error' else 'problem'),
            'facts': dict(facts, kind=kind)})
    elif o1[0] == 'problem':
        d = same_problem('impl', o1[1], o2[1], 0)
        if d:
            d = same_problem('impl', o1[1], o2[1], TOL)
        for x in d:
            viol.append({'oracle': 'unit_change_keys', 'detail': x, 'facts': dict(facts, kind='unit_keys_problem')})
    return viol


# ------------------------------------------------------------------ the theorem's transformation, exactly, on a request
def _q(s, f):
    return fs(Fraction(s) * f)


def _param_rate(pj, inv):
    if 'scalar' in pj:
        return {'scalar': _q(pj['scalar'], inv)}
    if 'array' in pj:
        return {'array': [_q(v, inv) for v in pj['array']]}
    if 'intervals' in pj:
        return {'intervals': [dict(iv, value=_q(iv['value'], inv)) for iv in pj['intervals']]}
    return pj


def exact_request(case, req, rate_keys):
    """`p.rescale k`, `g.scaleDt k`, `rescaleTable k keys`, `u' = u / k` applied to the request of the base case"""
    k = kappa_of(case['base']['grid']['unit'], case['to'])
    inv = 1 / k
    r2 = copy.deepcopy(req)
    r2['grid']['dt'] = [_q(v, k) for v in req['grid']['dt']]
    r2['grid']['Dt'] = [_q(v, k) for v in req['grid']['Dt']]
    if case['family'] == 'contract':
        r2['unitSec'] = UNIT_S[case['to']]
        p, p2 = req['params'], r2['params']
        if case['base']['kind'] in ('simple_contract', 'contract', 'multi'):
            p2['min_cap'] = _param_rate(p['min_cap'], inv)
            p2['max_cap'] = _param_rate(p['max_cap'], inv)
        else:
            p2['min_cap'] = _q(p['min_cap'], inv)
            p2['max_cap'] = _q(p['max_cap'], inv)
        r2['prices'] = {key: ([_q(v, inv) for v in vals] if key in rate_keys else vals) for key, vals in req['prices'].items()}
    else:
        p, p2 = req['params'], r2['params']
        for a, b in (('cap_in', 'cap_in'), ('cap_out', 'cap_out'), ('inflow', 'inflow'), ('cost_store', 'cost_store')):
            p2[b] = _q(p[a], inv)
        if p.get('max_store_duration') is not None:
            p2['max_store_duration'] = _q(p['max_store_duration'], k)
    return r2


def _near(a, b, rel=1e-12):
    a, b = Fraction(a), Fraction(b)
    return a == b or abs(a - b) <= Fraction(rel) * max(abs(a), abs(b), Fraction(1, 10 ** 6))


def _walk_near(x, y, path, out):
    if len(out) > 3:
        return
    if isinstance(x, dict) and isinstance(y, dict):
        if set(x) != set(y):
            out.append('%s: fields %s vs %s' % (path, sorted(x), sorted(y)))
            return
        for kx in x:
            if kx == 'df':
                # discount factors are an input of the model; the real ones of the other unit differ by rounding only
                for i, (u, v) in enumerate(zip(x[kx], y[kx])):
                    if not _near(u, v, 1e-9):
                        out.append('%s.df[%d]: %s vs %s' % (path, i, u, v))
                continue
            _walk_near(x[kx], y[kx], path + '.' + kx, out)
    elif isinstance(x, list) and isinstance(y, list):
        if len(x) != len(y):
            out.append('%s: length %d vs %d' % (path, len(x), len(y)))
            return
        for i, (u, v) in enumerate(zip(x, y)):
            _walk_near(u, v, '%s[%d]' % (path, i), out)
    elif isinstance(x, str) and isinstance(y, str):
        try:
            fx, fy = Fraction(x), Fraction(y)
        except Exception:
            if x != y:
                out.append('%s: %r vs %r' % (path, x, y))
            return
        if not _near(fx, fy):
            out.append('%s: %s (theorem) vs %s (real objects)' % (path, float(fx), float(fy)))
    elif x != y:
        out.append('%s: %r vs %r' % (path, x, y))


# ------------------------------------------------------------------ model side (existing driver ops)
def request(case, impl_result=None):
    """[request of the base case, request of the re-expressed case (real objects), exactly transformed base request | None]"""
    r = impl_result if impl_result is not None else run_impl(case)
    c2 = r['other_case']
    if case['family'] == 'contract':
        q1 = C.request(case['base'], r['base'])
        q2 = C.request(c2, r['other']) if c2 is not None and 'grid' in (r['other'] or {}) else None
        return [q1, q2, exact_request(case, q1, r['info']) if c2 is not None else None]
    if case['family'] == 'storage':
        q1 = S.request(case['base'], r['base'])
        return [q1, S.request(c2, r['other']), exact_request(case, q1, set())]
    return [CH.request(case['base'], r['base']), CH.request(c2, r['other']), None]


def _model_same(tag, a, b, tol):
    if ('error' in a) != ('error' in b) or ('error' in a and a['error'] != b['error']):
        return ['%s: outcome %s vs %s' % (tag, a.get('error', 'problem'), b.get('error', 'problem'))]
    if 'problem' in a:
        return same_problem(tag, a['problem'], b['problem'], tol)
    return []


def _storage_compare(case, c2, rec, model):
    """`S.compare`, but tolerant when a rate of the re-expressed case is a rounded quotient (S.is_exact only looks at dt)"""
    kappa = kappa_of(case['base']['grid']['unit'], case['to'])
    a = case['base']['args']
    if all(exact_div(a[w], kappa) for w in STORAGE_RATES if w in a):
        return S.compare(c2, rec, model)
    im = rec['result']
    if 'error' in im or 'error' in model:
        return S.compare(c2, rec, model)
    return same_problem('storage', im['problem'], model['problem'], TOL)


def _chp_durations_exact(case, c2):
    kappa = kappa_of(case['base']['grid']['unit'], case['to'])
    a = case['base']['args']
    return all(Fraction(float(a[k])) * kappa == Fraction(float(c2['args'][k])) for k in CH.DURATION_ARGS if k in a)


def compare(case, impl_result, model_result, reqs=None):
    out = []
    m1, m2, m3 = model_result
    fam = case['family']
    c2 = impl_result['other_case']
    if 'ok' not in m1:
        return ['driver rejected the base request: %s' % m1.get('err')]
    if m2 is not None:
        if 'ok' not in m2:
            return ['driver rejected the request of the re-expressed case: %s' % m2.get('err')]
        # (1) existing correspondence on the re-expressed case
        if fam == 'contract':
            out += ['other unit: ' + d for d in C.compare(c2, impl_result['other'], m2)]
        elif fam == 'storage':
            out += ['other unit: ' + d for d in _storage_compare(case, c2, impl_result['other'], m2['ok'])]
        elif _chp_durations_exact(case, c2):
            # (a duration whose product with kappa is not representable sits under a ceiling: the exact model on the rounded
            # number may count one step more than floating point does - an artefact of re-expressing, not of the builders)
            out += ['other unit: ' + d for d in CH.compare(c2, impl_result['other'], m2['ok'])]
            if CH.guard_stable(case['base'], case['to']):
                out += _model_same('model (two units, tolerant)', m1['ok'], m2['ok'], TOL)
    if m3 is not None:
        if 'ok' not in m3:
            return out + ['driver rejected the exactly transformed request: %s' % m3.get('err')]
        # (2) the theorem on the compiled model: identical answers
        out += _model_same('model (theorem, exact)', m1['ok'], m3['ok'], 0)
        # (3) the transformation of the theorem is the one the real objects of the other unit show
        if reqs is not None and reqs[1] is not None:
            d = []
            _walk_near(reqs[2], reqs[1], 'request', d)
            out += ['transformed request: ' + x for x in d]
    return out


def run_case(case, drv):
    r = run_impl(case)
    rec = {'features': list(case['features']), 'disagreements': [], 'violations': [], 'nontrivial': False}
    fam = case['family']
    if r['other'] is None:
        rec['features'].append('no-table:' + str(r['info']).split(':')[0])
        # still: the model answers the base request
        return rec
    o1 = _outcome(fam, r['base'])
    o2 = _outcome(fam, r['other'])
    if o1[0] == 'skip' or o2[0] == 'skip':
        rec['features'].append('skip:' + (o1[1] if o1[0] == 'skip' else o2[1]))
        return rec
    rec['features'].append('outcome:' + (o1[0] if o1[0] == 'problem' else 'error:' + str(o1[1])))
    rec['nontrivial'] = o1[0] == 'problem' and len(o1[1]['c']) > 0
    if rec['nontrivial'] and o1[1]['rows']:
        rec['features'].append('with-rows')
    rec['violations'] = oracle(case, r)
    reqs = request(case, r)
    answers = [drv.ask(q) if q is not None else None for q in reqs]
    rec['disagreements'] = compare(case, r, answers, reqs)
    return rec


KNOWN_KINDS = ('unit_change_guard',)


def selftest(n, seed, drv, verbose=False, family=None):
    rnd = random.Random(seed)
    counts = {'cases': 0, 'nontrivial': 0, 'disagreeing': 0, 'violating': 0, 'known': 0, 'harness_errors': 0}
    feats = {}
    dis, viol = [], []
    for i in range(n):
        case = gen_case(random.Random(rnd.getrandbits(48)), malformed=(i % 6 == 5), family=family)
        try:
            rec = run_case(case, drv)
        except Exception:
            counts['harness_errors'] += 1
            dis.append({'case': case, 'detail': 'harness error: ' + traceback.format_exc()[-900:]})
            continue
        counts['cases'] += 1
        counts['nontrivial'] += int(rec['nontrivial'])
        for f in rec['features']:
            feats[f] = feats.get(f, 0) + 1
        if rec['disagreements']:
            counts['disagreeing'] += 1
            for d in rec['disagreements']:
                dis.append({'case': case, 'detail': d})
                if verbose:
                    print('DISAGREE', i, d)
        new = [v for v in rec['violations'] if v['facts'].get('kind') not in KNOWN_KINDS]
        counts['known'] += int(len(new) < len(rec['violations']))
        if new:
            counts['violating'] += 1
            for v in new:
                v['case'] = case
                viol.append(v)
                if verbose:
                    print('VIOLATION', i, v['detail'])
    return {'counts': counts, 'features': dict(sorted(feats.items())), 'disagreements': dis, 'violations': viol}


if __name__ == '__main__':
    import json
    from ..lean import Driver
    n = int(sys.argv[1]) if len(sys.argv) > 1 else 100
    seed = int(sys.argv[2]) if len(sys.argv) > 2 else 0
    fam = None
    for x in sys.argv[3:]:
        if x in ('contract', 'storage', 'chp'):
            fam = x
    drv = Driver()
    try:
        res = selftest(n, seed, drv, verbose=True, family=fam)
    finally:
        drv.close()
    print(json.dumps(res['counts']))
    for d in res['disagreements'][:6]:
        print('--', d['detail'])
        print('   ', json.dumps(d['case'], default=str)[:1500])
    for v in res['violations'][:6]:
        print('**', v['detail'])
        print('   ', json.dumps(v['case'], default=str)[:1500])
    if '-f' in sys.argv:
        print(json.dumps(res['features'], indent=0))
