"""C14 + C20: order books in a split optimisation (`Portfolio.setup_split_optim_problem` with `OrderBook` assets) against the
Lean model `EAO.Model.ObSplit`, and the registry of the theorems of `EAO.Properties.C14Orders`.

In every interval the order book keeps ALL its orders: those without a step in the interval are variables with zero cost,
bounds [0, 1], no mapping row and no restriction row ("inert").  The block sum of the interval problems has more variables than
the unsplit problem; the statement is the C14 witness MODULO INERT VARIABLES (`splitWitnessModInert`).

A case is a `comp.splitbuild` case whose asset list also holds `OrderBook` specs, plus `k` (steps per interval) and `obstream`.

* run_impl(case)           real code: unsplit problem, interval problems, cuts, discount factors (`splitbuild.run_impl`)
* request(case, impl)      JSON request for the Lean driver (op `ob_split_build`)
* compare(case, impl, m)   disagreement strings: unsplit problem and every interval problem (cost, bounds, rows in order, mapping
                           in order, nodal record)
* oracle(case, impl, m, drv)  orders inside one interval each + `splitHyps` for the other assets => the witness modulo inert
                           variables is true on the model problems AND on the REAL problems (driver op `ob_witness`); every variable the
                           model drops from a real interval problem really is inert (zero cost, no mapping row, no row)
"""
import copy
import json
import random
import traceback
from fractions import Fraction

import pandas as pd

from .. import gen, scen
from ..impl import problem_json
from ..lean import fs
from .common import prices_json, instant
from .contract import unit_sec
from . import splitbuild as sb

NAME = 'obsplit'

M = 'EAO.Properties.C14Orders'
THEOREMS_C14_ORDERS = [
    (M, 'EAO.C14O.inert_vars_equiv',
     'generic: a well-formed problem and the problem without its inert variables (zero cost, non-empty box, no row, no mapping row) have corresponding feasible points both ways '
     '(explicit maps: forget the inert entries / put them at their lower bound), relaxed and with the boolean flags, with equal value and equal dispatch of every asset at every node and step'),
    (M, 'EAO.C14O.inert_vars_same_bounds', 'hence the same upper bounds of the value sets (same optimal value, integrality included, no existence assumed)'),
    (M, 'EAO.C14O.inert_vars_optimum', 'and an optimum of the problem without inert variables, extended by the lower bounds, is an optimum of the problem (and back by forgetting the inert entries)'),
    (M, 'EAO.C14O.orderbook_interval',
     'the order book built on the grid of an interval (steps re-based, dt / discount factors of the reference) is, on the orders with a step in the interval, literally the restriction of the unsplit '
     'order book to the interval steps (cost = the whole unsplit cost of the order, bounds, mapping rows with re-based steps) - for orders that do not reach across the cut - and every other order is an inert variable there'),
    (M, 'EAO.C14O.orderbook_interval_keep', 'the orders kept in an interval are exactly those covering a step of it'),
    (M, 'EAO.C14O.orderbook_interval_cost', 'an order inside the interval costs in the interval problem what it costs unsplit; an order outside costs nothing'),
    (M, 'EAO.C14O.split_equals_unsplit_orderbooks',
     'portfolios with order books: when the witness modulo inert variables is true (driver: evaluated on the model and on the real problems of every generated case) interval-wise optima, '
     'stripped of the inert entries, concatenated and transported along the matching of the live variables, extended by the lower bounds of the inert unsplit variables, are a feasible and OPTIMAL point '
     'of the unsplit problem, and the unsplit optimal value is the sum of the interval optima'),
    (M, 'EAO.C14O.split_equals_unsplit_orderbooks_bool', 'the same with full execution: interval solutions feasible and optimal INCLUDING the 0/1 conditions of the order variables give a feasible and optimal point of the unsplit problem including its 0/1 conditions'),
    (M, 'EAO.C14O.crossing_order_witness',
     'machine-checked counterexample: ONE full-execution order across the cut (2 hourly steps, cut in the middle, capacity 1, price 1) against a sink paying 3 that takes at most 1 in the first and at most 1/2 in the second hour: '
     'unsplit the order has one 0/1 variable delivering in both hours, executing it is infeasible, every feasible point has value 0; the split set-up gives the order one 0/1 variable per interval with prorated cost and executes the first half alone '
     '(feasible with the boolean flags, value 2 > 0): ordersInsideAll = false, splitWitnessModInert = false, the split value exceeds the unsplit optimum'),
]


# ------------------------------------------------------------------------------------------ generator
def _orders(rnd, g, T, k, stream):
    n = rnd.randint(1, 5)
    ss, ee, cc, pp = [], [], [], []
    step = pd.Timedelta(seconds=g['step_s'])
    nint = max(1, (T + k - 1) // k)
    for _ in range(n):
        kind = rnd.choice(['inside'] * 5 + ['outside_after', 'outside_before', 'offgrid'])
        if stream == 'crossing' and rnd.random() < 0.5:
            kind = 'cross'
        if stream == 'mixed':
            kind = rnd.choice(['inside', 'inside', 'cross', 'straddle_start', 'straddle_end', 'offgrid', 'whole'])
        j = rnd.randrange(0, nint)
        a0, b0 = j * k, min(T, (j + 1) * k)
        a = rnd.randint(a0, b0 - 1)
        b = rnd.randint(a + 1, b0)
        if kind == 'inside':
            s, e = gen.P(g, a), gen.P(g, b)
        elif kind == 'cross':
            a = rnd.randint(0, max(0, T - 2))
            b = rnd.randint(min(T, a + 2), T)
            s, e = gen.P(g, a), gen.P(g, b)
        elif kind == 'whole':
            s, e = gen.P(g, 0), gen.P(g, T)
        elif kind == 'straddle_start':
            s, e = gen.P(g, -3), gen.P(g, rnd.randint(1, T))
        elif kind == 'straddle_end':
            s, e = gen.P(g, rnd.randint(0, T - 1)), gen.P(g, T + 3)
        elif kind == 'outside_after':
            s, e = gen.P(g, T + 1), gen.P(g, T + 4)
        elif kind == 'outside_before':
            s, e = gen.P(g, -6), gen.P(g, -2)
        else:   # off the grid points, inside one interval: covers the steps STARTING in [s, e)
            s, e = gen.P(g, a) + step / 2, gen.P(g, b) + step / 2
            if b == b0 and b0 < T:
                e = gen.P(g, b)
        if not (gen.ok_local(s, g) and gen.ok_local(e, g)):
            s, e = gen.P(g, a0), gen.P(g, b0)
        try:        # a local date that does not exist / is ambiguous in the zone of the grid: the constructor of the real code raises
            instant(s, g.get('tz'))
            instant(e, g.get('tz'))
        except Exception:
            s, e = gen.P(g, T + 30), gen.P(g, T + 31)
            try:
                instant(s, g.get('tz'))
                instant(e, g.get('tz'))
            except Exception:
                continue
        ss.append(gen.dtv(s))
        ee.append(gen.dtv(e))
        cc.append(rnd.choice([-1, 1]) * gen.q8(rnd, 0.25, 4))
        pp.append(gen.q8(rnd, -2, 15))
    return {'start': ss, 'end': ee, 'capa': cc, 'price': pp}


def gen_case(rnd, stream=None):
    stream = stream or rnd.choice(['inside', 'inside', 'inside', 'crossing', 'mixed'])
    base = sb.gen_case(rnd, stream=rnd.choice(['plain', 'plain', 'takes_inside']))
    g = base['grid']
    T = g['T_nominal']
    sec = int(pd.Timedelta(base['interval']).total_seconds())
    k = max(1, sec // g['step_s'])
    nb = rnd.randint(1, 2)
    books = []
    for i in range(nb):
        args = {'orders': _orders(rnd, g, T, k, stream)}
        if rnd.random() < 0.3:
            args['full_exec'] = True
        args['wacc'] = 0.0 if (base['exact'] or rnd.random() < 0.5) else rnd.choice([0.05, 0.1])
        books.append({'type': 'OrderBook', 'name': 'ob%d' % i, 'nodes': [rnd.choice(base['nodes'])], 'args': args})
    assets = list(base['assets'])
    if rnd.random() < 0.15:
        assets = []          # order books alone
    for b in books:
        assets.insert(rnd.randint(0, len(assets)), b)
    base['assets'] = assets
    base['k'] = k
    base['obstream'] = stream
    base['stream'] = 'ob_' + stream
    return base


# ------------------------------------------------------------------------------------------ implementation side
def run_impl(case):
    return sb.run_impl(case)


def asset_json(a, spec, tz):
    if a['type'] != 'OrderBook':
        return sb.asset_json(a, spec, tz)
    o = scen.dec(copy.deepcopy(a['args']['orders']))
    return {'kind': 'orderbook', 'name': a['name'], 'node': a['nodes'][0], 'full_exec': bool(a['args'].get('full_exec', False)),
            'orders': {'start': [instant(x, tz) for x in o['start']], 'stop': [instant(x, tz) for x in o['end']],
                       'capa': [fs(float(v)) for v in o['capa']], 'price': [fs(float(v)) for v in o['price']]},
            'df': spec['df'], 'params': {}}


def request(case, impl_result=None):
    r = impl_result if impl_result is not None else run_impl(case)
    tz = case['grid'].get('tz')
    return {'op': 'ob_split_build', 'grid': r['grid'], 'cuts': r['cuts'], 'prices': prices_json(case['prices']),
            'unitSec': unit_sec(case['grid'].get('unit', 'h')), 'skip': list(case.get('skip', [])),
            'assets': [asset_json(a, s, tz) for a, s in zip(case['assets'], r['specs'])]}


def compare(case, impl_result, model_result, req=None):
    if 'err' in model_result:
        return ['driver rejected the request: %s' % model_result['err']]
    req = req or request(case, impl_result)
    m = dict(model_result['ok'])
    m.pop('perm', None)       # the matching of the LIVE variables is not the matching read off the mappings
    return sb.compare(case, impl_result, {'ok': m}, req)


def _is_inert(P, v):
    if Fraction(P['c'][v]) != 0:
        return False
    if any(int(m['var']) == v for m in P['mapping']):
        return False
    for r in P['rows']:
        if any(int(q[0]) == v for q in r['coeffs']):
            return False
    return Fraction(P['l'][v]) <= Fraction(P['u'][v])


def oracle(case, impl_result, model_result=None, drv=None):
    viol = []
    if model_result is None or drv is None:
        return viol
    m = model_result.get('ok', {})
    good = bool(m.get('hyps')) and bool(m.get('inside'))
    if good and '_op' in impl_result and len(impl_result['_op'].c) > 0 and '_sop' not in impl_result:
        viol.append({'oracle': 'split_orderbooks', 'detail': 'hypotheses hold and the unsplit set-up succeeds, the split set-up raises: %s' % impl_result['split'].get('text'),
                     'facts': {'stream': case['stream']}})
    if '_op' not in impl_result or '_sop' not in impl_result or 'witness' not in m:
        return viol
    U = problem_json(impl_result['_op'])
    ps = [problem_json(o) for o in impl_result['_sop'].ops]
    ans = drv.ask({'op': 'ob_witness', 'problem': U, 'intervals': ps, 'steps': m['steps']})
    impl_result['_witness_checked'] = True
    a = ans.get('ok', {})
    impl_result['_real_witness'] = a.get('witness')
    # the variables the model drops from the real problems are inert there (independent check in Python)
    try:
        for tag, P, live in [('unsplit', U, a.get('live', []))] + [('interval %d' % i, p, l) for i, (p, l) in enumerate(zip(ps, a.get('lives', [])))]:
            n = len(P['c'])
            for v in range(n):
                if (v not in live) != _is_inert(P, v):
                    viol.append({'oracle': 'inert_vars', 'detail': '%s: variable %d live=%s but inert=%s' % (tag, v, v in live, _is_inert(P, v)), 'facts': {}})
    except Exception as e:
        viol.append({'oracle': 'inert_vars', 'detail': 'check failed: %r' % e, 'facts': {}})
    if a.get('witness') != m.get('witness'):
        viol.append({'oracle': 'split_orderbooks', 'detail': 'witness modulo inert variables: model problems %s, real problems %s (%s)' % (m.get('witness'), a.get('witness'), a.get('reason')),
                     'facts': {'stream': case['stream']}})
    if good:
        if not a.get('witness'):
            viol.append({'oracle': 'split_orderbooks', 'detail': 'orders inside + splitHyps, witness on the real problems false: %s' % a.get('reason'), 'facts': {'stream': case['stream']}})
        if not m.get('witness'):
            viol.append({'oracle': 'split_orderbooks_model', 'detail': 'orders inside + splitHyps, witness on the model problems false: %s' % m.get('reason'), 'facts': {'stream': case['stream']}})
    return viol


# ------------------------------------------------------------------------------------------ self test
SCRATCH_MAIN = sb.SCRATCH_MAIN.replace('import EAO.Driver.SplitBuild\n', 'import EAO.Driver.SplitBuild\nimport EAO.Driver.ObSplit\n') \
    .replace('[handleCore, handleSplit, handleSplitBuild]', '[handleCore, handleSplit, handleSplitBuild, handleObSplit]')


class ScratchDriver(sb.ScratchDriver):
    def __init__(self, main=None):
        if main is None:
            import tempfile
            import os
            self._tmp = tempfile.mkdtemp(prefix='obsplit_drv_')
            main = os.path.join(self._tmp, 'Main.lean')
            with open(main, 'w') as f:
                f.write(SCRATCH_MAIN)
        super().__init__(main)


def selftest(n, seed, drv, verbose=False, stream=None):
    rnd = random.Random(seed)
    counts = {'cases': 0, 'unsplit_ok': 0, 'split_ok': 0, 'intervals': 0, 'exact': 0, 'harness_errors': 0,
              'inside_true': 0, 'inside_false': 0, 'good': 0, 'good_witness_true': 0, 'witness_true': 0, 'witness_false': 0,
              'crossing_witness_false': 0, 'crossing_witness_true': 0, 'plain_witness_true': 0, 'real_witness_checked': 0,
              'inert_dropped': 0, 'full_exec_books': 0}
    feats, dis, viol = {}, [], []
    for i in range(n):
        case = gen_case(random.Random(rnd.getrandbits(48)), stream=stream)
        try:
            r = run_impl(case)
            req = request(case, r)
            mres = drv.ask(req)
            d = compare(case, r, mres, req)
            v = oracle(case, r, mres, drv)
        except Exception:
            counts['harness_errors'] += 1
            dis.append({'case': case, 'detail': 'harness error %s' % traceback.format_exc()[-800:]})
            continue
        counts['cases'] += 1
        counts['unsplit_ok'] += int('problem' in r['unsplit'])
        counts['split_ok'] += int('intervals' in r['split'])
        counts['intervals'] += len(r['split'].get('intervals', []))
        counts['exact'] += int(sb.is_exact(case, req))
        counts['real_witness_checked'] += int(bool(r.get('_witness_checked')))
        counts['full_exec_books'] += sum(1 for a in case['assets'] if a['type'] == 'OrderBook' and a['args'].get('full_exec'))
        m = mres.get('ok', {})
        if 'inside' in m:
            counts['inside_true' if m['inside'] else 'inside_false'] += 1
        if 'witness' in m:
            counts['witness_true' if m['witness'] else 'witness_false'] += 1
            counts['plain_witness_true'] += int(bool(m.get('plain')))
            counts['inert_dropped'] += sum(len(p['c']) for p in m['split']['intervals']) - sum(len(l) for l in m['lives'])
            if m.get('hyps') and m.get('inside'):
                counts['good'] += 1
                counts['good_witness_true'] += int(bool(m['witness']))
            if m.get('hyps') and not m.get('inside'):
                counts['crossing_witness_true' if m['witness'] else 'crossing_witness_false'] += 1
        f = 'stream:' + case['stream']
        feats[f] = feats.get(f, 0) + 1
        for x in d:
            dis.append({'case': case, 'detail': x})
            if verbose:
                print('DISAGREE', x[:300])
        for x in v:
            x['case'] = case
            viol.append(x)
            if verbose:
                print('VIOLATION', x['detail'][:300])
    return {'counts': counts, 'features': feats, 'disagreements': dis, 'violations': viol}


if __name__ == '__main__':
    import sys
    n = int(sys.argv[1]) if len(sys.argv) > 1 else 100
    seed = int(sys.argv[2]) if len(sys.argv) > 2 else 0
    stream = sys.argv[3] if len(sys.argv) > 3 else None
    drv = ScratchDriver()
    try:
        r = selftest(n, seed, drv, verbose=True, stream=stream)
    finally:
        drv.close()
    print(json.dumps(r['counts']), json.dumps(r['features']))
    print('disagreements', len(r['disagreements']), 'violations', len(r['violations']))
    for d in r['disagreements'][:6]:
        print('--', d['detail'][:600])
        print('   ', json.dumps(d['case'])[:1500])
    for v in r['violations'][:6]:
        print('**', v['oracle'], v['detail'][:600])
        print('   ', json.dumps(v.get('case'))[:1500])
