"""pkg-c07tie - C07 / C14: the builders produce `AssetWF` problems; what `setupSplit` returns is `Assembled` (proof package).

Lean side: `EAO/Lemmas/SplitMappingTie.lean` (namespace `EAO.SplitMappingTie`: the bridge `assetWF_of_builtWf` from `BuiltWf` to
`EAO.C07.AssetWF`, `GridFits`, the passes of the loop of `setupSplit` written as `IntervalIn` - `passInterval`, `splitIntervals` -
and `setupSplit_kept`, `kept_origin`, `kept_facts`, `kept_nodup`, `kept_disjoint`) and `EAO/Properties/C07SplitTie.lean`
(namespace `EAO.C07T`).  No new executable definition is evaluated by the driver: `setupSplit` / `setupPortfolio` are those of
`EAO/Model/SplitBuild.lean` (correspondence: `harness/comp/splitbuild.py`), the joint problem is `splitProblem` of
`EAO/Model/FixSplit.lean` (correspondence: `harness/comp/fixsplit.py`).  This module only carries the theorem list.

What the package closes: `EAO.C07.AssetWF` was a HYPOTHESIS of the C07 / C07S theorems that the harness evaluated on captured asset
problems; for the modelled builders (five contract / transport builders, storage, order book) it is now a Lean theorem, and the seven
C07S theorems hold for the literal `setupSplit` of a builder portfolio without any hypothesis on the interval problems.

Hypotheses that remain (all about the INPUT grid, none about built problems): `GridFits specs ref` - the reference grid is a top-level
grid (`I = 0 .. T-1`, one `dt` per step) and every asset carries one discount factor per step; for statements about steps of different
intervals the cut instants are in increasing order (`cuts.Pairwise (<=)`, what `pd.date_range` returns).
"""

M = 'EAO.Properties.C07SplitTie'

THEOREMS_C07_TIE = [
    (M, 'EAO.C07T.assetWF_of_built',
     'the bridge: BuiltWf name nodes g P (what EAO.C08.built_wf proves: lengths, rows over own variables and of kind U/L, every mapping row a '
     'dispatch row of this asset at one of its nodes and at a step of the restricted grid) gives EAO.C07.AssetWF gridI P for every step list '
     'gridI containing the steps of g'),
    (M, 'EAO.C07T.simple_contract_assetWF',
     'whatever buildSimpleContract returns on a grid with one idx/dt/df per point satisfies EAO.C07.AssetWF on every step list containing the '
     'grid steps, and carries the contract\'s name and nodes'),
    (M, 'EAO.C07T.contract_assetWF',
     'the same for buildContract (take rows included: rows of kind U / L over the contract\'s own variables, none of kind N)'),
    (M, 'EAO.C07T.multi_assetWF',
     'the same for buildMulti (mapping copied once per node with the node factor: every dispatch row sits at one of the contract\'s nodes)'),
    (M, 'EAO.C07T.transport_assetWF',
     'the same for buildTransport (two mapping rows per variable, one at each of the two nodes)'),
    (M, 'EAO.C07T.ext_transport_assetWF',
     'the same for buildExtTransport (take rows on the flow from the first node)'),
    (M, 'EAO.C07T.built_assetWF',
     'all five at once over EAO.C08.BuiltBy: every contract / transport builder output is AssetWF with the builder\'s name and nodes'),
    (M, 'EAO.C07T.storage_assetWF',
     'whatever buildStorage returns (all options, empty window included) is EAO.C07.AssetWF on every step list containing the steps of its '
     'restricted grid (EAO.C05.storage_wf converted field by field)'),
    (M, 'EAO.C07T.orderbook_assetWF',
     'orderBookProblem is EAO.C07.AssetWF on every step list containing the grid steps (from the shape facts of EAO.C20.orderbook_wf: no rows, '
     'one bound pair per order, every mapping row a dispatch row of the book at its node for one of its orders)'),
    (M, 'EAO.C07T.portfolio_assembled',
     'setupPortfolio of a builder portfolio on a fitting grid is assemble of the builders\' outputs, all of them AssetWF on the grid\'s own steps'),
    (M, 'EAO.C07T.mapping_faithful_builders',
     'C07 for the literal set-up of a builder portfolio, no well-formedness hypothesis left: n = sum of asset sizes, all column indices exist, every '
     'mapping row is the shifted row of exactly the asset it names and points into its block, variable offset_i + j has asset i\'s cost and bounds of '
     'j, the nodal record has no duplicates and lists (t, n) iff n is not skipped and has dispatch at t, the N rows are the nodal rows in that order'),
    (M, 'EAO.C07T.setup_split_assembled',
     'every element of what setupSplit returns is relabelNodal (intervalSteps ref ab) (assemble as J.idx skip) for a pair ab of consecutive cuts, J the '
     'interval grid with steps 0 .. |tmp_I|-1 and as the builders\' outputs on J (all AssetWF on J\'s steps); the returned list is, in loop order, the '
     'list of the contributing passes (splitIntervals), each the interval\'s orig problem with the mapping still in LOCAL steps; it is not empty'),
    (M, 'EAO.C07T.split_hyps_builders',
     'the hypotheses of the seven EAO.C07S theorems hold for the passes of a successful setupSplit: every contributing pass is Assembled and '
     'IntervalIn.wf, its rows are over its own variables, its step list has no duplicate; with increasing cuts the step lists are pairwise disjoint'),
    (M, 'EAO.C07T.split_joint_fields_builders',
     'split_joint_fields for the literal split set-up: the joint problem\'s mapping is pd.concat(mappings) (index += len_res, original steps), its rows '
     'the interval rows shifted by the offsets, n = sum of the sizes of the RETURNED problems, one bound pair per variable, offsets = running len_res'),
    (M, 'EAO.C07T.split_block_builders',
     'split_block for the literal split set-up: joint variable offset_k + j has the cost and bounds of variable j of the k-th contributing interval '
     'problem, lies inside the joint vector and in no other block'),
    (M, 'EAO.C07T.split_mapping_faithful_builders',
     'C07 for the literal split set-up of a builder portfolio (increasing cuts): every joint mapping row is the row m\' of exactly one contributing '
     'interval k with var = offset_k + m\'.var and step = tmp_I[m\'.step]; cost and bounds are those of m\'.var in interval problem k; its step is an '
     'original step of interval k and of no other, its variable lies in no other block - no hypothesis on the interval problems left'),
    (M, 'EAO.C07T.split_rows_of_variable_builders',
     'split_rows_of_variable for the literal split set-up: the rows of joint variable offset_k + j are exactly the shifted rows of variable j of '
     'interval problem k, all columns of such a row in block k'),
    (M, 'EAO.C07T.split_nodal_once_builders',
     'split_nodal_once for the literal split set-up (increasing cuts): the joint nodal record IS the concatenation of the nodal records of the returned '
     'problems, has no duplicates, lists (t, n) iff n is not skipped and the joint mapping has dispatch at (n, t), and every entry\'s step belongs to '
     'exactly one contributing interval'),
    (M, 'EAO.C07T.split_nodal_rows_builders',
     'split_nodal_rows for the literal split set-up (increasing cuts): the N rows of the joint problem are, in the order of the joint nodal record, '
     'the nodal rows of the JOINT mapping'),
    (M, 'EAO.C07T.split_skipped_builders',
     'the joint problem / joint mapping of ALL passes of the loop is that of the contributing passes alone; setupSplit returns one problem per '
     'contributing pass and the loop makes one pass per pair of consecutive cuts'),
]
