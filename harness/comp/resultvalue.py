"""pkg-c04robust - C04: the value a result object carries (proof package with a small model, no driver op).

`EAO/Model/ResultValue.lean` models how `OptimProblem.optimize` (cvxpy branch) and `SplitOptimProblem.optimize` fill
`results.value`: the target read through `.lower()` (twice), `Results(value = prob.value)`, the overwrite
`results.value = -sum(x.value * self.c)` for the robust target, `res.value += res_tmp.value` over the intervals.
`EAO/Properties/C04Result.lean` proves that this number is `-c.x` of the problem (hence the sum of the DCF table, C04) for every
target in every letter case, for split problems and for problems made by `make_slp`, and gives the machine-checked
counterexample for "robust value left at the epigraph objective".

The model is evaluated in Lean examples only.  Its tie to the real code is the cross-check below (`selftest`): the defining
equations of the model (`model_result_value`, `model_split_result_value`: the same definitions in Python over `Fraction`) are
evaluated next to the REAL `optimize` on random small problems, with targets in several letter cases and unknown targets:

  * value target:  `res.value` IS the number cvxpy reports (`prob.value`, captured by wrapping `cvxpy.Problem.solve`; `==`),
                   and equals `-c.x` up to the accuracy of the solver,
  * robust target: `res.value` is `-sum(x*c)` recomputed from the returned `x` (`==`, same float expression), equals the exact
                   `-c.x` of the model to 1e-9, and the captured `prob.value` is `min_s -c_s.x` up to the accuracy of the solver,
  * unknown target: `NotImplementedError` exactly where the model has no value,
  * split problems: `res.value == 0 + v_1 + v_2 + ...` (`==`, same order) with the interval values as above; `res.x` is the
                   concatenation,
  * `.lower()`: over ALL code points, no non-ASCII character lowers to a string of letters of 'value' / 'robust' and on ASCII
                   `str.lower` is the letter-wise A-Z map of `lowerWord` - so the two comparisons decide alike on every string.
"""
import contextlib
import random
import traceback
from fractions import Fraction

import numpy as np
import pandas as pd
import scipy.sparse as sp

from ..impl import Quiet

NAME = 'resultvalue'
TOL_EXACT = 1e-9          # float evaluation of -sum(x*c) against exact arithmetic
TOL_SOLVER = 1e-5         # accuracy of the default cvxpy solver (only where the SOLVER's number is compared)

M = 'EAO.Properties.C04Result'

THEOREMS_C04_RESULT = [
    (M, 'EAO.C04R.result_value_is_accounting', 'for every target string (any letter case), problem and point: when the solver\'s number is the objective handed to cvxpy at x (-c.x of the translated problem; min over the samples for the robust target), results.value = -c.x of the problem'),
    (M, 'EAO.C04R.result_value_value_is_objective', 'value target (any letter case): results.value IS prob.value'),
    (M, 'EAO.C04R.result_value_robust_ignores_objective', 'robust target (any letter case): results.value = -c.x whatever the solver reports and whatever the samples'),
    (M, 'EAO.C04R.result_value_defined_iff', 'a result value exists exactly when target.lower() is value or robust; everything else is the NotImplementedError'),
    (M, 'EAO.C04R.result_value_case_insensitive', 'two targets with the same lower-cased word give the same result value on every input'),
    (M, 'EAO.C04R.result_value_lowered', 'the call with target and the call with target.lower() agree (lower-casing is idempotent)'),
    (M, 'EAO.C04R.result_value_is_dcf_sum', 'assembled portfolio problem (C04.WF assets, distinct names): results.value = sum over assets and steps of the DCF table, for both targets in any letter case'),
    (M, 'EAO.C04R.robust_objective_le_result_value', 'robust target with the own cost vector among the samples: the solver\'s number (minimum over the samples) is a lower bound of results.value'),
    (M, 'EAO.C04R.split_result_value_is_sum', 'SplitOptimProblem.optimize: with the solver\'s number attained in every interval the joint value is the sum of the interval values -c_k.x_k'),
    (M, 'EAO.C04R.split_result_value_is_joint', 'the joint value of a split problem is -c.x of the block-diagonal sum at the concatenated solution (c = hstack of the interval costs, x = hstack of the interval solutions)'),
    (M, 'EAO.C04R.split_result_value_is_dcf_sum', 'intervals that are assembled portfolio problems: the joint value is the sum over the intervals of the sums of their DCF tables (setting of C04.value_accounting_split)'),
    (M, 'EAO.C04R.split_result_value_unknown_target', 'split problem with at least one interval and an unknown target: no value (the first interval raises)'),
    (M, 'EAO.C04R.result_value_slp', 'a problem made by make_slp (cost c/(S+1) on future variables and their copies): results.value is the mean over the scenarios of the scenario values of the recombined points'),
    (M, 'EAO.C04R.no_overwrite_correct_iff', 'seeded-change shape: without the overwrite the robust result is the accounting value exactly when the minimum over the samples happens to be -c.x'),
    (M, 'EAO.C04R.no_overwrite_counterexample', 'machine-checked counterexample: one variable, cost 1, bounds [1,2], samples [1],[2]: x = 1 is feasible and optimal for the robust problem, solver number -2, results.value = -1 = -c.x, the variant without the overwrite carries -2'),
]

THEOREMS = THEOREMS_C04_RESULT

W_VALUE = list('value')
W_ROBUST = list('robust')


# ---------------------------------------------------------------------------------------------------------------------
# the model's defining equations (EAO/Model/ResultValue.lean), over Fraction

def char_to_lower(ch):
    """Char.toLower: A-Z plus 32, everything else unchanged"""
    return chr(ord(ch) + 32) if 'A' <= ch <= 'Z' else ch


def lower_word(t):
    return [char_to_lower(ch) for ch in t]


def parse_target(t):
    w = lower_word(t)
    if w == W_VALUE:
        return 'value'
    if w == W_ROBUST:
        return 'robust'
    return None


def dot_xc(c, x):
    acc = Fraction(0)
    for j in range(len(c)):
        acc = acc + Fraction(x[j]) * Fraction(c[j])
    return acc


def model_result_value(t, c, x, objective):
    """`resultValue`: None = NotImplementedError"""
    if parse_target(t) is None:
        return None
    value = Fraction(objective)
    if lower_word(t) == W_ROBUST:
        return -dot_xc(c, x)
    return value


def model_split_result_value(t, ivs):
    """`splitResultValue`: ivs = [(c, x, objective)]"""
    acc = Fraction(0)
    for c, x, o in ivs:
        v = model_result_value(t, c, x, o)
        if v is None:
            return None
        acc = acc + v
    return acc


def model_robust_objective(samples, x):
    vals = [-dot_xc(cs, x) for cs in samples]
    return min(vals) if vals else None


# ---------------------------------------------------------------------------------------------------------------------
# generator

def _dy(rnd, lo, hi):
    return rnd.randint(lo * 8, hi * 8) / 8.0


def spell(rnd, word):
    k = rnd.choice(['lower', 'upper', 'capital', 'mixed', 'mixed'])
    if k == 'lower':
        return word
    if k == 'upper':
        return word.upper()
    if k == 'capital':
        return word.capitalize()
    return ''.join(ch.upper() if rnd.random() < 0.5 else ch for ch in word)


BAD_TARGETS = ['', 'values', ' value', 'robust ', 'robus', 'Wert', 'valué', 'VALUE\n', 'ro bust', 'Kalue', 'robuſt']


def gen_problem(rnd):
    n = rnd.randint(1, 5)
    l = [_dy(rnd, -2, 0) for _ in range(n)]
    u = [l[j] + rnd.choice([0, 0.5, 1, 2, 3]) for j in range(n)]
    x0 = [l[j] + (u[j] - l[j]) * rnd.choice([0, 0.25, 0.5, 1]) for j in range(n)]
    c = [_dy(rnd, -4, 4) for _ in range(n)]
    rows = []
    for _ in range(rnd.choice([0, 0, 1, 2, 3])):
        coef = [rnd.choice([0, 0, 1, -1, 0.5, 2]) for _ in range(n)]
        if not any(coef):
            coef[rnd.randrange(n)] = 1.0
        ax = sum(a * v for a, v in zip(coef, x0))
        kind = rnd.choice('ULSN')
        slack = rnd.choice([0, 0.5, 1])
        b = ax + slack if kind == 'U' else ax - slack if kind == 'L' else ax
        rows.append({'coef': coef, 'b': b, 'kind': kind})
    return {'c': c, 'l': l, 'u': u, 'rows': rows}


def gen_case(rnd, malformed=False):
    split = rnd.random() < 0.3
    probs = [gen_problem(rnd) for _ in range(rnd.randint(1, 3) if split else 1)]
    if malformed:
        return {'split': split, 'probs': probs, 'target': rnd.choice(BAD_TARGETS), 'samples': None}
    robust = rnd.random() < 0.5
    if split and robust:
        # the same samples go to every interval: give every interval the same number of variables
        n = len(probs[0]['c'])
        probs = [p for p in probs if len(p['c']) == n]
    samples = None
    if robust:
        n = len(probs[0]['c'])
        samples = [[_dy(rnd, -4, 4) for _ in range(n)] for _ in range(rnd.randint(1, 3))]
        if rnd.random() < 0.4:
            samples.insert(rnd.randrange(len(samples) + 1), list(probs[0]['c']))
    elif rnd.random() < 0.15 and not split:
        samples = [[_dy(rnd, -4, 4) for _ in range(len(probs[0]['c']))]]     # ignored by the value target
    return {'split': split, 'probs': probs, 'target': spell(rnd, 'robust' if robust else 'value'), 'samples': samples}


# ---------------------------------------------------------------------------------------------------------------------
# the real code

def _optim_problem(p, offset=0):
    from eaopack.optimization import OptimProblem
    n = len(p['c'])
    mapping = pd.DataFrame({'asset': ['a'] * n, 'node': ['n'] * n, 'type': ['d'] * n, 'time_step': list(range(n))},
                           index=list(range(n)))
    A = b = cType = None
    if p['rows']:
        A = sp.lil_matrix(np.array([r['coef'] for r in p['rows']], dtype=float))
        b = np.array([r['b'] for r in p['rows']], dtype=float)
        cType = ''.join(r['kind'] for r in p['rows'])
    return OptimProblem(c=np.array(p['c'], dtype=float), l=np.array(p['l'], dtype=float), u=np.array(p['u'], dtype=float),
                            A=A, b=b, cType=cType, mapping=mapping)


@contextlib.contextmanager
def capture_solver_values(store):
    """record what every `cvxpy.Problem.solve` returns (= `prob.value`)"""
    import cvxpy as CVX
    orig = CVX.Problem.solve

    def solve(self, *a, **k):
        r = orig(self, *a, **k)
        store.append(self.value)
        return r
    CVX.Problem.solve = solve
    try:
        yield
    finally:
        CVX.Problem.solve = orig


def run_impl(case):
    """{'value', 'x', 'solver_values', 'error', 'status'}"""
    from eaopack.optimization import SplitOptimProblem
    out = {'value': None, 'x': None, 'solver_values': [], 'error': None, 'status': None}
    ops = [_optim_problem(p) for p in case['probs']]
    kw = {}
    if case['samples'] is not None:
        kw['samples'] = [np.array(s, dtype=float) for s in case['samples']]
    try:
        with Quiet(), capture_solver_values(out['solver_values']):
            if case['split']:
                frames = []
                off = 0
                for op in ops:
                    m = op.mapping.copy()
                    m.index = m.index + off
                    off += len(op.c)
                    frames.append(m)
                prob = SplitOptimProblem(ops, pd.concat(frames))
            else:
                prob = ops[0]
            res = prob.optimize(target=case['target'], **kw)
        if isinstance(res, str):
            out['status'] = res
        else:
            out['value'] = res.value
            out['x'] = np.asarray(res.x, dtype=float)
    except NotImplementedError:
        out['error'] = 'NotImplementedError'
    except Exception as e:                                   # anything else is reported as it is
        out['error'] = type(e).__name__
    return out


def _close(a, b, tol):
    return abs(float(a) - float(b)) <= tol * max(1.0, abs(float(a)), abs(float(b)))


def oracle(case, r):
    """the model's defining equations and the theorems' statements on the real result"""
    viol = []

    def bad(name, detail, **facts):
        viol.append({'oracle': name, 'detail': detail, 'facts': facts})

    t = case['target']
    tg = parse_target(t)
    py_known = t.lower() in ('value', 'robust')
    if py_known != (tg is not None):
        bad('lower_word', 'str.lower and lowerWord decide differently on %r' % t)
    if tg is None:
        if r['error'] != 'NotImplementedError':
            bad('result_value_defined_iff', 'unknown target %r: error %r, value %r' % (t, r['error'], r['value']))
        if model_split_result_value(t, [(p['c'], [0] * len(p['c']), 0) for p in case['probs']]) is not None:
            bad('model', 'model has a value for unknown target %r' % t)
        return viol
    if r['error'] is not None:
        bad('result_value_defined_iff', 'target %r: optimize raises %s' % (t, r['error']))
        return viol
    if r['status'] is not None:
        return viol                                           # 'inaccurate' / 'not successful': not modelled
    if len(r['solver_values']) != len(case['probs']):
        bad('capture', '%d solves for %d problems' % (len(r['solver_values']), len(case['probs'])))
        return viol
    x = r['x']
    ns = [len(p['c']) for p in case['probs']]
    if len(x) != sum(ns):
        bad('split_result_value_is_joint', 'len(x) = %d, variables %d' % (len(x), sum(ns)))
        return viol
    ivs, off = [], 0
    float_sum = 0
    for p, n, o in zip(case['probs'], ns, r['solver_values']):
        xk = x[off:off + n]
        off += n
        ivs.append((p['c'], [Fraction(float(v)) for v in xk], Fraction(float(o))))
        ck = np.array(p['c'], dtype=float)
        vk = -sum(xk * ck) if tg == 'robust' else o           # the code's expression / the solver's number
        float_sum = float_sum + vk if case['split'] else vk
        exact = -dot_xc(p['c'], ivs[-1][1])
        if tg == 'value' and not _close(o, exact, TOL_SOLVER):
            bad('result_value_is_accounting', 'value target: prob.value %r vs -c.x %r' % (o, float(exact)))
        if tg == 'robust':
            mo = model_robust_objective(case['samples'], ivs[-1][1])
            if not _close(o, mo, TOL_SOLVER):
                bad('robust_epigraph', 'robust target: prob.value %r vs min over samples %r' % (o, float(mo)))
            if list(p['c']) in [list(s) for s in case['samples']] and float(o) > float(exact) + TOL_SOLVER * max(1, abs(float(exact))):
                bad('robust_objective_le_result_value', 'own cost among the samples: prob.value %r > -c.x %r' % (o, float(exact)))
    if case['split']:
        float_sum = 0 + float_sum
    # (1) the code's own float expression, exactly
    if not (r['value'] == float_sum):
        bad('result_value_float', 'res.value %r vs recomputed %r (target %r, split %r)' % (r['value'], float_sum, t, case['split']))
    # (2) the model's defining equations over Fraction
    mv = model_split_result_value(t, ivs) if case['split'] else model_result_value(t, *ivs[0])
    if mv is None or not _close(r['value'], mv, TOL_EXACT):
        bad('model', 'res.value %r vs model %r' % (r['value'], None if mv is None else float(mv)))
    if tg == 'value' and not case['split'] and Fraction(float(r['value'])) != mv:
        bad('result_value_value_is_objective', 'value target: res.value %r is not prob.value %r' % (r['value'], float(mv)))
    # (3) the theorem: the value is -c.x of the (joint) problem at the (joint) solution
    cj = [v for p in case['probs'] for v in p['c']]
    exact_joint = -dot_xc(cj, [Fraction(float(v)) for v in x])
    if not _close(r['value'], exact_joint, TOL_EXACT if tg == 'robust' else TOL_SOLVER):
        bad('result_value_is_accounting', 'res.value %r vs -c.x %r (target %r)' % (r['value'], float(exact_joint), t))
    return viol


def check_lower():
    """`str.lower` against `lowerWord` as far as the two words are concerned, over all code points"""
    letters = set('valuerobst')
    out = []
    for cp in range(0x110000):
        if 0xD800 <= cp <= 0xDFFF:
            continue
        ch = chr(cp)
        lo = ch.lower()
        if cp < 128:
            if lo != char_to_lower(ch):
                out.append('ascii %r lowers to %r' % (ch, lo))
        elif lo and all(k in letters for k in lo):
            out.append('non-ascii U+%04X lowers to %r' % (cp, lo))
    return out


def request(case):
    return None                                              # no driver op: the model is evaluated in Lean examples


def compare(case, r, model_result=None, req=None):
    return []


def selftest(n, seed, drv=None, verbose=False):
    rnd = random.Random(seed)
    counts = {'cases': 0, 'value': 0, 'robust': 0, 'unknown_target': 0, 'split': 0, 'solved': 0, 'not_solved': 0,
              'letter_cases': 0, 'harness_errors': 0}
    dis, viol = [], []
    spellings = set()
    for d in check_lower():
        viol.append({'oracle': 'lower_word', 'detail': d, 'facts': {}})
    for i in range(n):
        case = gen_case(random.Random(rnd.getrandbits(48)), malformed=(i % 6 == 5))
        try:
            r = run_impl(case)
            counts['cases'] += 1
            tg = parse_target(case['target'])
            counts['unknown_target' if tg is None else tg] += 1
            counts['split'] += int(case['split'])
            counts['solved'] += int(r['value'] is not None)
            counts['not_solved'] += int(r['status'] is not None)
            spellings.add(case['target'])
            for v in oracle(case, r):
                v['case'] = case
                viol.append(v)
                if verbose:
                    print('VIOLATION', i, v['oracle'], v['detail'])
        except Exception as e:
            counts['harness_errors'] += 1
            dis.append({'case': case, 'detail': 'harness error %s: %s' % (type(e).__name__, traceback.format_exc()[-600:])})
    counts['letter_cases'] = len(spellings)
    return {'counts': counts, 'disagreements': dis, 'violations': viol}
