"""Correspondence and oracles for LinkedAsset (portfolio.py) - model `EAO.Model.Linked`, driver op `linked`.

Correspondence: the Lean model `buildLinked` is applied to the problem CAPTURED from the real `StructuredAsset.setup_optim_problem`
of the linked asset (the class method is wrapped while the set-up runs; `T = timegrid.restricted.T` is read at the moment the structured
set-up returns, i.e. when the linking loop starts) and compared with what the real `LinkedAsset.setup_optim_problem` returned: bounds,
rows in ORDER, mapping, error class.  Second route: the model composes `structured` (from the captured problems of the wrapped assets)
with `buildLinked` and must give the same.

Two streams of cases (a case is a plain JSON value):
  kind 'real'       a small portfolio around a LinkedAsset: asset 2 = plant / CHP with on-variables (or a contract, variable `disp`), asset 1
                    = plant / contract / contract at an internal node behind a transport / storage / the same asset; variables `disp`,
                    `bool_on`, `bool_start`, `disp_in`..., nodes given by name, as None (internal variables), wrong on purpose; durations
                    0..3 steps (whole, fractional, negative); `asset2_time_already_running` as number or attribute name; windows on the linked
                    asset, on all wrapped assets, on one of them (finding F-09e); link given by names or by objects.
  kind 'synthetic'  the structured set-up is REPLACED by a generated problem (random mapping with several rows per look-up, missing steps,
                    labels outside the variable range, `A` None or of another width, negative / zero bounds): exercises the numpy / scipy
                    assignment rules of the loop (broadcast, pairing, overwriting, error classes) on the real loop code.

Oracles on the real code alone (kind 'real', set-up without error):
  (a) `linked_forces`   the optimum of the portfolio satisfies `v1_t <= u1_t * v2_{t+i}` (u1 = bound of the structured problem) for all
                        (t, i) inside the horizon, and `v1_t <= 0` where `t + i < -already_running` for some i
  (b) `linked_relaxes`  value(linked) <= value(same portfolio wrapped as plain StructuredAsset); equal when the structured optimum happens to
                        satisfy the linking conditions (the 'conversely' half of `linked_meaning`)
  (c) `unit_steps`      the three durations re-expressed in another main time unit convert to the same numbers of steps
"""
import copy
import json
import os
import random
import subprocess
import sys
from fractions import Fraction

import numpy as np
import pandas as pd
import scipy.sparse as sp

sys.path.insert(0, os.environ.get('EAO_REPO', '/repo'))
import eaopack as eao  # noqa: E402
from eaopack.portfolio import Portfolio, StructuredAsset, LinkedAsset  # noqa: E402
from eaopack.optimization import OptimProblem  # noqa: E402
from pandas.tseries.frequencies import to_offset  # noqa: E402

from .. import gen, scen, impl, pf  # noqa: E402
from ..impl import Quiet, problem_json, err_class  # noqa: E402
from ..lean import fs, LEAN_DIR  # noqa: E402


# ------------------------------------------------------------------ drivers
class ScratchDriver:
    """a line-protocol driver run through the Lean interpreter from a scratch Main (development only)"""

    def __init__(self, main='/tmp/pkg-linked/Main.lean'):
        self.p = subprocess.Popen(['lake', 'env', 'lean', '--run', main], cwd=LEAN_DIR, stdin=subprocess.PIPE,
                                  stdout=subprocess.PIPE, text=True, bufsize=1)

    def ask(self, req):
        self.p.stdin.write(json.dumps(req) + '\n')
        self.p.stdin.flush()
        line = self.p.stdout.readline()
        if not line:
            raise RuntimeError('driver died on request op=%s' % req.get('op'))
        return json.loads(line)

    def close(self):
        try:
            self.p.stdin.close()
            self.p.wait(timeout=5)
        except Exception:
            self.p.kill()


def _ok(drv, req):
    r = drv.ask(req)
    if 'ok' not in r:
        raise RuntimeError('driver error: %s' % r.get('err'))
    return r['ok']


class _Shim:
    def __init__(self, assets):
        self.assets = assets


# ------------------------------------------------------------------ time units
def to_td(freq):
    """eaopack.assets.convert_time_unit.to_td"""
    try:
        td = pd.to_timedelta(to_offset(freq))
    except ValueError:
        td = pd.Timedelta(1, freq)
    return td.as_unit('ns')


def seconds_of(freq):
    v = int(to_td(freq).value)
    if v % 10 ** 9:
        raise ValueError('frequency %r is not a whole number of seconds' % (freq,))
    return v // 10 ** 9


def dur_fraction(v, unit):
    """the duration as pandas sees it: `value * Timedelta(unit)` is cut to whole nanoseconds (not part of the model)"""
    td = to_td(unit)
    return Fraction(int((v * td).value), int(td.value))


# ------------------------------------------------------------------ generator: real objects
LINK_NAME = 'lk'


def _plant(rnd, g, prices, T, name, fuel, force_on=True):
    chp = rnd.random() < 0.5
    nn = (['N1', 'N2'] if chp else ['N1']) + (['N3'] if fuel and rnd.random() < 0.6 else [])
    a = gen.gen_plant(rnd, g, prices, T, name, nn, chp=chp, allow_mip=True)
    if a['type'] == 'CHPAsset_with_min_load_costs' and rnd.random() < 0.7:
        a['type'] = 'CHPAsset'
        a['args'].pop('min_load_threshhold', None)
        a['args'].pop('min_load_costs', None)
    if force_on:
        a['args'].setdefault('min_cap', gen.q8(rnd, 0.5, 2))
    return a


def _steps_value(rnd, g, lo=0, hi=3):
    """a duration in main time units that converts to k steps: whole steps, a fraction below (ceil), rarely negative / non-dyadic"""
    k = rnd.randint(lo, hi)
    q = Fraction(g['step_s'], seconds_of(g.get('unit', 'h')))
    r = rnd.random()
    if r < 0.6:
        v = k * q
    elif r < 0.8:
        v = (k - Fraction(rnd.choice([1, 2, 3]), 4)) * q if k > 0 else Fraction(0)
    elif r < 0.9:
        v = Fraction(rnd.choice([1, 3, 5, 7, 10, 12]), 8)
    elif r < 0.95:
        v = -rnd.randint(1, 2) * q
    else:
        v = Fraction(rnd.choice([3, 7, 13]), 10)
    f = float(v)
    if f.is_integer() and rnd.random() < 0.5:
        return int(f)
    return f


def gen_real_case(rnd, tmax=8):
    g = gen.gen_grid(rnd, tmin=2, tmax=tmax, tz_prob=0.05)
    T = scen.make_grid(g).T
    prices = {}
    fuel = rnd.random() < 0.35
    nodes = ['N1', 'N2'] + (['N3'] if fuel else [])
    outer = [{'type': 'SimpleContract', 'name': 'mkt1', 'nodes': ['N1'],
              'args': {'min_cap': -40.0, 'max_cap': 40.0, 'price': gen.price_key(rnd, prices, T, lo=0, hi=20), 'extra_costs': gen.q8(rnd, 0.125, 2)}},
             {'type': 'SimpleContract', 'name': 'heat3', 'nodes': ['N2'], 'args': {'min_cap': -40.0, 'max_cap': 0.0}}]
    if rnd.random() < 0.5:
        d = gen.q8(rnd, 1, 4)
        outer.append({'type': 'SimpleContract', 'name': 'dem2', 'nodes': ['N1'], 'args': {'min_cap': -d, 'max_cap': -d}})
    if fuel:
        outer.append({'type': 'SimpleContract', 'name': 'fuel4', 'nodes': ['N3'],
                      'args': {'min_cap': 0.0, 'max_cap': 60.0, 'price': gen.price_key(rnd, prices, T, lo=0, hi=6)}})
    ext = list(nodes)
    # ---- asset 2 and its variable
    k2 = rnd.choice(['plant', 'plant', 'plant', 'plant', 'contract'])
    if k2 == 'plant':
        a2 = _plant(rnd, g, prices, T, 'lk_a', fuel)
        v2 = rnd.choice(['bool_on', 'bool_on', 'bool_on', 'bool_start']) if 'start_costs' in a2['args'] else rnd.choice(['bool_on'] * 7 + ['bool_start'])
        link2 = ['lk_a', v2, None]
        if rnd.random() < 0.06:
            link2 = ['lk_a', 'disp', 'N1']          # a non-boolean second variable
    else:
        a2 = {'type': 'SimpleContract', 'name': 'lk_a', 'nodes': ['N1'],
              'args': {'min_cap': 0.0, 'max_cap': 1.0, 'price': gen.price_key(rnd, prices, T, lo=0, hi=10)}}
        link2 = ['lk_a', 'disp', 'N1']
    inner = [a2]
    # ---- asset 1 and its variable
    k1 = rnd.choice(['plant', 'plant', 'simple', 'simple', 'simple_internal', 'storage', 'same', 'chp_fuel', 'two_var'])
    if k1 == 'plant':
        a1 = _plant(rnd, g, prices, T, 'lk_b', fuel, force_on=rnd.random() < 0.7)
        link1 = ['lk_b', 'disp', 'N1'] if rnd.random() < 0.7 else ['lk_b', 'bool_on', None]
        if len(a1['nodes']) >= 2 and a1['type'] != 'Plant' and rnd.random() < 0.2:
            link1 = ['lk_b', 'disp', 'N2']          # the heat variable
    elif k1 == 'simple':
        a1 = {'type': 'SimpleContract', 'name': 'lk_b', 'nodes': ['N1'],
              'args': {'min_cap': 0.0, 'max_cap': gen.q8(rnd, 1, 6), 'price': gen.price_key(rnd, prices, T, lo=0, hi=10)}}
        link1 = ['lk_b', 'disp', 'N1']
    elif k1 == 'simple_internal':
        nodes.append('lk_i')
        a1 = {'type': 'SimpleContract', 'name': 'lk_b', 'nodes': ['lk_i'],
              'args': {'min_cap': 0.0, 'max_cap': gen.q8(rnd, 1, 6), 'price': gen.price_key(rnd, prices, T, lo=0, hi=10)}}
        inner.append({'type': 'Transport', 'name': 'lk_t', 'nodes': ['lk_i', 'N1'],
                      'args': {'min_cap': 0.0, 'max_cap': gen.q8(rnd, 1, 6), 'efficiency': rnd.choice([1.0, 0.75, 0.5])}})
        link1 = ['lk_b', 'disp', 'lk_i']
    elif k1 == 'storage':
        a1 = gen.gen_storage(rnd, g, prices, T, 'lk_b', ['N1'], False, False)
        link1 = ['lk_b', rnd.choice(['disp', 'disp_in', 'disp_out']), 'N1']
    elif k1 == 'two_var':
        a1 = {'type': 'SimpleContract', 'name': 'lk_b', 'nodes': ['N1'],
              'args': {'min_cap': -gen.q8(rnd, 1, 4), 'max_cap': gen.q8(rnd, 1, 6), 'price': gen.price_key(rnd, prices, T, lo=0, hi=10),
                       'extra_costs': gen.q8(rnd, 0.125, 1)}}
        link1 = ['lk_b', rnd.choice(['disp_in', 'disp_out']), 'N1']
    elif k1 == 'chp_fuel' and fuel:
        a1 = gen.gen_plant(rnd, g, prices, T, 'lk_b', ['N1', 'N2', 'N3'], chp=True, allow_mip=True)
        link1 = ['lk_b', 'disp', rnd.choice(['N3', 'N3', 'N1'])]     # at the fuel node: power and heat variable (two labels)
    else:  # the link inside asset 2
        a1 = None
        if a2['type'] == 'SimpleContract':
            link1 = ['lk_a', 'disp', 'N1']
        else:
            link1 = rnd.choice([['lk_a', 'disp', 'N1'], ['lk_a', 'disp', 'N1'], ['lk_a', 'bool_on', None], ['lk_a', 'bool_start', None]])
    if a1 is not None:
        inner.insert(rnd.randint(0, len(inner)), a1)
    if rnd.random() < 0.3:   # a wrapped asset that takes no part in the link
        inner.insert(rnd.randint(0, len(inner)), gen.gen_simple_contract(rnd, g, prices, T, 'lk_c', rnd.choice(['N1', 'N2']), allow_opts=False))
    # ---- external nodes of the linked asset
    ext = [n for n in ext if n in set(x for a in inner for x in a['nodes'])] or ['N1']
    if rnd.random() < 0.15 and 'N2' in ext and len(ext) > 1:
        ext.remove('N2')       # heat node hidden inside: its variables sit at lk_internal_N2
    largs = {'asset1_variable': link1, 'asset2_variable': link2,
             'time_back': _steps_value(rnd, g), 'time_forward': _steps_value(rnd, g, 0, 2) if rnd.random() < 0.6 else 0}
    r = rnd.random()
    if r < 0.45:
        largs['asset2_time_already_running'] = _steps_value(rnd, g)
    elif r < 0.55:
        largs['asset2_time_already_running'] = rnd.choice(['time_already_running', 'time_already_off', 'no_such_attribute'])
    # ---- malformed links
    r = rnd.random()
    bad = None
    if r < 0.03:
        largs['asset1_variable'] = [link1[0], 'no_such_var', link1[2]]
        bad = 'var1'
    elif r < 0.06:
        largs['asset2_variable'] = [link2[0], 'bool_shutdown', link2[2]]
        bad = 'var2'
    elif r < 0.09:
        largs['asset1_variable'] = [link1[0], link1[1], None if link1[2] is not None else 'N1']
        bad = 'node1'
    elif r < 0.11:
        largs['asset2_variable'] = [link2[0], link2[1], 'N2' if link2[2] != 'N2' else None]
        bad = 'node2'
    linked = {'type': 'LinkedAsset', 'name': LINK_NAME, 'nodes': ext, 'inner': inner, 'args': largs}
    # ---- windows
    wk = rnd.choice(['none'] * 6 + ['linked', 'linked', 'inner', 'inner', 'one', 'one'])
    if wk in ('linked', 'inner'):
        kinds = ['end_only', 'end_only', 'end_only', 'straddle_start', 'equal', 'covering', 'start_only', 'inside', 'after', 'offgrid']
        w = gen.window(rnd, g, kinds=kinds)
        for tgt in ([linked] if wk == 'linked' else inner):
            gen.put_window(tgt['args'], w)
        wk += ':' + w[0]
    elif wk == 'one':
        tgt = rnd.choice(inner)
        side = rnd.choice(['start', 'end', 'end'])
        pt = gen.P(g, rnd.randint(1, max(1, g['T_nominal'] - 1)))
        if gen.ok_local(pt, g):
            tgt['args'][side] = gen.dtv(pt)
        wk += ':%s:%s' % (tgt['name'], side)
    assets = list(outer)
    assets.insert(rnd.randint(0, len(assets)), linked)
    s = {'grid': g, 'nodes': nodes, 'prices': prices, 'assets': assets}
    return {'kind': 'real', 'scn': s, 'target': LINK_NAME, 'refs': rnd.choice(['names', 'names', 'objects']),
            'info': {'asset1': k1, 'asset2': k2, 'window': wk, 'bad': bad}}


# ------------------------------------------------------------------ generator: synthetic structured problems
SYN_NAMES = ['x__A', 'x__A', 'x__A', 'y__B', 'y__B', 'y__B', 'z__A', 'nan', 'x__B']


def gen_synthetic_case(rnd):
    T = rnd.randint(1, 4)
    n = rnd.randint(2, 8)
    ext = ['N1'] if rnd.random() < 0.7 else ['N1', 'M']
    node1 = rnd.choice(['N1', 'N1', None, 'M'])
    node2 = rnd.choice([None, None, 'N1', 'M'])
    same = rnd.random() < 0.1
    link1 = ['A', 'x', node1]
    link2 = ['A', 'x', node1] if same else ['B', 'y', node2]

    def nm(nd):
        return None if nd is None else (nd if nd in ext else LINK_NAME + '_internal_' + nd)
    mode = rnd.choice(['clean', 'clean', 'clean', 'multi', 'multi', 'wild'])
    rows = []
    free = list(range(n))
    rnd.shuffle(free)
    if mode in ('clean', 'multi'):
        # one variable per (name, step) as far as the variables last, then extra rows
        for (vn, nd) in ((link1[1] + '__' + link1[0], nm(link1[2])), (link2[1] + '__' + link2[0], nm(link2[2]))):
            for t in range(T):
                if rnd.random() < 0.04:
                    continue                      # a step without the variable
                j = free.pop() if free and rnd.random() < 0.9 else rnd.randrange(n)
                rows.append({'var': j, 'var_name': vn, 'step': t, 'node': nd})
    n_extra = {'clean': rnd.randint(0, 3), 'multi': rnd.randint(1, 5), 'wild': rnd.randint(2, 12)}[mode]
    for _ in range(n_extra):
        if mode == 'multi' and rows and rnd.random() < 0.7:
            r0 = dict(rnd.choice(rows))
            r0['var'] = rnd.randrange(n)           # a second label for the same look-up
            rows.append(r0)
        else:
            rows.append({'var': rnd.randrange(n), 'var_name': rnd.choice(SYN_NAMES), 'step': rnd.randint(0, T),
                         'node': rnd.choice([None, 'N1', nm('M'), 'N2'])})
    if rnd.random() < 0.1:
        rows.append({'var': n + rnd.randint(0, 1), 'var_name': rnd.choice(SYN_NAMES[:6]), 'step': rnd.randrange(T), 'node': rnd.choice([nm(node1), nm(node2)])})
    rnd.shuffle(rows)
    for r0 in rows:
        r0['bool'] = rnd.random() < 0.4
        r0['kind'] = rnd.choice(['d', 'i'])
    r = rnd.random()
    acols = None if r < 0.05 else (n if r < 0.9 else n + rnd.choice([-1, -1, -2, 1]))
    if acols is not None:
        acols = max(1, acols)
    m = rnd.randint(0, 3)
    A = [[gen.q8(rnd, -2, 2) if rnd.random() < 0.4 else 0.0 for _ in range(acols or 0)] for _ in range(m)] if acols is not None else None
    fake = {'c': [gen.q8(rnd, -2, 2) for _ in range(n)], 'l': [rnd.choice([0.0, 0.0, 0.0, -1.0, 0.5]) for _ in range(n)],
            'u': [rnd.choice([0.0, 1.0, 1.0, 2.5, 3.0, -1.0, 4.0, 0.125]) for _ in range(n)],
            'A': A, 'acols': acols, 'b': [gen.q8(rnd, -2, 2) for _ in range(m)] if A is not None else None,
            'cType': ''.join(rnd.choice('ULS') for _ in range(m)) if A is not None else None, 'mapping': rows,
            'drop_var_name': mode == 'wild' and rnd.random() < 0.1}
    largs = {'asset1_variable': link1, 'asset2_variable': link2, 'time_back': rnd.choice([0, 0, 1, 1, 2, 3, -1, 0.5, 1.5]),
             'time_forward': rnd.choice([0, 0, 0, 1, 2, -1, -2, 0.25]), 'asset2_time_already_running': rnd.choice([0, 0, 1, 2, 3, -1, -2, 0.5])}
    g = {'start': '2021-01-01T00:00:00', 'end': gen.iso(pd.Timestamp('2021-01-01') + T * gen.H), 'freq': 'h', 'unit': 'h', 'tz': None,
         'T_nominal': T, 'step_s': 3600}
    gen.fix_grid(g)
    inner = [{'type': 'SimpleContract', 'name': 'A', 'nodes': ['N1'], 'args': {'min_cap': 0.0, 'max_cap': 1.0}},
             {'type': 'SimpleContract', 'name': 'B', 'nodes': ['N1'], 'args': {'min_cap': 0.0, 'max_cap': 1.0}}]
    linked = {'type': 'LinkedAsset', 'name': LINK_NAME, 'nodes': ext, 'inner': inner, 'args': largs}
    s = {'grid': g, 'nodes': ['N1', 'M'], 'prices': {}, 'assets': [linked]}
    return {'kind': 'synthetic', 'scn': s, 'target': LINK_NAME, 'refs': 'names', 'fake': fake, 'info': {'mode': mode}}


def corner_cases():
    """hand-made structured problems for the corners of the numpy / scipy assignment rules (name -> case)"""
    def mk(rows, n, acols, T=1, largs=None):
        g = {'start': '2021-01-01T00:00:00', 'end': gen.iso(pd.Timestamp('2021-01-01') + T * gen.H), 'freq': 'h', 'unit': 'h', 'tz': None,
             'T_nominal': T, 'step_s': 3600}
        gen.fix_grid(g)
        args = dict({'asset1_variable': ['A', 'x', 'N1'], 'asset2_variable': ['B', 'y', None], 'time_back': 0, 'time_forward': 0,
                     'asset2_time_already_running': 0}, **(largs or {}))
        inner = [{'type': 'SimpleContract', 'name': 'A', 'nodes': ['N1'], 'args': {'min_cap': 0.0, 'max_cap': 1.0}},
                 {'type': 'SimpleContract', 'name': 'B', 'nodes': ['N1'], 'args': {'min_cap': 0.0, 'max_cap': 1.0}}]
        rows = [dict({'bool': False, 'kind': 'd'}, **r) for r in rows]
        fake = {'c': [0.0] * n, 'l': [0.0] * n, 'u': [float(j + 1) for j in range(n)], 'A': [] if acols is not None else None, 'acols': acols,
                'b': [] if acols is not None else None, 'cType': '' if acols is not None else None, 'mapping': rows, 'drop_var_name': False}
        s = {'grid': g, 'nodes': ['N1', 'M'], 'prices': {}, 'assets': [{'type': 'LinkedAsset', 'name': LINK_NAME, 'nodes': ['N1'], 'inner': inner, 'args': args}]}
        return {'kind': 'synthetic', 'scn': s, 'target': LINK_NAME, 'refs': 'names', 'fake': fake, 'info': {'mode': 'corner'}}

    def X(v, t=0):
        return {'var': v, 'var_name': 'x__A', 'step': t, 'node': 'N1'}

    def Y(v, t=0):
        return {'var': v, 'var_name': 'y__B', 'step': t, 'node': None}
    return {
        'two labels for v1, one for v2 outside the matrix (shape before range: value)': mk([X(1), X(2), Y(4)], 5, 4),
        'two and two labels, one outside the matrix (index)': mk([X(1), X(2), Y(4), Y(0)], 5, 4),
        'v1 outside the matrix (index)': mk([X(4), Y(0)], 5, 4),
        'v1 outside the bound vector, zeroing (index)': mk([X(6), Y(0)], 5, 8, largs={'time_back': 1}),
        'v1 outside the bound vector, row (index)': mk([X(6), Y(0)], 5, 8),
        'v2 outside the matrix (index)': mk([X(1), Y(4)], 5, 4),
        'no matrix, no row due': mk([X(1), Y(0)], 3, None, largs={'time_back': -1}),
        'no matrix, row due (attribute)': mk([X(1), Y(0)], 3, None),
        'v1 and v2 the same variable (overwritten coefficient)': mk([X(1), {'var': 1, 'var_name': 'y__B', 'step': 0, 'node': None}], 3, 3),
        'v2 found twice with the same label': mk([X(1), Y(2), Y(2)], 3, 3),
        'v1 found twice with the same label, v2 two labels (paired)': mk([X(1), X(1), Y(2), Y(0)], 3, 3),
        'one label for v1, two for v2 (broadcast)': mk([X(1), Y(2), Y(0)], 3, 3),
        'two steps, zeroing then rows with the updated bound': mk([X(0), X(1, 1), Y(2), Y(3, 1)], 4, 4, T=2, largs={'time_back': 1, 'time_forward': 1}),
        'one variable at two steps (coarse variable 1)': mk([X(0), X(0, 1), Y(2), Y(3, 1)], 4, 4, T=2, largs={'time_back': 1}),
    }


def gen_case(rnd, tmax=8):
    if rnd.random() < 0.8:
        return gen_real_case(rnd, tmax)
    return gen_synthetic_case(rnd)


# ------------------------------------------------------------------ running the implementation
def fake_problem(fake, name):
    """the generated structured problem as an OptimProblem (mapping as the structured set-up leaves it)"""
    rows = fake['mapping']
    mp = pd.DataFrame({'time_step': [r['step'] for r in rows], 'var_name': [np.nan if r['var_name'] == 'nan' else r['var_name'] for r in rows],
                       'asset': [name] * len(rows), 'node': [np.nan if r['node'] is None else r['node'] for r in rows],
                       'type': [r['kind'] for r in rows], 'bool': [r['bool'] for r in rows]},
                      index=[r['var'] for r in rows])
    if len(rows) == 0:
        mp = pd.DataFrame(columns=['time_step', 'var_name', 'asset', 'node', 'type', 'bool'])
    if fake.get('drop_var_name'):
        mp = mp.drop(columns=['var_name'])
    A = None
    if fake['acols'] is not None:
        A = sp.lil_matrix((len(fake['A']), fake['acols']))
        for i, row in enumerate(fake['A']):
            for j, v in enumerate(row):
                if v != 0:
                    A[i, j] = v
    return OptimProblem(c=np.asarray(fake['c'], dtype=float), l=np.asarray(fake['l'], dtype=float), u=np.asarray(fake['u'], dtype=float),
                        A=A, b=None if fake['b'] is None else np.asarray(fake['b'], dtype=float), cType=fake['cType'], mapping=mp)


class CaptureStructured:
    """wraps `StructuredAsset.setup_optim_problem` (class level, what `super()` of the linked asset finds) for ONE object: keeps a copy of
    what the structured set-up returned and the `T` the linking loop is going to use; `fake`: the problem to return instead"""

    def __init__(self, obj, fake=None):
        self.obj, self.fake, self.caught = obj, fake, []

    def __enter__(self):
        self.orig = StructuredAsset.__dict__['setup_optim_problem']
        orig, me = self.orig, self

        def wrapped(obj, prices, timegrid=None, costs_only=False):
            if obj is not me.obj:
                return orig(obj, prices, timegrid, costs_only)
            if me.fake is not None:
                if timegrid is not None:
                    obj.set_timegrid(timegrid)
                op = fake_problem(me.fake, obj.name)
                if costs_only:
                    return op.c
            else:
                op = orig(obj, prices, timegrid, costs_only)
            if not costs_only:
                me.caught.append({'op': copy.deepcopy(op), 'T': int(obj.timegrid.restricted.T), 'I': [int(i) for i in obj.timegrid.restricted.I]})
            return op
        StructuredAsset.setup_optim_problem = wrapped
        return self

    def __exit__(self, *exc):
        StructuredAsset.setup_optim_problem = self.orig
        return False


def build(scn, refs='names'):
    """scen.build with the link of a LinkedAsset given by names or by the Asset / Node objects"""
    tg = scen.make_grid(scn['grid'])
    nodes = scen.make_nodes(scn['nodes'])
    assets = []
    for spc in scn['assets']:
        if spc['type'] != 'LinkedAsset':
            assets.append(scen.build_asset(spc, nodes))
            continue
        inner = [scen.build_asset(x, nodes) for x in spc['inner']]
        args = scen.dec(copy.deepcopy(spc['args']))
        by = {x.name: x for x in inner}
        for k in ('asset1_variable', 'asset2_variable'):
            a, v, n = args[k]
            if refs == 'objects':
                args[k] = (by.get(a, a), v, nodes[n] if n is not None else None)
            else:
                args[k] = (a, v, n)
        assets.append(LinkedAsset(portfolio=Portfolio(inner), name=spc['name'], nodes=[nodes[n] for n in spc['nodes']], **args))
    prices = {k: np.asarray(v, dtype=float) for k, v in scn.get('prices', {}).items()}
    return Portfolio(assets), tg, prices, nodes


def _target(portf, name):
    for a in portf.assets:
        if a.name == name:
            return a
    raise KeyError(name)


def run_impl(case):
    """runs the real code; returns a dict with the captured problems and / or 'error' (class) and 'stage'"""
    scn = case['scn']
    out = {'kind': case['kind']}
    try:
        with Quiet():
            portf, tg, prices, nodes = build(scn, case.get('refs', 'names'))
    except Exception as e:
        out.update(error=err_class(e), stage='ctor', message=str(e)[:200])
        return out
    lk = _target(portf, case['target'])
    inner_assets = list(lk.portfolio.assets)
    out.update({'portf': portf, 'tg': tg, 'prices': prices, 'asset': lk})
    with Quiet(), CaptureStructured(lk, case.get('fake')) as cs, impl.Capture(portf) as cap, impl.Capture(_Shim(inner_assets)) as cap_in:
        try:
            out['op'] = portf.setup_optim_problem(prices, tg)
        except Exception as e:
            out.update(error=err_class(e), stage='setup', message='%s: %s' % (type(e).__name__, str(e)[:200]))
    out['structured'] = cs.caught[-1] if cs.caught else None
    if out['structured'] is None and 'error' in out:
        out['stage'] = 'structured'      # the structured set-up (or a wrapped asset) failed: not the linking loop's business
    out['inner'] = [(a, cap_in.caught[a.name][-1]) for a in inner_assets if a.name in cap_in.caught]
    if lk.name in cap.caught:
        out['wrapped'] = cap.caught[lk.name][-1]
    elif 'error' not in out:
        out.update(error='no-capture', stage='setup')
    # the converted durations, by the real conversion (the grid is still the linked asset's)
    if out['structured'] is not None:
        try:
            with Quiet():
                out['steps'] = [int(lk.convert_to_timegrid_freq(v, 'x')) for v in (lk.time_back, lk.time_forward, lk.asset2_time_already_running)]
        except Exception as e:
            out['steps_error'] = err_class(e)
    return out


def _asset_json(a, op):
    return problem_json(op, name=a.name, nodes=[n.name for n in a.nodes])


def link_json(case, lk, tg):
    spec = [s for s in case['scn']['assets'] if s['name'] == case['target']][0]
    a1, v1, n1 = spec['args']['asset1_variable']
    a2, v2, n2 = spec['args']['asset2_variable']
    unit = tg.main_time_unit
    return {'asset1': lk.asset1.name, 'var1': lk.variable1_name, 'node1': n1, 'asset2': lk.asset2.name, 'var2': lk.variable2_name, 'node2': n2,
            'time_back': fs(dur_fraction(lk.time_back, unit)), 'time_forward': fs(dur_fraction(lk.time_forward, unit)),
            'already_running': fs(dur_fraction(lk.asset2_time_already_running, unit))}


def request(case, impl_result, route='base'):
    """JSON request for the driver from the captured problems (None when the structured stage was not reached).
    route 'base': the captured structured problem;  route 'inner': the captured problems of the wrapped assets (model builds the structure)"""
    st = impl_result.get('structured')
    lk = impl_result.get('asset')
    if st is None or lk is None:
        return None
    tg = impl_result['tg']
    sop = st['op']
    req = {'op': 'linked', 'name': lk.name, 'ext': [n.name for n in lk.nodes], 'link': link_json(case, lk, tg),
           'unit_s': seconds_of(tg.main_time_unit), 'step_s': seconds_of(tg.freq), 'T': st['T'],
           'acols': None if sop.A is None else int(sop.A.shape[1])}
    if route == 'base':
        req['base'] = _asset_json(lk, sop)
        return req
    if case['kind'] != 'real' or len(impl_result['inner']) != len(lk.portfolio.assets):
        return None
    req['inner'] = [_asset_json(x, op) for x, op in impl_result['inner']]
    req['gridI'] = [int(i) for i in tg.I]
    return req


def compare(case, impl_result, model_result, tag='linked'):
    """list of disagreement strings"""
    dis = []
    if model_result is None:
        return dis
    merr = model_result.get('error')
    ierr = impl_result.get('error')
    if 'steps' in impl_result and model_result.get('steps') != impl_result['steps']:
        dis.append('%s: converted durations %s (model) vs %s (impl)' % (tag, model_result.get('steps'), impl_result['steps']))
    wrapped = impl_result.get('wrapped')
    if wrapped is None:
        if merr is None:
            dis.append('%s: impl raised %r (%s) but model built a problem' % (tag, ierr, impl_result.get('message')))
        elif merr != ierr:
            dis.append('%s: error class %r (impl: %s) vs %r (model)' % (tag, ierr, impl_result.get('message'), merr))
        return dis
    if merr is not None:
        dis.append('%s: model error %r but impl built a problem' % (tag, merr))
        return dis
    lk = impl_result['asset']
    implj = problem_json(wrapped)
    mj = model_result['problem']
    dis += pf.cmp_problem(tag, mj, implj, 0, aspects=('c', 'l', 'u', 'mapping'))
    d = pf.cmp_rows(tag + '.rows', mj['rows'], implj['rows'], 0, ordered=True)
    if d:
        dis.append(d)
    if mj.get('nodes') != [n.name for n in lk.nodes] or mj.get('name') != lk.name:
        dis.append('%s: name / nodes %s %s vs %s %s' % (tag, mj.get('name'), mj.get('nodes'), lk.name, [n.name for n in lk.nodes]))
    if wrapped.A is not None and wrapped.A.shape[1] != len(wrapped.c) and case['kind'] == 'real':
        dis.append('%s: A has %d columns for %d variables' % (tag, wrapped.A.shape[1], len(wrapped.c)))
    if wrapped.A is not None and (wrapped.A.shape[0] != len(wrapped.cType) or wrapped.A.shape[0] != len(wrapped.b)):
        dis.append('%s: %d rows, %d type letters, %d right-hand sides' % (tag, wrapped.A.shape[0], len(wrapped.cType), len(wrapped.b)))
    return dis


def run_corr(case, drv):
    ir = run_impl(case)
    dis, mr = [], None
    for route in ('base', 'inner'):
        req = request(case, ir, route)
        if req is None:
            continue
        m = _ok(drv, req)
        if route == 'base':
            mr = m
        dis += compare(case, ir, m, tag='linked' if route == 'base' else 'linked(structured model)')
    return ir, mr, dis


# ------------------------------------------------------------------ oracles
def _violation(oracle, detail, **facts):
    return {'oracle': oracle, 'detail': detail, 'facts': facts}


def _lookup(mp, name, vn, nd, t):
    cond = (mp['asset'] == name) & (mp['var_name'] == vn) & (mp['time_step'] == t)
    cond = cond & (mp['node'] == nd if nd is not None else mp['node'].isnull())
    return [int(i) for i in mp.index[cond]]


def link_conditions(lk, mp, u, x, T, steps, tol=1e-6):
    """violations of `v1_t <= u1_t * v2_{t+i}` / `v1_t <= 0` by the point x; mp / u: mapping and upper bounds in which the variables of the linked
    asset are looked up (portfolio level); returns (list of texts, number of conditions checked, number that were binding candidates)"""
    tb, tf, ar = steps
    vn1 = lk.variable1_name + '__' + lk.asset1.name
    vn2 = lk.variable2_name + '__' + lk.asset2.name
    bad, n = [], 0
    for t in range(T):
        I1 = _lookup(mp, lk.name, vn1, lk.node1_name, t)
        if len(I1) != 1:
            return None, 0
        a = I1[0]
        for i in range(-tb, tf + 1):
            if i + t < -ar:
                n += 1
                if x[a] > tol:
                    bad.append('step %d, offset %d: asset 2 not running long enough but v1 = %.6g' % (t, i, x[a]))
                continue
            if i + t < 0 or i + t >= T:
                continue
            I2 = _lookup(mp, lk.name, vn2, lk.node2, i + t)
            if len(I2) != 1:
                return None, 0
            if I2[0] == a:
                continue      # a variable linked to itself: the second assignment overwrites the first (finding L-1 of pkg-linked; Lean witness EAO.Linked.Ex.self_link_no_restriction)
            n += 1
            if x[a] > u[a] * x[I2[0]] + tol * max(1.0, abs(u[a])):
                bad.append('step %d, offset %d: v1 = %.6g > u1 * v2 = %.6g * %.6g' % (t, i, x[a], u[a], x[I2[0]]))
    return bad, n


def _as_structured(scn, target):
    s = copy.deepcopy(scn)
    for a in s['assets']:
        if a['name'] == target:
            a['type'] = 'StructuredAsset'
            a['args'] = {k: v for k, v in a['args'].items() if k in ('start', 'end', 'wacc')}
    return s


def oracle(case, impl_result=None, seed=0):
    """oracles (a), (b), (c) on the real code; returns (violations, stats)"""
    viol, stats = [], {'forces': 0, 'relaxes': 0, 'relax_equal': 0, 'unit': 0, 'skipped': None}
    if case['kind'] != 'real':
        stats['skipped'] = 'synthetic'
        return viol, stats
    ir = impl_result if impl_result is not None else run_impl(case)
    if ir.get('error') or ir.get('structured') is None or 'steps' not in ir:
        stats['skipped'] = 'error:%s' % ir.get('error')
        return viol, stats
    lk, op, T, steps = ir['asset'], ir['op'], ir['structured']['T'], ir['steps']
    facts = dict(case.get('info', {}), steps=steps, T=T)
    # (c) unit change of the three durations
    tg = ir['tg']
    for unit2 in ('h', 'd', 'min'):
        if unit2 == tg.main_time_unit:
            continue
        k = Fraction(seconds_of(tg.main_time_unit), seconds_of(unit2))
        vals = [lk.time_back, lk.time_forward, lk.asset2_time_already_running]
        resc = [float(Fraction(v) * k) for v in vals]
        if any(Fraction(r) != Fraction(v) * k for r, v in zip(resc, vals)):
            continue            # the rescaled value is not a float: rounding of the INPUT, not of the conversion
        g2 = dict(case['scn']['grid'], unit=unit2)
        tg2 = scen.make_grid(g2)
        dummy = eao.assets.SimpleContract(name='dummy', nodes=eao.Node('N1'))
        dummy.set_timegrid(tg2)
        with Quiet():
            got = [int(dummy.convert_to_timegrid_freq(r, 'x')) for r in resc]
        stats['unit'] += 1
        if got != steps:
            viol.append(_violation('unit_steps', 'durations %s in %r convert to %s steps, rescaled to %r (%s) to %s' % (
                vals, tg.main_time_unit, steps, unit2, resc, got), what='unit', **facts))
    # (a) the optimum satisfies the linking conditions
    try:
        res = impl.solve(op)
    except Exception as e:
        stats['skipped'] = 'solve:' + err_class(e)
        return viol, stats
    if isinstance(res, str):
        stats['skipped'] = 'status:' + res
        return viol, stats
    sj = ir['structured']['op']
    # upper bounds of the STRUCTURED problem at portfolio positions: offset of the linked asset's block
    off = 0
    for a in ir['portf'].assets:
        if a is lk:
            break
        off += len(impl_result_sizes(ir)[a.name])
    u = np.array(op.u, dtype=float).copy()
    u[off:off + len(sj.u)] = sj.u
    bad, n = link_conditions(lk, op.mapping, u, res.x, T, steps)
    if bad is None:
        stats['skipped'] = 'look-up not unique'
        return viol, stats
    stats['forces'] = n
    for b in bad[:3]:
        viol.append(_violation('linked_forces', b, what='forces', **facts))
    # (b) the linked problem is the structured one plus conditions
    try:
        s2 = _as_structured(case['scn'], case['target'])
        with Quiet():
            p2, tg2, pr2, _ = scen.build(s2)
            op2 = p2.setup_optim_problem(pr2, tg2)
        res2 = impl.solve(op2)
    except Exception as e:
        stats['skipped'] = 'structured:' + err_class(e)
        return viol, stats
    if isinstance(res2, str):
        viol.append(_violation('linked_relaxes', 'linked portfolio solved, structured portfolio %s' % res2, what='status', **facts))
        return viol, stats
    stats['relaxes'] = 1
    v1, v2 = float(res.value), float(res2.value)
    tol = 1e-5 * max(1.0, abs(v1), abs(v2))
    if v1 > v2 + tol:
        viol.append(_violation('linked_relaxes', 'value %.8g with the link above %.8g without' % (v1, v2), what='value', **facts))
    if len(op2.c) == len(op.c):
        bad2, _ = link_conditions(lk, op.mapping, u, res2.x, T, steps)
        if bad2 == []:
            stats['relax_equal'] = 1
            if abs(v1 - v2) > tol:
                viol.append(_violation('linked_relaxes', 'the structured optimum (%.8g) satisfies the linking conditions but the linked value is %.8g' % (v2, v1),
                                       what='converse', **facts))
            w, what = pf.feasibility_violation(op, res2.x)
            if w > 1e-5:
                viol.append(_violation('linked_relaxes', 'the structured optimum satisfies the linking conditions but violates %s of the linked problem by %.3g' % (what, w),
                                       what='converse-feasible', **facts))
    return viol, stats


def impl_result_sizes(ir):
    """name -> cost vector of every outer asset (a second, captured set-up on the same objects)"""
    if '_sizes' not in ir:
        with Quiet(), impl.Capture(ir['portf']) as cap:
            ir['portf'].setup_optim_problem(ir['prices'], ir['tg'])
        ir['_sizes'] = {k: v[-1].c for k, v in cap.caught.items()}
    return ir['_sizes']


# ------------------------------------------------------------------ theorems
THEOREMS_LINKED = [
    ('EAO.Properties.Linked', 'EAO.Linked.linked_wf', 'a successful linked set-up keeps name, nodes, costs, number of variables, lower bounds, mapping, the number of upper bounds and the rows of the structured problem (as a prefix); every new row is of type U with right-hand side 0 and mentions only columns of the matrix (< acols) that are labels of a mapping row of variable 1 or variable 2 (right name and node) at a step < T'),
    ('EAO.Properties.Linked', 'EAO.Linked.linked_rows_lt_n', 'when the matrix has one column per variable every new row mentions existing variables only (< n)'),
    ('EAO.Properties.Linked', 'EAO.Linked.linked_meaning', 'unique look-ups a_t, b_s (different variables), 0 <= l(a_t), 0 <= u(a_t), x(b_s) in {0,1}: x is feasible (bounds and rows) for the linked problem iff it is feasible for the structured problem and for every step t < T and offset i in [-time_back, time_forward]: x(a_t) = 0 if t + i < -already_running, else x(a_t) > 0 -> x(b_{t+i}) = 1 whenever 0 <= t + i < T'),
    ('EAO.Properties.Linked', 'EAO.Linked.linked_forces', 'the direction used in practice, without hypotheses on the bounds of the structured problem: a feasible point of the linked problem with x(b_s) in {0,1} and x(a_t) >= 0 has x(a_t) > 0 -> x(b_{t+i}) = 1 inside the horizon and x(a_t) = 0 where asset 2 has not been running long enough'),
    ('EAO.Properties.Linked', 'EAO.Linked.linked_ok', 'with unique look-ups inside the column range and the bound vector the set-up succeeds (no error class)'),
    ('EAO.Properties.Linked', 'EAO.Linked.linked_unit_change', 'C12: the three durations enter only through ceil(duration * unit / step): re-expressed in another main time unit (durations times k, unit length divided by k) the resolved link, hence the linked problem or error, is the same; the conversion is the one of the CHP model (convertSteps = toNat of it, invariant under the same change)'),
    ('EAO.Properties.Linked', 'EAO.Linked.linked_window', 'C08: the mapping is the structured one; an upper bound that changed belongs to a variable with a mapping row of variable 1 at a step < T, every column of a new row to a variable with a mapping row at a step < T, both inside any step set W holding all mapping steps of the structured problem; a variable without mapping row at a step < T keeps its bound and occurs in no new row'),
    ('EAO.Properties.Linked', 'EAO.Linked.linked_costs_only', 'costs_only returns the cost vector of the structured problem, which is also the cost vector of the linked problem'),
    ('EAO.Properties.Linked', 'EAO.Linked.Ex.self_link_no_restriction', 'witness (finding L-1): a variable linked to itself at offset 0 gets the row -u x <= 0, which x = u = 1/2 satisfies although x > u x'),
    ('EAO.Properties.Linked', 'EAO.Linked.Ex.late_start_index_error', 'witness: variables living at absolute steps 1, 2 with T = 2 are not found by the loop counter t = 0: error class index'),
    ('EAO.Properties.Linked', 'EAO.Linked.Ex.several_labels', 'witness: two labels for variable 1 and one for variable 2 is a ValueError; one label for variable 1 and two for variable 2 broadcasts the coefficient'),
    ('EAO.Properties.Linked', 'EAO.Linked.Ex.no_matrix', 'witness: a structured problem without matrix raises AttributeError as soon as a row is due, and nothing when T = 0'),
]
ID = 'LINKED'
THEOREMS = THEOREMS_LINKED
COMPONENTS = ['buildLinked on the captured real structured problem vs LinkedAsset.setup_optim_problem',
              'structured + buildLinked on the captured wrapped problems vs LinkedAsset.setup_optim_problem',
              'buildLinked on generated structured problems vs the real linking loop (structured set-up replaced)']


def scenarios(seed, tier):
    n = 400 if tier == 'quick' else 2500
    rnd = random.Random(seed * 15485863 + 77)
    for i in range(n):
        yield 'gen%d' % i, gen_case(random.Random(rnd.getrandbits(48)), tmax=6 if tier == 'quick' else 9)


def run_case(case, drv, with_oracle=True):
    r = {'evaluated': 1, 'nontrivial': False, 'features': [case['kind']] + ['%s:%s' % kv for kv in sorted(case.get('info', {}).items())],
         'disagreements': [], 'violations': []}
    ir, mr, dis = run_corr(case, drv)
    r['disagreements'] = [{'component': 'linked', 'detail': d} for d in dis]
    if ir.get('error'):
        r['features'].append('impl-error:%s:%s' % (ir.get('stage'), ir['error']))
    r['nontrivial'] = mr is not None and not mr.get('error') and len(mr['problem']['rows']) > 0
    if with_oracle and case['kind'] == 'real' and not ir.get('error'):
        v, st = oracle(case, ir)
        r['violations'] = v
        r['observed'] = st
    return r


# ------------------------------------------------------------------ self test
def selftest(n, seed, drv, oracles=0, verbose=False):
    rnd = random.Random(seed)
    counts = {'cases': 0, 'real': 0, 'synthetic': 0, 'compared': 0, 'compared_structured_route': 0, 'impl_errors': {}, 'model_errors': {}, 'new_rows': 0,
              'zeroed_bounds': 0, 'with_new_rows': 0, 'oracle_cases': 0, 'oracle_violations': 0, 'oracle_stats': {}, 'features': {}}
    disagreements, violations = [], []
    counts['corner_cases'] = 0
    for name, case in corner_cases().items():
        counts['corner_cases'] += 1
        ir, mr, dis = run_corr(case, drv)
        if mr is None:
            dis = dis + ['corner case not compared']
        for d in dis:
            disagreements.append({'case': name, 'detail': d, 'scenario': case})
            if verbose:
                print('DISAGREE', name, d)
    for i in range(n):
        case = gen_case(random.Random(rnd.getrandbits(48)))
        counts['cases'] += 1
        counts[case['kind']] += 1
        ir, mr, dis = run_corr(case, drv)
        if mr is not None:
            counts['compared'] += 1
            if request(case, ir, 'inner') is not None:
                counts['compared_structured_route'] += 1
            if mr.get('error'):
                counts['model_errors'][mr['error']] = counts['model_errors'].get(mr['error'], 0) + 1
            else:
                st = ir['structured']['op']
                k = len(mr['problem']['rows']) - (0 if st.A is None else st.A.shape[0])
                counts['new_rows'] += k
                counts['with_new_rows'] += int(k > 0)
                counts['zeroed_bounds'] += sum(1 for a, b in zip(mr['problem']['u'], st.u) if Fraction(a) != Fraction(float(b)))
        if ir.get('error'):
            k = '%s:%s:%s' % (case['kind'], ir.get('stage'), ir['error'])
            counts['impl_errors'][k] = counts['impl_errors'].get(k, 0) + 1
        for kv in case.get('info', {}).items():
            f = '%s:%s' % kv
            counts['features'][f] = counts['features'].get(f, 0) + 1
        for d in dis:
            disagreements.append({'case': i, 'detail': d, 'scenario': case})
            if verbose:
                print('DISAGREE', i, case['kind'], case.get('info'), d)
        if counts['oracle_cases'] < oracles and case['kind'] == 'real' and not ir.get('error'):
            v, st = oracle(case, ir, seed=i)
            counts['oracle_cases'] += 1
            counts['oracle_violations'] += len(v)
            for k, x in st.items():
                if isinstance(x, int):
                    counts['oracle_stats'][k] = counts['oracle_stats'].get(k, 0) + x
                elif x is not None:
                    kk = 'skipped:' + str(x)
                    counts['oracle_stats'][kk] = counts['oracle_stats'].get(kk, 0) + 1
            for x in v:
                violations.append({'case': i, 'scenario': case, **x})
                if verbose:
                    print('VIOLATION', i, x['oracle'], x['detail'], x['facts'])
    return {'counts': counts, 'disagreements': disagreements, 'violations': violations}


if __name__ == '__main__':
    import argparse
    ap = argparse.ArgumentParser()
    ap.add_argument('-n', type=int, default=100)
    ap.add_argument('--seed', type=int, default=1)
    ap.add_argument('--oracles', type=int, default=0)
    ap.add_argument('--scratch', default=None, help='scratch Main.lean to interpret instead of the compiled driver')
    a = ap.parse_args()
    if a.scratch:
        drv = ScratchDriver(a.scratch)
    else:
        from ..lean import Driver
        drv = Driver()
    r = selftest(a.n, a.seed, drv, oracles=a.oracles, verbose=True)
    print(json.dumps(r['counts'], indent=1))
    print('disagreements:', len(r['disagreements']), 'violations:', len(r['violations']))
    drv.close()
