"""C05 reporting theorems (package pkg-c05read): the storage columns of `io.extract_output` inside a portfolio.

Lean side: `EAO/Properties/C05Readout.lean` (namespace `EAO.C05R`), helper lemmas `EAO/Lemmas/StorageReadout.lean`.
No new model definition: the theorems are about the existing read-out models `chargeOut`, `dischargeOut`, `fillInc`,
`fillLevel` (`EAO/Model/Storage.lean`) applied to the mapping of `assemble` (`EAO/Model/Assemble.lean`), so the existing
driver op `storage_readout` (see `harness/comp/storage.py`) is the correspondence.  This module lists the theorems and
adds an executable cross-check aimed at exactly what the theorems say:

* a storage case of `comp.storage.gen_case` (no malformed input) is put into a portfolio at ALL THREE positions (first,
  middle, last) together with additional foreign assets at its nodes (market contracts, sometimes a second storage of
  another name), sometimes with an end level outside `[0, size]` (accepted by the constructor);
* correspondence: for every position the model (`storage_readout` on the portfolio mapping and solution) against the
  three columns of the real `extract_output` and against `Storage.fill_level`;
* oracles on the real code alone (instances of the theorems):
    `readout.true`        charge = -x_in, discharge = -x_out (one variable: max(0,-x), min(0,-x)) read from the storage's own
                          variables, zero outside its window                         (charge_discharge_true / _reported)
    `readout.consistent`  fill level = start + running sum of eff*charge + discharge + inflow*dt      (reported_columns_consistent)
    `readout.position`    the solution found with the storage FIRST, carried over variable by variable to the portfolio with
                          the storage LAST (and MIDDLE), gives identical columns       (readout_position_independent)
    `readout.end_level`   level at the last step of the window >= end_level (all options), = end_level without a maximum
                          holding duration; hence > size when end_level > size  (end_level_lower / end_level_forced /
                          end_above_size_overfills / reported_level_above_size)
"""
import copy
import random
from fractions import Fraction

import numpy as np

import eaopack as eao
from .. import scen
from ..impl import Quiet, err_class, mapping_rows
from ..lean import fs
from ..pf import feq
from .common import grid_json, instant
from . import storage as st

NAME = 'storageread'
TOL = 1e-9
ORDERS = ('first', 'middle', 'last')

M = 'EAO.Properties.C05Readout'
THEOREMS_C05_READOUT = [
    (M, 'EAO.C05R.foreign_of_names',
     'unique asset names plus "every asset writes its own name into its mapping rows" give the only hypothesis the embedded theorems make about the other assets (none of their rows carries the storage\'s name)'),
    (M, 'EAO.C05R.readout_embedded',
     'for every asset problem at any position of the asset list, every x and every step: charge, discharge, fill-level increment and fill level evaluated on the PORTFOLIO mapping equal the same read-outs on the asset\'s own mapping and own slice x(off + .) of the solution'),
    (M, 'EAO.C05R.readout_position_independent',
     'F-05c situation: two portfolios containing the same storage at any two positions with any other assets, two solutions that agree on the storage\'s variables: charge, discharge and fill level agree at every step of the horizon'),
    (M, 'EAO.C05R.readout_first_vs_last',
     'instance: storage first in the asset list versus storage last'),
    (M, 'EAO.C05R.charge_discharge_reported',
     'for all x: at the full-grid step of window position t the columns show the sums of max(0,-x) resp. min(0,-x) over the dispatch variables of that position of the storage\'s slice; at steps outside the window both are 0'),
    (M, 'EAO.C05R.charge_discharge_true',
     'charge_discharge_true for the embedded mapping: with x_in <= 0 <= x_out charge = -x_in,t and discharge = -x_out,t; one-variable form (all x): max(0,-x_t), min(0,-x_t), sum -x_t, one of them 0; always 0 <= charge, discharge <= 0'),
    (M, 'EAO.C05R.sign_of_portfolio_bounds',
     'the sign condition x_in <= 0 <= x_out on the storage\'s slice follows from the bounds of the portfolio problem'),
    (M, 'EAO.C05R.charge_discharge_true_feasible',
     'the same for every x within the bounds of the portfolio problem, plus 0 <= charge <= cap_in*dt_t and -cap_out*dt_t <= discharge <= 0 (constructor guards, dt_t >= 0)'),
    (M, 'EAO.C05R.fill_level_reported_embedded',
     'for all x the fill-level column on the portfolio mapping at the step of window position t is the level computed from max(0,-x)*eff + min(0,-x) per variable of the storage\'s slice plus inflow'),
    (M, 'EAO.C05R.fill_level_true_embedded',
     'fill_level_true for the embedded mapping: with x_in <= 0 <= x_out (one variable: all x) the fill-level column equals the physical level of the storage\'s slice'),
    (M, 'EAO.C05R.fill_level_true_embedded_feasible',
     'the same for every x within the bounds of the portfolio problem'),
    (M, 'EAO.C05R.reported_columns_consistent',
     'for all x the fill-level column is start level + running sum over the window of eff_in*charge + discharge + inflow*dt with charge / discharge the two other columns'),
    (M, 'EAO.C05R.end_level_forced',
     'without a maximum holding duration and for ANY end level: every x satisfying the rows has physical level = end_level at the last step of the window and of every time block'),
    (M, 'EAO.C05R.end_level_lower',
     'with every option and any end level: end_level <= level at the last step of the window and of every time block'),
    (M, 'EAO.C05R.end_above_size_overfills',
     'end_level > size (accepted by the constructor): every x satisfying the rows has a level above size at the last step of the window and of every block'),
    (M, 'EAO.C05R.level_bounds_iff_end_in_range',
     'without a maximum holding duration, for a feasible x on a non-empty window: the level stays within [0, size] at every step IF AND ONLY IF 0 <= end_level <= size (the hypothesis of storage_level_bounds is necessary)'),
    (M, 'EAO.C05R.reported_level_above_size',
     'for a storage with end_level > size inside any portfolio every relaxed-feasible point of the portfolio problem makes the fill-level column exceed size at the last step of the window'),
    (M, 'EAO.C05R.end_above_size_witness',
     'kernel-checked witness: size 2, empty start, end_level 3 passes the guards and the set-up; charging 2 then 1 is feasible with levels 2, 3'),
    (M, 'EAO.C05R.end_below_zero_witness',
     'kernel-checked witness: end_level -1 passes as well; idle then discharging 1 from the empty storage is feasible, level -1'),
]


# ------------------------------------------------------------------ generator
def gen_case(rnd, mip_prob=0.15):
    case = st.gen_case(rnd, mip_prob=mip_prob, malformed_prob=0.0)
    case = copy.deepcopy(case)
    a = case['args']
    T = case['grid']['T_nominal']
    size = a['size']
    # end level outside [0, size]: not checked by the constructor
    r = rnd.random()
    case['end_mode'] = 'in'
    if r < 0.2:
        a['end_level'] = size + rnd.randint(1, 8) / 8.0
        case['end_mode'] = 'above'
    elif r < 0.27:
        a['end_level'] = -rnd.randint(1, 8) / 8.0
        case['end_mode'] = 'below'
    # additional foreign assets at the storage's nodes
    extra = []
    for i in range(rnd.randint(0, 2)):
        key = 'x_%d' % i
        case['prices'][key] = [rnd.randint(-8, 160) / 8.0 for _ in range(T)]
        extra.append({'kind': 'contract', 'name': 'extra_%d' % i, 'node': rnd.choice(case['nodes'][:2]), 'price': key,
                      'cap': rnd.randint(1, 16) / 8.0})
    if rnd.random() < 0.3:
        # a second storage with another name at the same node: its rows are of type 'd' at the storage's node as well
        extra.append({'kind': 'storage', 'name': 'other', 'node': case['nodes'][0], 'size': rnd.randint(1, 16) / 8.0,
                      'cap': rnd.randint(1, 8) / 8.0, 'eff': rnd.choice([1.0, 0.5])})
    case['extra'] = extra
    case.pop('order', None)
    case['features'] = list(case.get('features', [])) + ['end:' + case['end_mode'], 'extra:%d' % len(extra)]
    return case


def _assets(case, nodes, args, nn):
    a = eao.assets.Storage(name=case['name'], nodes=nn[0] if len(nn) == 1 else nn, **args)
    others = [eao.assets.SimpleContract(name='mkt_' + n, nodes=nodes[n], price=m['price'], min_cap=-m['cap'], max_cap=m['cap'])
              for n, m in case['market'].items()]
    for e in case['extra']:
        if e['kind'] == 'contract':
            others.append(eao.assets.SimpleContract(name=e['name'], nodes=nodes[e['node']], price=e['price'],
                                                    min_cap=-e['cap'], max_cap=e['cap']))
        else:
            others.append(eao.assets.Storage(name=e['name'], nodes=nodes[e['node']], size=e['size'], cap_in=e['cap'],
                                             cap_out=e['cap'], eff_in=e['eff']))
    return a, others


def _ordered(a, others, order):
    k = {'first': 0, 'middle': (len(others) + 1) // 2, 'last': len(others)}[order]
    return others[:k] + [a] + others[k:]


def _columns(out, nm):
    iv = out['internal_variables']
    return {k: [float(v) for v in iv[nm + '_' + k].values] for k in ('fill_level', 'charge', 'discharge')}


def run_impl(case):
    """the storage at all three positions of the asset list; returns the record used by request / compare / oracle"""
    tg, nodes, args, nn, prices = st._objects(case)
    tz = case['grid'].get('tz')
    rec = {'T': int(tg.T), 'tz': tz, 'runs': {}}
    with Quiet():
        tg.set_wacc(args.get('wacc', 0.))
        tg.set_restricted_grid(args.get('start'), args.get('end'), None)
    restr = tg.restricted
    rec['grid'] = grid_json(restr, tz)
    rec['I'] = [int(i) for i in restr.I]
    rec['dt_r'] = [float(v) for v in restr.dt]
    rec['aa'] = None
    if args.get('block_size') is not None and restr.T > 0:
        try:
            rec['aa'] = st.block_starts(restr, args['block_size'])
        except Exception as e:
            rec['status'] = 'blocks:' + err_class(e)
            return rec
    is_mip = bool(args.get('no_simult_in_out')) or args.get('max_store_duration') is not None
    keep = {}
    for order in ORDERS:
        try:
            with Quiet():
                a, others = _assets(case, nodes, args, nn)
                portf = eao.portfolio.Portfolio(_ordered(a, others, order))
                op = portf.setup_optim_problem(prices, tg)
                res = op.optimize(solver='SCIPY') if is_mip else op.optimize()
            if isinstance(res, str):
                rec['runs'][order] = {'status': res}
                continue
            with Quiet():
                out = eao.io.extract_output(portf, op, res, prices)
                flm = [float(v) for v in a.fill_level(op, res)]
            run = {'status': 'ok', 'x': [float(v) for v in res.x], 'mapping': mapping_rows(op.mapping),
                   'fill_level_method': flm, 'assets': [b.name for b in portf.assets]}
            run.update(_columns(out, case['name']))
            rec['runs'][order] = run
            keep[order] = (portf, op, a)
        except Exception as e:
            rec['runs'][order] = {'status': 'error:' + err_class(e) + ':' + str(e)[:160]}
    # carry the solution of 'first' over to the other positions, variable by variable
    f = rec['runs'].get('first', {})
    if f.get('status') == 'ok':
        # variables are identified by (asset, position of the variable inside the asset's block)
        first_of = {}
        for m in f['mapping']:
            first_of.setdefault(m['asset'], []).append(m['var'])
        blocks_f = {k: sorted(set(v)) for k, v in first_of.items()}
        for order in ('middle', 'last'):
            r = rec['runs'].get(order, {})
            if r.get('status') != 'ok' or order not in keep:
                continue
            bl = {}
            for m in r['mapping']:
                bl.setdefault(m['asset'], []).append(m['var'])
            bl = {k: sorted(set(v)) for k, v in bl.items()}
            if any(len(bl.get(k, [])) != len(v) for k, v in blocks_f.items()) or len(r['x']) != len(f['x']):
                r['moved'] = {'status': 'layout differs'}
                continue
            x2 = np.zeros(len(r['x']))
            for k, v in blocks_f.items():
                for i_src, i_dst in zip(v, bl[k]):
                    x2[i_dst] = f['x'][i_src]
            portf, op, a = keep[order]
            try:
                with Quiet():
                    out = eao.io.extract_output(portf, op, eao.optimization.Results(value=0., x=x2, duals=None), prices)
                mv = {'status': 'ok', 'x': [float(v) for v in x2]}
                mv.update(_columns(out, case['name']))
                r['moved'] = mv
            except Exception as e:
                r['moved'] = {'status': 'error:' + err_class(e) + ':' + str(e)[:160]}
    rec['status'] = 'ok'
    return rec


# ------------------------------------------------------------------ model requests, comparison
def request(case, rec):
    """one `storage_readout` request per solved position (and per carried-over solution)"""
    reqs = []
    pj = st.params_json(case, rec['aa'])
    for order in ORDERS:
        r = rec['runs'].get(order, {})
        if r.get('status') != 'ok':
            continue
        reqs.append((order, {'op': 'storage_readout', 'params': pj, 'grid': rec['grid'], 'T': rec['T'],
                             'mapping': r['mapping'], 'x': [fs(v) for v in r['x']]}))
        mv = r.get('moved')
        if mv and mv.get('status') == 'ok':
            reqs.append((order + '/moved', {'op': 'storage_readout', 'params': pj, 'grid': rec['grid'], 'T': rec['T'],
                                            'mapping': r['mapping'], 'x': [fs(v) for v in mv['x']]}))
    return reqs


def compare(case, rec, models):
    """models: {tag: answer of storage_readout}"""
    out = []
    for tag, model in models.items():
        order = tag.split('/')[0]
        r = rec['runs'][order]
        p = r['moved'] if tag.endswith('/moved') else r
        for k in ('fill_level', 'charge', 'discharge'):
            a, b = model[k], p[k]
            if len(a) != len(b):
                out.append('%s readout.%s: length %d (model) vs %d (impl)' % (tag, k, len(a), len(b)))
                continue
            for t, (x, y) in enumerate(zip(a, b)):
                if not feq(Fraction(x), Fraction(float(y)), TOL):
                    out.append('%s readout.%s step %d: %s (model) vs %s (impl)' % (tag, k, t, float(Fraction(x)), y))
                    break
        if not tag.endswith('/moved'):
            for t, (x, y) in enumerate(zip(model['fill_level'], r['fill_level_method'])):
                if not feq(Fraction(x), Fraction(float(y)), TOL):
                    out.append('%s Storage.fill_level step %d: %s (model) vs %s (impl)' % (tag, t, float(Fraction(x)), y))
                    break
    return out


# ------------------------------------------------------------------ oracles on the real code
def _close(a, b, tol=1e-7):
    return abs(a - b) <= tol * max(1., abs(a), abs(b))


def oracle(case, rec):
    v = []
    a = case['args']
    nm = case['name']
    T = rec['T']
    I = rec['I']
    eff, inflow = a.get('eff_in', 1.), a.get('inflow', 0.)
    start_l, end_l, size = a.get('start_level', 0.), a.get('end_level', 0.), a['size']
    msd = a.get('max_store_duration')

    def add(name, detail, **facts):
        v.append({'oracle': name, 'detail': detail, 'facts': facts})

    for order in ORDERS:
        r = rec['runs'].get(order, {})
        if r.get('status') != 'ok':
            continue
        x = r['x']
        rows = [m for m in r['mapping'] if m['asset'] == nm and m['kind'] == 'd']
        ch = np.zeros(T)
        di = np.zeros(T)
        two = any(m['var_name'] == 'disp_in' for m in rows)
        for m in rows:
            xv = x[m['var']]
            if two:
                # the physical reading: charge from the charge variable, discharge from the discharge variable
                if m['var_name'] == 'disp_in':
                    ch[m['step']] += -xv
                else:
                    di[m['step']] += -xv
            else:
                ch[m['step']] += max(0., -xv)
                di[m['step']] += min(0., -xv)
        # (a) true charge / discharge; zero outside the window
        for t in range(T):
            if not _close(r['charge'][t], ch[t]) or not _close(r['discharge'][t], di[t]):
                add('readout.true', '%s step %d: charge %r discharge %r, from the variables %r %r' %
                    (order, t, r['charge'][t], r['discharge'][t], ch[t], di[t]), order=order, step=t)
                break
            if t not in I and (r['charge'][t] != 0 or r['discharge'][t] != 0):
                add('readout.true', '%s step %d outside the window: charge %r discharge %r' % (order, t, r['charge'][t], r['discharge'][t]),
                    order=order, step=t)
                break
        # (b) the three columns fit together
        lvl = start_l
        infl = {i: inflow * d for i, d in zip(I, rec['dt_r'])}
        for t in range(T):
            lvl += eff * r['charge'][t] + r['discharge'][t] + infl.get(t, 0.)
            if not _close(r['fill_level'][t], lvl):
                add('readout.consistent', '%s step %d: fill level %r, from charge/discharge/inflow %r' % (order, t, r['fill_level'][t], lvl),
                    order=order, step=t)
                break
        # (c) position independence (same values of the storage's variables)
        mv = r.get('moved')
        f = rec['runs'].get('first', {})
        if mv is not None:
            if mv.get('status') != 'ok':
                add('readout.position', '%s: carried-over solution could not be evaluated: %s' % (order, mv.get('status')), order=order)
            else:
                for k in ('charge', 'discharge', 'fill_level'):
                    if any(abs(p - q) > 1e-12 * max(1., abs(p)) for p, q in zip(mv[k], f[k])) or len(mv[k]) != len(f[k]):
                        add('readout.position', '%s: column %s differs from the column with the storage first: %r vs %r' % (order, k, mv[k], f[k]),
                            order=order, column=k)
                        break
        # (d) end level
        if I:
            last = r['fill_level'][I[-1]]
            if last < end_l - 1e-6 * max(1., abs(end_l)):
                add('readout.end_level', '%s: level at the end of the window %r below end_level %r' % (order, last, end_l), order=order)
            if msd is None and not _close(last, end_l, 1e-6):
                add('readout.end_level', '%s: level at the end of the window %r, end_level %r' % (order, last, end_l), order=order)
            if end_l > size and not last > size:
                add('readout.end_level', '%s: end_level %r > size %r but last level %r' % (order, end_l, size, last), order=order)
    return v


# ------------------------------------------------------------------ one case, self-test
def run_case(case, drv):
    r = {'evaluated': 1, 'features': list(case.get('features', [])), 'disagreements': [], 'violations': [], 'solved': 0, 'moved': 0,
         'overfilled': 0}
    rec = run_impl(case)
    if rec.get('status') != 'ok':
        r['features'].append('skipped:' + str(rec.get('status')))
        return r
    models = {}
    for tag, req in request(case, rec):
        ans = drv.ask(req)
        if 'ok' not in ans:
            r['disagreements'].append({'component': 'storage.readout', 'detail': '%s driver: %s' % (tag, ans.get('err'))})
        else:
            models[tag] = ans['ok']
    for d in compare(case, rec, models):
        r['disagreements'].append({'component': 'storage.readout', 'detail': d})
    r['violations'] = oracle(case, rec)
    for order in ORDERS:
        run = rec['runs'].get(order, {})
        r['features'].append('solve:%s:%s' % (order, run.get('status', '?').split(':')[0] if not str(run.get('status', '')).startswith('error')
                                               else ':'.join(run['status'].split(':')[:2])))
        if run.get('status') == 'ok':
            r['solved'] += 1
            if run.get('moved', {}).get('status') == 'ok':
                r['moved'] += 1
            if rec['I'] and run['fill_level'][rec['I'][-1]] > case['args']['size'] + 1e-9:
                r['overfilled'] += 1
    return r


def selftest(n, seed, drv, verbose=False):
    rnd = random.Random(seed)
    counts = {'cases': 0, 'solved_runs': 0, 'moved_runs': 0, 'overfilled_runs': 0, 'requests': 0, 'disagreeing': 0, 'violating': 0}
    feats = {}
    dis, viol = [], []
    n0 = getattr(drv, 'n', 0)
    for i in range(n):
        case = gen_case(random.Random(rnd.getrandbits(48)))
        r = run_case(case, drv)
        counts['cases'] += 1
        counts['solved_runs'] += r['solved']
        counts['moved_runs'] += r['moved']
        counts['overfilled_runs'] += r['overfilled']
        for f in r['features']:
            feats[f] = feats.get(f, 0) + 1
        if r['disagreements']:
            counts['disagreeing'] += 1
            dis.append((i, case, r['disagreements']))
            if verbose:
                print('DISAGREE', i, r['disagreements'][:2])
        if r['violations']:
            counts['violating'] += 1
            viol.append((i, case, r['violations']))
            if verbose:
                print('VIOLATION', i, [(q['oracle'], q['detail']) for q in r['violations']][:3])
    counts['requests'] = getattr(drv, 'n', 0) - n0
    return {'counts': counts, 'features': feats, 'disagreements': dis, 'violations': viol}
