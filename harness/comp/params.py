"""Component correspondence + property oracles for `eaopack.io.get_params_tree` / `get_param` / `set_param`
(io.py 210-293; property C11, package pkg-params).

A case is a plain JSON value:
  {stream: 'real',   serial: <case of harness.comp.serial (gen_case / gen_case_sweep / gen_case_dst)>, seed}
        a real asset / portfolio of the generated classes; the tree is `json.loads(to_json(obj))`
  {stream: 'static', which: <name of STATIC>, seed}
        hand-built objects the serial generator does not draw: Node, Unit, Timegrid, empty portfolio, plain Asset …
  {stream: 'tree',   tree: <JSON value>, seed}
        a random plain JSON tree handed to the SAME three public functions (`to_json` / `load_from_json` are the identity
        on dictionaries without '__class__'): depth up to 7, empty lists / dictionaries at every level, scalars at every
        level, strings with non-ASCII characters, scalar roots - the shapes that stress the two-level recursion of
        `make_dict` and Python's indexing
The probes (paths and values for `get_param` / `set_param`) are derived deterministically from `seed` and the tree.

* run_impl(case)      real code: `get_params_tree(obj)`, then per probe `get_param(obj, path)` and
                      `set_param(obj, path, value)`; the re-created object is recorded as `to_json` text
* request(case, rec)  JSON requests for the Lean driver on the tree (ops `params_keys`, `params_leaves`);
  probe_requests(...) the requests of one probe (`params_get`, `params_set`); run_model(case, rec, drv) asks them all
* compare(...)        disagreement strings.  keys: the nested list, EXACT (bare key vs list, str vs int, order);
                      tree: exact with int / float / bool kept apart; get: value exact or the same exception class
                      (KeyError / IndexError / TypeError); set: the same exception class of the walk, otherwise the real
                      loader applied to the MODEL's tree (`load_from_json(json.dumps(tree'))`) gives the same `to_json`
                      text as the object `set_param` returned, or fails exactly when `set_param` raised ValueError;
                      stream tree: the returned tree IS the model's tree, compared exactly (order of keys included)
* oracle(...)         statements on the real code alone: every listed entry is readable with `get_param` and is a scalar
                      (`keys_are_valid`); every scalar of the tree is listed exactly once (`keys_complete`, `keys_nodup`; empty
                      containers are the stated exception, reported as a feature); `set_param` with the value read re-creates
                      the object `load_from_json(to_json(obj))` (`set_param_same_is_roundtrip`; LinkedAsset: known finding
                      F-11d, fact kind=linked_asset); stream tree: `get_set_same`, `get_set_other`, `set_get_id` on the returned
                      tree; the object handed in is not changed by any of the calls
"""
import copy
import json
import math
import random
import re
from fractions import Fraction

import eaopack as eao
from eaopack import serialization as ser
from ..impl import Quiet
from ..lean import fs

NAME = 'params'

# ------------------------------------------------------------------ registered theorems (audited with `#print axioms`)
M = 'EAO.Properties.C11Params'
THEOREMS_C11_PARAMS = [
    (M, 'EAO.C11P.get_set_same',
     'after a successful sett(o, p, v) on a path p that was readable before, get(o, p) returns v (any tree; negative list indices included)'),
    (M, 'EAO.C11P.get_set_new_key',
     'a NEW string key under a readable dictionary (or the root dictionary): sett succeeds and the key reads back the value written'),
    (M, 'EAO.C11P.get_set_other',
     'after sett on a readable path p every path q - readable or not - that is no prefix of p and has no prefix p gives exactly the same result as before (value or exception class); list positions counted from the front in p and q'),
    (M, 'EAO.C11P.set_get_id',
     'sett(o, p, get(o, p)) leaves the tree unchanged (p readable, no step into a string): the JSON handed to the loader is the JSON of the object'),
    (M, 'EAO.C11P.set_get_id_of_ok',
     'without side condition: whenever sett(o, p, get(o, p)) succeeds the tree is unchanged'),
    (M, 'EAO.C11P.set_ok_iff_no_string_step',
     'on a readable path sett succeeds iff the walk never indexes into a string (get reads characters of strings, item assignment on them is a TypeError)'),
    (M, 'EAO.C11P.set_error_is_get_error',
     'sett on q + [k] raises e iff reading the parent path q raises e, or the parent d is readable and d[k] = v raises e'),
    (M, 'EAO.C11P.keys_flat',
     'the nested key list of make_dict (two levels per call, [k] + l_myk + l_ttk) is the one-level recursion leafPaths - ALL paths from the root to a scalar, in document order, any depth - each written as bare key (one element) or list'),
    (M, 'EAO.C11P.keys_shape',
     'a bare key k is listed iff [k] is a path to a scalar child of the root; a list entry is listed iff it is a path to a scalar and has at least two elements'),
    (M, 'EAO.C11P.keys_none_iff_scalar',
     'get_params_tree answers (None, None) exactly for a scalar root; otherwise the tree is returned unchanged'),
    (M, 'EAO.C11P.keys_are_valid',
     'in a tree whose dictionaries have distinct keys every listed entry is readable with get, the value is a scalar (no list, no dictionary), positions count from the front, no step into a string'),
    (M, 'EAO.C11P.keys_complete',
     'every scalar that get reaches on a path with list positions counted from the front and without indexing into a string is listed'),
    (M, 'EAO.C11P.containers_not_listed',
     'the exception to "every parameter is listed": a path that reaches a list or dictionary - in particular an EMPTY one - is not in the key list'),
    (M, 'EAO.C11P.empty_container_witness',
     'machine-checked instance: {"assets": [], "name": "p"} lists only name; assets is readable and settable but not listed'),
    (M, 'EAO.C11P.keys_nodup',
     'in a tree whose dictionaries have distinct keys no entry (and no path) is listed twice'),
    (M, 'EAO.C11P.keys_after_set_scalar',
     'writing a scalar over a scalar does not change the key list'),
    (M, 'EAO.C11P.set_param_same_tree',
     'for every object tree and readable path without string step: set_param with the value read hands the loader exactly enc v again'),
    (M, 'EAO.C11P.set_param_is_load_of_set_tree',
     'set_param = loader after sett: exceptions of the walk pass unchanged (raised before the try), an accepted tree gives the decoded object, a rejected one the exception of the except branch'),
    (M, 'EAO.C11P.set_param_same_is_roundtrip',
     'with EAO.C11.roundtrip_of_schema: set_param(obj, p, get_param(obj, p)) = dec (enc obj) = obj for every valid object tree over classes satisfying RoundTripOK'),
    (M, 'EAO.C11P.set_param_listed_is_roundtrip',
     'the same for every entry of the key list of get_params_tree, without side condition on the path (dictionaries with distinct keys)'),
    (M, 'EAO.C11P.set_param_same_is_roundtrip_generated',
     'the same over the class table regenerated from the sources'),
    (M, 'EAO.C11P.int_key_on_dict_witness',
     'machine-checked instance of the quirk: sett with an integer key on a dictionary succeeds, json.dumps writes the decimal string key; readable under the string, KeyError under the integer'),
    (M, 'EAO.C11P.name_type_error_witness',
     'machine-checked instance: the except branch of set_param raises TypeError instead of ValueError when name is no string / the root is a list containing "name"'),
]


# ------------------------------------------------------------------ tree <-> driver encoding
class Unsupported(Exception):
    pass


def enc_tree(t):
    """Python JSON value -> driver encoding (int / float / bool kept apart; dict as ordered pairs)"""
    if t is None:
        return None
    if isinstance(t, bool):
        return {'b': t}
    if isinstance(t, int):
        return {'i': t}
    if isinstance(t, float):
        if math.isnan(t) or math.isinf(t):
            raise Unsupported('non-finite float')
        return {'f': fs(t)}
    if isinstance(t, str):
        return {'s': t}
    if isinstance(t, list):
        return {'a': [enc_tree(x) for x in t]}
    if isinstance(t, dict):
        for k in t:
            if not isinstance(k, str):
                raise Unsupported('non-string key')
        return {'o': [[k, enc_tree(v)] for k, v in t.items()]}
    raise Unsupported(type(t).__name__)


def dec_tree(e):
    """driver encoding -> Python JSON value (floats as Fraction-exact floats)"""
    if e is None:
        return None
    if 'b' in e:
        return e['b']
    if 'i' in e:
        return e['i']
    if 'f' in e:
        fr = Fraction(e['f'])
        return fr.numerator / fr.denominator
    if 's' in e:
        return e['s']
    if 'a' in e:
        return [dec_tree(x) for x in e['a']]
    return {k: dec_tree(v) for k, v in e['o']}


def norm_enc(e):
    """canonical form of the encoding for comparison (rationals as reduced 'p/q')"""
    if e is None:
        return None
    if 'f' in e:
        fr = Fraction(e['f'])
        return {'f': '%d/%d' % (fr.numerator, fr.denominator)}
    if 'a' in e:
        return {'a': [norm_enc(x) for x in e['a']]}
    if 'o' in e:
        return {'o': [[k, norm_enc(v)] for k, v in e['o']]}
    return e


def same_tree(a_enc, b_enc):
    return norm_enc(a_enc) == norm_enc(b_enc)


def first_diff(a, b, path='$'):
    a, b = norm_enc(a), norm_enc(b)

    def go(x, y, p):
        if x == y:
            return None
        if isinstance(x, dict) and isinstance(y, dict) and 'a' in x and 'a' in y:
            if len(x['a']) != len(y['a']):
                return '%s: list lengths %d / %d' % (p, len(x['a']), len(y['a']))
            for i, (u, v) in enumerate(zip(x['a'], y['a'])):
                d = go(u, v, '%s[%d]' % (p, i))
                if d:
                    return d
        if isinstance(x, dict) and isinstance(y, dict) and 'o' in x and 'o' in y:
            kx, ky = [k for k, _ in x['o']], [k for k, _ in y['o']]
            if kx != ky:
                return '%s: keys %r / %r' % (p, kx[:12], ky[:12])
            for (k, u), (_, v) in zip(x['o'], y['o']):
                d = go(u, v, '%s.%s' % (p, k))
                if d:
                    return d
        return '%s: %r / %r' % (p, str(x)[:80], str(y)[:80])
    return go(a, b, path)


def exc_name(e):
    for c in (KeyError, IndexError, TypeError, ValueError):
        if isinstance(e, c):
            return c.__name__
    return type(e).__name__


# ------------------------------------------------------------------ generators
SCALARS = [None, True, False, 0, 1, -3, 7, 2.5, -0.125, 1e3, 0.1, 'x', '', 'hé', 'name', 'abé中z', 'q\U0001F600r']
KEYS = ['a', 'b', 'c', 'name', 'nodes', 'x', 'y', '0', '1', '3', '-1', 'ké', '']


def gen_scalar(rnd):
    r = rnd.random()
    if r < 0.5:
        return rnd.choice(SCALARS)
    if r < 0.7:
        return rnd.randint(-10 ** 6, 10 ** 6)
    if r < 0.9:
        return rnd.randint(-800, 800) / 8.0
    return ''.join(rnd.choice('abcXYZ äß€') for _ in range(rnd.randint(0, 6)))


def gen_tree(rnd, depth, p_leaf=0.3, root=False):
    """random JSON value; containers down to `depth`, empty containers and scalars at every level"""
    if depth <= 0 or (not root and rnd.random() < p_leaf):
        return gen_scalar(rnd)
    n = rnd.choice([0, 1, 1, 2, 2, 3, 4])
    if rnd.random() < 0.5:
        return [gen_tree(rnd, depth - 1, p_leaf) for _ in range(n)]
    ks = rnd.sample(KEYS, min(n, len(KEYS)))
    return {k: gen_tree(rnd, depth - 1, p_leaf) for k in ks}


def gen_chain(rnd, depth):
    """a narrow deep tree: alternating / repeated container kinds, scalars hanging off at every level (parity of the depth
    at which the two-level recursion meets a scalar, a list or a dictionary)"""
    t = gen_scalar(rnd) if rnd.random() < 0.7 else rnd.choice([[], {}])
    for _ in range(depth):
        side = [gen_scalar(rnd) for _ in range(rnd.randint(0, 2))]
        if rnd.random() < 0.5:
            lst = side + [t]
            rnd.shuffle(lst)
            t = lst
        else:
            d = {}
            ks = rnd.sample(KEYS, len(side) + 1)
            items = side + [t]
            rnd.shuffle(items)
            for k, v in zip(ks, items):
                d[k] = v
            t = d
    return t


def gen_case(rnd, i=0):
    """one case; i selects the stream"""
    seed = rnd.getrandbits(32)
    r = i % 10
    if r in (0, 1, 2, 3):
        from . import serial as S
        sub = random.Random(rnd.getrandbits(48))
        if r == 3:
            groups = S.sweep_groups()
            cls, musts = groups[(i // 10) % len(groups)]
            case = S.gen_case_sweep(sub, cls, musts, i // 10)
            if case is None:
                case = S.gen_case(sub, i)
        else:
            case = S.gen_case(sub, i // 10 * 3 + r)
        return {'stream': 'real', 'serial': case, 'seed': seed}
    if r == 4:
        return {'stream': 'static', 'which': STATIC_NAMES[(i // 10) % len(STATIC_NAMES)], 'seed': seed}
    if r in (5, 6):
        return {'stream': 'tree', 'tree': gen_chain(rnd, rnd.randint(0, 7)), 'seed': seed}
    if r == 7 and rnd.random() < 0.3:
        return {'stream': 'tree', 'tree': gen_scalar(rnd), 'seed': seed}        # scalar root: (None, None)
    return {'stream': 'tree', 'tree': gen_tree(rnd, rnd.randint(1, 6), p_leaf=rnd.choice([0.15, 0.3, 0.5]), root=True), 'seed': seed}


def _static_objects():
    import datetime as dt
    import pandas as pd
    n1, n2 = eao.Node('N1'), eao.Node('N2', commodity='gas', unit=eao.Unit(volume='MJ', flow='MJ/h'))
    tg = eao.Timegrid(dt.date(2021, 1, 1), dt.date(2021, 1, 3), freq='h', main_time_unit='h', timezone='CET')
    sc = eao.assets.SimpleContract(name='sc', nodes=n1, min_cap=-1.0, max_cap=2.0, price='p',
                                   start=dt.datetime(2021, 1, 1, 3), end=pd.Timestamp('2021-01-02', tz='CET'))
    st = eao.assets.Storage('st', nodes=n1, cap_in=1, cap_out=1, size=4, start_level=1, end_level=1)
    pf0 = eao.portfolio.Portfolio([])
    pf1 = eao.portfolio.Portfolio([sc, st])
    pf2 = eao.portfolio.Portfolio([sc])
    pf2.set_timegrid(tg)
    ob = eao.assets.OrderBook(name='ob', nodes=n1, orders={'start': [], 'end': [], 'capa': [], 'price': []})
    mc = eao.assets.MultiCommodityContract(name='mc', nodes=[n1, n2], min_cap=0, max_cap=1, factors_commodities=[1, -0.5])
    return {'node': n1, 'node_unit': n2, 'unit': eao.Unit(), 'timegrid': tg, 'asset': eao.assets.Asset(name='plain'),
            'simple': sc, 'storage': st, 'empty_portfolio': pf0, 'portfolio': pf1, 'portfolio_grid': pf2,
            'orderbook_empty': ob, 'multi': mc,
            'structured': eao.portfolio.StructuredAsset(name='sa', nodes=n1, portfolio=pf1)}


STATIC_NAMES = ['node', 'node_unit', 'unit', 'timegrid', 'asset', 'simple', 'storage', 'empty_portfolio', 'portfolio',
                'portfolio_grid', 'orderbook_empty', 'multi', 'structured']


def build_object(case):
    """the Python object handed to the three functions"""
    if case['stream'] == 'tree':
        return copy.deepcopy(case['tree'])
    if case['stream'] == 'static':
        with Quiet():
            return _static_objects()[case['which']]
    from . import serial as S
    with Quiet():
        obj, _ = S.build_case(case['serial'])
    return obj


# ------------------------------------------------------------------ probes
def norm_entry(e):
    return list(e) if isinstance(e, list) else [e]


def leaves_of(t, prefix=()):
    """(path, value) of every scalar, (path, container) of every empty container: independent walk"""
    out, empties = [], []
    if isinstance(t, dict):
        items = list(t.items())
    elif isinstance(t, list):
        items = list(enumerate(t))
    else:
        return out, empties
    for k, v in items:
        p = prefix + (k,)
        if isinstance(v, (dict, list)):
            if len(v) == 0:
                empties.append(list(p))
            o2, e2 = leaves_of(v, p)
            out += o2
            empties += e2
        else:
            out.append((list(p), v))
    return out, empties


def py_get(t, path):
    for k in path:
        t = t[k]
    return t


def gen_value(rnd, tree, leaves):
    r = rnd.random()
    if r < 0.04:
        return {'__class__': 'no_such_class'}          # the loader rejects it: the `except` branch of set_param
    if r < 0.45:
        return gen_scalar(rnd)
    if r < 0.6:
        return gen_tree(rnd, 2, 0.4, root=True)
    if r < 0.8 and leaves:
        p, _ = rnd.choice(leaves)
        cut = rnd.randint(1, len(p))
        try:
            return copy.deepcopy(py_get(tree, p[:cut]))
        except Exception:
            return None
    return rnd.choice([[], {}, [1, 2], {'a': 1}, 0, None, 'new'])


def mutate_path(rnd, tree, p):
    """an (often) invalid variant of a valid path"""
    p = list(p)
    r = rnd.randrange(9)
    if r == 0 and p:                                  # beyond a leaf: scalar / string indexed
        return p + [rnd.choice([0, -1, 'x', 1, 5])]
    if r == 1 and p:                                  # wrong key type at a position
        j = rnd.randrange(len(p))
        p[j] = 'zz' if isinstance(p[j], int) else rnd.choice([0, 3, -1])
        return p
    if r == 2 and p:                                  # missing key / index out of range
        j = rnd.randrange(len(p))
        p[j] = p[j] + rnd.choice([1, 2, 50, 1000]) if isinstance(p[j], int) else p[j] + '_'
        return p
    if r == 3 and p:                                  # negative index: the same element counted from the end, or one too far
        js = [j for j in range(len(p)) if isinstance(p[j], int)]
        if js:
            j = rnd.choice(js)
            try:
                n = len(py_get(tree, p[:j]))
                p[j] = p[j] - n - rnd.choice([0, 0, 0, 1, 7])
            except Exception:
                pass
        return p
    if r == 4:
        return []                                     # empty path
    if r == 5 and len(p) > 1:
        return p[:rnd.randint(1, len(p) - 1)]          # a prefix: container
    if r == 6 and p:                                  # new key in the last dictionary / index in the last list
        p[-1] = rnd.choice(['new_key', 'zz', 3, 0, -1, 17]) if rnd.random() < 0.7 else str(p[-1])
        return p
    if r == 7 and p:
        j = rnd.randrange(len(p))
        return p[:j] + [rnd.choice(['name', 0, -1, 'x'])] + p[j:]
    return [rnd.choice(['name', 'nodes', 'assets', 0, -1, 'nope', 3])]


def make_probes(rnd, tree, keys, stream):
    """list of {'path', 'bare', 'do': 'get'|'set'|'both', 'value', 'kind'}"""
    leaves, empties = leaves_of(tree)
    listed = [norm_entry(e) for e in (keys or [])]
    probes = []
    ng, nm = (6, 8) if stream != 'tree' else (5, 7)
    pool = listed or [[]]
    for _ in range(ng if listed else 0):               # listed paths: read, write the same value, write another
        p = rnd.choice(pool)
        probes.append({'path': p, 'kind': 'listed', 'same': True})
    for _ in range(3 if listed else 0):
        p = rnd.choice(pool)
        probes.append({'path': p, 'kind': 'listed-new', 'value': gen_value(rnd, tree, leaves)})
    for e in (keys or []):                             # a bare key handed over as such (not wrapped in a list)
        if not isinstance(e, list):
            probes.append({'path': e, 'bare': True, 'kind': 'bare', 'same': True})
            break
    for p in empties[:2]:
        probes.append({'path': p, 'kind': 'empty-container', 'same': True})
        probes.append({'path': p, 'kind': 'empty-container-new', 'value': gen_value(rnd, tree, leaves)})
    for _ in range(nm):
        p = mutate_path(rnd, tree, rnd.choice(pool))
        pr = {'path': p, 'kind': 'mutated'}
        if rnd.random() < 0.5:
            pr['value'] = gen_value(rnd, tree, leaves)
        else:
            pr['same'] = True
        probes.append(pr)
    return probes


# ------------------------------------------------------------------ the real code
_ADDR = re.compile(r' at 0x[0-9a-fA-F]+')


def _to_json(o):
    # (a value without JSON form that ends up in a string parameter is written as its repr: memory addresses masked)
    return _ADDR.sub(' at 0x', ser.to_json(o))


def run_impl(case):
    """everything observed on the real code for one case"""
    rec = {'stream': case['stream'], 'skip': None, 'probes': [], 'features': []}
    try:
        obj = build_object(case)
    except Exception as e:
        rec['skip'] = 'build:' + type(e).__name__
        return rec
    rec['class'] = type(obj).__name__
    try:
        with Quiet():
            text0 = _to_json(obj)
        rec['input_tree'] = json.loads(text0)                       # what the functions work on, obtained independently
        enc_tree(rec['input_tree'])
    except Unsupported as e:
        rec['skip'] = 'unsupported:' + str(e)
        return rec
    except Exception as e:
        rec['skip'] = 'to_json:' + type(e).__name__
        return rec
    with Quiet():
        keys, tree = eao.io.get_params_tree(obj)
    rec['keys'], rec['tree'] = keys, tree
    try:                                                            # the C11 reference: the object saved and loaded
        with Quiet():
            rec['roundtrip'] = _to_json(ser.load_from_json(text0))
        rec['roundtrip_err'] = None
    except Exception as e:
        rec['roundtrip'], rec['roundtrip_err'] = None, exc_name(e)
    rnd = random.Random(case['seed'])
    work = tree if tree is not None else None
    probes = make_probes(rnd, work, keys, case['stream'])
    for pr in probes:
        path = pr['path']
        arg = copy.deepcopy(path)
        out = dict(pr)
        try:
            with Quiet():
                v = eao.io.get_param(obj, arg)
            out['get'] = ('ok', copy.deepcopy(v))
        except Exception as e:
            out['get'] = ('err', exc_name(e))
        if pr.get('same'):
            if out['get'][0] != 'ok':
                out['set'] = None
                rec['probes'].append(out)
                continue
            value = copy.deepcopy(out['get'][1])
        else:
            value = pr['value']
        out['value'] = copy.deepcopy(value)
        try:
            with Quiet():
                res = eao.io.set_param(obj, copy.deepcopy(path), copy.deepcopy(value))
            if case['stream'] == 'tree':
                out['set'] = ('ok', res)
            else:
                with Quiet():
                    out['set'] = ('ok', _to_json(res))
        except Exception as e:
            out['set'] = ('err', exc_name(e))
        rec['probes'].append(out)
    with Quiet():
        rec['text_before'], rec['text_after'] = text0, _to_json(obj)
    return rec


# ------------------------------------------------------------------ the model
def request(case, rec):
    """list of driver requests: [keys, leaves, then per probe get (+ set)]"""
    t = enc_tree(rec['input_tree'])
    reqs = [{'op': 'params_keys', 'tree': t}, {'op': 'params_leaves', 'tree': t}]
    return reqs


def probe_requests(rec, tree_enc, pr):
    path = norm_entry(pr['path'])
    out = [{'op': 'params_get', 'tree': tree_enc, 'path': path}]
    if pr.get('set') is not None:
        out.append({'op': 'params_set', 'tree': tree_enc, 'path': path, 'value': enc_tree(pr['value'])})
    return out


def ask_ok(drv, req):
    r = drv.ask(req)
    if 'ok' not in r:
        raise RuntimeError('driver: %s' % r.get('err'))
    return r['ok']


def run_model(case, rec, drv):
    model = {'probes': []}
    reqs = request(case, rec)
    model['keys'] = ask_ok(drv, reqs[0])
    model['leaves'] = ask_ok(drv, reqs[1])
    tree_enc = model['keys']['tree']                    # the model's `o` (null for a scalar root)
    for pr in rec['probes']:
        rs = probe_requests(rec, tree_enc, pr)
        m = {'get': ask_ok(drv, rs[0])}
        if len(rs) > 1:
            m['set'] = ask_ok(drv, rs[1])
        model['probes'].append(m)
    return model


# ------------------------------------------------------------------ comparison
def compare(case, rec, model):
    dis = []
    if rec['skip']:
        return dis
    mk = model['keys']['keys']
    if rec['keys'] != mk or [type(x) for e in (rec['keys'] or []) for x in norm_entry(e)] != [type(x) for e in (mk or []) for x in norm_entry(e)]:
        a, b = rec['keys'] or [], mk or []
        j = next((j for j in range(min(len(a), len(b))) if a[j] != b[j]), min(len(a), len(b)))
        dis.append('keys differ (impl %s / model %s entries), first at %d: %r / %r' %
                   (None if rec['keys'] is None else len(a), None if mk is None else len(b), j, a[j:j + 1], b[j:j + 1]))
    te = enc_tree(rec['tree'])
    if not same_tree(te, model['keys']['tree']):
        dis.append('tree differs: ' + str(first_diff(te, model['keys']['tree'])))
    # the flat reading used by the theorems, on the real output
    if rec['keys'] is not None and [norm_entry(e) for e in rec['keys']] != model['leaves']['paths']:
        dis.append('leafPaths of the model differs from the listed paths of the implementation')
    if not model['leaves']['nodup']:
        dis.append('model says the loaded tree has a dictionary with repeated keys')
    for n, (pr, m) in enumerate(zip(rec['probes'], model['probes'])):
        tag = 'probe %d (%s) path %r' % (n, pr['kind'], pr['path'])
        g = pr['get']
        if g[0] == 'ok':
            if 'value' not in m['get']:
                dis.append('%s: get_param returned a value, model raises %s' % (tag, m['get'].get('err')))
            elif not same_tree(enc_tree(g[1]), m['get']['value']):
                dis.append('%s: get_param value differs: %s' % (tag, first_diff(enc_tree(g[1]), m['get']['value'])))
        else:
            if m['get'].get('err') != g[1]:
                dis.append('%s: get_param raised %s, model %s' % (tag, g[1], m['get'].get('err', 'a value')))
        s = pr.get('set')
        if s is None:
            continue
        ms = m['set']
        if 'err' in ms:                                  # error of the walk: passes through set_param unchanged
            if s != ('err', ms['err']):
                dis.append('%s: set_param %s, model raises %s in the walk' % (tag, s[1] if s[0] == 'err' else 'returned', ms['err']))
            continue
        # the real loader on the model's tree
        try:
            with Quiet():
                ref = _to_json(ser.load_from_json(json.dumps(dec_tree(ms['tree']))))
            ref_err = None
        except Exception as e:
            ref, ref_err = None, exc_name(e)
        if ref_err is not None:
            if s != ('err', ms['on_load_failure']):
                dis.append('%s: loader fails on the model tree (%s; model: set_param raises %s) but set_param %s' %
                           (tag, ref_err, ms['on_load_failure'], 'returned' if s[0] == 'ok' else 'raised ' + s[1]))
        elif s[0] != 'ok':
            dis.append('%s: set_param raised %s, the loader accepts the model tree' % (tag, s[1]))
        elif case['stream'] == 'tree':                   # the loader is the identity on plain trees: the result IS the tree of sett
            try:
                if not same_tree(enc_tree(s[1]), ms['tree']):
                    dis.append('%s: tree after set_param differs: %s' % (tag, first_diff(enc_tree(s[1]), ms['tree'])))
            except Unsupported as e:
                dis.append('%s: result not a JSON tree: %s' % (tag, e))
        elif s[1] != ref:
            dis.append('%s: object of set_param differs from the loader applied to the model tree' % tag)
    return dis


# ------------------------------------------------------------------ oracles on the real code
def _is_linked(rec):
    return 'LinkedAsset' in (rec.get('text_before') or '')


def oracle(case, rec):
    viol = []
    if rec['skip']:
        return viol
    keys, tree = rec['keys'], rec['tree']
    facts0 = {'class': rec.get('class'), 'stream': case['stream']}
    if _is_linked(rec):
        facts0['kind'] = 'linked_asset'
    if rec['text_before'] != rec['text_after']:
        viol.append({'oracle': 'c11p-pure', 'detail': 'the object handed to get_params_tree / get_param / set_param changed', 'facts': dict(facts0)})
    container_root = isinstance(rec['input_tree'], (dict, list))
    if (keys is None) != (not container_root) or (tree is None) != (not container_root):
        viol.append({'oracle': 'c11p-keys-none', 'detail': 'get_params_tree gives None exactly for scalar roots: violated', 'facts': dict(facts0)})
    if keys is None:
        return viol
    if tree != rec['input_tree']:
        viol.append({'oracle': 'c11p-tree', 'detail': 'the tree returned is not json.loads(to_json(obj))', 'facts': dict(facts0)})
    leaves, empties = leaves_of(tree)
    listed = [norm_entry(e) for e in keys]
    # keys_are_valid (independent walk with plain indexing)
    for e in keys:
        p = norm_entry(e)
        try:
            v = py_get(tree, p)
            bad = isinstance(v, (dict, list))
        except Exception:
            bad = True
        if bad:
            viol.append({'oracle': 'c11p-keys-valid', 'detail': 'listed entry %r does not lead to a scalar' % (e,), 'facts': dict(facts0)})
            break
    # shape
    for e in keys:
        if isinstance(e, list) and len(e) < 2:
            viol.append({'oracle': 'c11p-keys-shape', 'detail': 'list entry with fewer than two keys: %r' % (e,), 'facts': dict(facts0)})
            break
        if not isinstance(e, list) and isinstance(tree[e], (dict, list)):
            viol.append({'oracle': 'c11p-keys-shape', 'detail': 'bare key of a container: %r' % (e,), 'facts': dict(facts0)})
            break
    # keys_complete / keys_nodup: the listed paths are exactly the scalars, in document order
    if listed != [p for p, _ in leaves]:
        missing = [p for p, _ in leaves if p not in listed]
        viol.append({'oracle': 'c11p-keys-complete', 'detail': 'listed paths are not the scalars of the tree in document order; missing %r' % (missing[:3],),
                     'facts': dict(facts0, missing=len(missing))})
    # probes
    for pr in rec['probes']:
        s = pr.get('set')
        if pr['kind'] in ('listed', 'bare'):
            if pr['get'][0] != 'ok':
                viol.append({'oracle': 'c11p-keys-valid', 'detail': 'get_param(%r) raised %s for a listed entry' % (pr['path'], pr['get'][1]), 'facts': dict(facts0)})
                continue
            if pr['get'][1] != py_get(tree, norm_entry(pr['path'])):
                viol.append({'oracle': 'c11p-get', 'detail': 'get_param(%r) is not the entry of the tree' % (pr['path'],), 'facts': dict(facts0)})
        if pr.get('same') and s is not None and pr['kind'] in ('listed', 'bare', 'empty-container'):
            # set_param_same_is_roundtrip
            if case['stream'] == 'tree':
                if s[0] != 'ok' or enc_tree(s[1]) != enc_tree(tree):
                    viol.append({'oracle': 'c11p-set-same', 'detail': 'set_param(tree, %r, value read) is not the tree' % (pr['path'],), 'facts': dict(facts0)})
            elif rec['roundtrip_err'] is not None:
                if s[0] != 'err':
                    viol.append({'oracle': 'c11p-set-same', 'detail': 'load_from_json(to_json(obj)) raises but set_param(same value) returns', 'facts': dict(facts0)})
                else:
                    viol.append({'oracle': 'c11p-set-same', 'detail': 'set_param(obj, %r, value read) raised %s: the object cannot be loaded (%s)' % (pr['path'], s[1], rec['roundtrip_err']),
                                 'facts': dict(facts0, what='not-loadable')})
            elif s[0] != 'ok':
                viol.append({'oracle': 'c11p-set-same', 'detail': 'set_param(obj, %r, value read) raised %s' % (pr['path'], s[1]), 'facts': dict(facts0)})
            elif s[1] != rec['roundtrip']:
                viol.append({'oracle': 'c11p-set-same', 'detail': 'set_param(obj, %r, value read) differs from load_from_json(to_json(obj))' % (pr['path'],), 'facts': dict(facts0)})
            elif s[1] != rec['text_before']:
                viol.append({'oracle': 'c11p-set-same', 'detail': 'set_param(obj, %r, value read) does not save as the same JSON as obj' % (pr['path'],), 'facts': dict(facts0)})
        if case['stream'] == 'tree' and s is not None and s[0] == 'ok':
            p = norm_entry(pr['path'])
            t2 = s[1]
            # get_set_same (readable path or new string key)
            if pr['get'][0] == 'ok' or (p and isinstance(p[-1], str)):
                try:
                    back = py_get(t2, p)
                    okb = enc_tree(back) == enc_tree(pr['value'])
                except Exception:
                    okb = False
                if not okb:
                    viol.append({'oracle': 'c11p-get-set-same', 'detail': 'after set_param(tree, %r, v) the path does not read v' % (pr['path'],), 'facts': dict(facts0)})
            # get_set_other: every other scalar / empty container outside p (front-counted comparison) is unchanged
            if pr['get'][0] == 'ok' and all(not (isinstance(k, int) and k < 0) for k in p):
                for q, v in leaves:
                    if q[:len(p)] == p or p[:len(q)] == q:
                        continue
                    try:
                        same = enc_tree(py_get(t2, q)) == enc_tree(v)
                    except Exception:
                        same = False
                    if not same:
                        viol.append({'oracle': 'c11p-get-set-other', 'detail': 'set_param(tree, %r, v) changed %r' % (pr['path'], q), 'facts': dict(facts0)})
                        break
    return viol


# ------------------------------------------------------------------ one case, self-test
def run_case(case, drv):
    r = {'evaluated': 1, 'nontrivial': False, 'features': [], 'disagreements': [], 'violations': []}
    rec = run_impl(case)
    if rec['skip']:
        r['features'].append('skip:' + rec['skip'])
        return r
    model = run_model(case, rec, drv)
    r['disagreements'] = compare(case, rec, model)
    r['violations'] = oracle(case, rec)
    f = r['features']
    f.append('stream:' + case['stream'])
    if case['stream'] != 'tree':
        f.append('class:' + str(rec.get('class')))
        for c in sorted(set(_classes_in(rec['input_tree']))):
            f.append('contains:' + c)
    keys = rec['keys']
    if keys is None:
        f.append('scalar-root')
    else:
        f.append('entries:%s' % ('0' if not keys else '1-9' if len(keys) < 10 else '10-99' if len(keys) < 100 else '100+'))
        if keys:
            f.append('maxlen:%d' % max(len(norm_entry(e)) for e in keys))
        if any(not isinstance(e, list) for e in keys):
            f.append('bare-entries')
        _, empties = leaves_of(rec['tree'])
        if empties:
            f.append('empty-container-unlisted')
    for pr in rec['probes']:
        f.append('get:%s' % (pr['get'][1] if pr['get'][0] == 'err' else 'ok'))
        if pr.get('set') is not None:
            f.append('set:%s:%s' % (pr['kind'], pr['set'][1] if pr['set'][0] == 'err' else 'ok'))
    r['nontrivial'] = bool(keys) and any(pr['get'][0] == 'ok' and pr.get('set') and pr['set'][0] == 'ok' for pr in rec['probes'])
    r['probes'] = len(rec['probes'])
    return r


def _classes_in(t):
    if isinstance(t, dict):
        if 'asset_type' in t:
            yield t['asset_type']
        elif '__class__' in t:
            yield t['__class__']
        for v in t.values():
            yield from _classes_in(v)
    elif isinstance(t, list):
        for v in t:
            yield from _classes_in(v)


def scenarios(seed, tier):
    """(case id, case) for a property module: the corner cases, then generated cases of all streams"""
    for j, c in enumerate(corner_cases()):
        yield 'params_corner%d' % j, c
    rnd = random.Random(seed * 15485863 + 4111)
    for i in range(120 if tier == 'quick' else 900):
        yield 'params%d' % i, gen_case(random.Random(rnd.getrandbits(48)), i)


def corner_cases():
    trees = [
        {}, [], {'a': []}, {'a': {}}, [[]], [[], {}], {'a': [[]]}, {'a': {'b': []}}, {'a': {'b': {}}},
        {'assets': [], 'name': 'p'},
        {'a': 1}, [1], [[1]], [[[1]]], [[[[1]]]], [[[[[1]]]]], {'a': {'b': {'c': {'d': {'e': {'f': 1}}}}}},
        {'a': [1, [2, [3, [4, [5, [6]]]]]], 'b': 's'}, [{'a': [{'b': [{'c': 1}]}]}],
        {'name': 'abc', 'l': ['xyz', 'q\U0001F600r']}, {'0': 'zero', '1': [0, 1]}, {'3': 'three', 'a': 1},
        5, 'abc', None, True, 1.5,
        {'a': None, 'b': True, 'c': 1, 'd': 1.0, 'e': 'x'},
    ]
    return [{'stream': 'tree', 'tree': t, 'seed': 1000 + j} for j, t in enumerate(trees)] + \
           [{'stream': 'static', 'which': w, 'seed': 2000 + j} for j, w in enumerate(STATIC_NAMES)]


def selftest(n, seed, drv, verbose=False):
    rnd = random.Random(seed)
    counts = {'cases': 0, 'skipped': 0, 'disagreeing': 0, 'violating': 0, 'violating_known_F11d_only': 0, 'nontrivial': 0,
              'probes': 0}
    feats = {}
    dis, viol = [], []
    corner = corner_cases()
    counts['corner_cases'] = len(corner)
    for i in range(-len(corner), n):
        case = corner[i] if i < 0 else gen_case(random.Random(rnd.getrandbits(48)), i)
        r = run_case(case, drv)
        counts['cases'] += 1
        counts['nontrivial'] += int(r['nontrivial'])
        counts['probes'] += r.get('probes', 0)
        if any(f.startswith('skip:') for f in r['features']):
            counts['skipped'] += 1
        for f in r['features']:
            feats[f] = feats.get(f, 0) + 1
        if r['disagreements']:
            counts['disagreeing'] += 1
            dis.append((i, case, r['disagreements']))
            if verbose:
                print('DISAGREE', i, case['stream'], r['disagreements'][:2])
        if r['violations']:
            if all(v['facts'].get('kind') == 'linked_asset' for v in r['violations']):
                counts['violating_known_F11d_only'] += 1
            else:
                counts['violating'] += 1
                viol.append((i, case, r['violations']))
                if verbose:
                    print('VIOLATION', i, [(v['oracle'], v['detail']) for v in r['violations']][:3])
    return {'counts': counts, 'features': feats, 'disagreements': dis, 'violations': viol}
