"""C16 + C08: a wrapper WITH a window against the flat portfolio with clipped windows (proof package `pkg-structwinflat`).

Lean side: `EAO/Lemmas/StructWinFlat.lean` (helper lemmas, `FlatOf`, `flatWinD`, `SameProblem`, `ListRel`) and
`EAO/Properties/C16Window.lean` (namespace `EAO.C16W`, the theorems of `THEOREMS_C16_WINDOW`).  No new model, no new driver
op.

Executable cross-check (on the REAL code, real nested objects of `harness/comp/wrapwin.py`'s generator):

  a case = a wrapper tree of `wrapwin.gen_case` whose top is a StructuredAsset or a ScaledAsset, on a generated grid;
  run_impl   sets up the wrapper (`P`), then every wrapped object ON ITS OWN with `start` / `end` set to the dates the
             theorems' `flatWinD` names: Python's `max` / `min` of the two pairs of `pd.Timestamp`s (`qs`);
  oracle     the statement of `structured_window_builds` / `scaled_window_builds` on the real code:
               structured: P's cost / bound vectors are the concatenation of those of `qs`, P's asset rows (types U/L/S that
                 came from the wrapped problems) are the shifted rows of `qs`, the mapping rows keep variable, step, factor;
                 same exception class when a wrapped builder fails;
               scaled: P = the base on the intersected window plus one scale variable whose cost is
                 fix_costs * duration of the scaled asset's OWN window (not of the intersection);
  compare    (optional, with a driver) the existing correspondence `wrap_window` of `wrapwin` on the same case, so that the
             model's `buildTop` the theorems talk about is tied to the same real run.
"""
import copy
import os
import random
import sys
import traceback
import warnings

import numpy as np
import pandas as pd

sys.path.insert(0, os.environ.get('EAO_REPO', '/repo'))

from . import wrapwin as WW  # noqa: E402
from .. import scen  # noqa: E402
from ..impl import Quiet, err_class  # noqa: E402

M = 'EAO.Properties.C16Window'
THEOREMS_C16_WINDOW = [
    (M, 'EAO.C16W.same_problem_means',
     'reading of SameProblem: equal cost vector and bounds (same variables, same order), same boolean variables, same feasible points (relaxed and integral), same value at every point, same optimal points'),
    (M, 'EAO.C16W.structured_window_builds',
     "a StructuredAsset with window W builds P iff every wrapped object, set up ON ITS OWN with start/end = its window intersected with W, builds q_i, and P = structured(name, ext, [q_i]) - wrapped objects are arbitrary (leaf builders, order books, scaled assets, structures)"),
    (M, 'EAO.C16W.structured_window_flat',
     'C16+C08: the portfolio outer ++ [structure with window W] ++ rest and the FLAT portfolio outer ++ [wrapped objects with windows intersected with W] ++ rest are the same problem (any position; under the separation hypothesis of structured_flat); at every non-inner node the nodal rows are the same rows, outer assets have the same dispatch, the wrapper dispatches the sum of the wrapped assets'),
    (M, 'EAO.C16W.structured_window_flat_literal',
     "the same for the LITERAL set-up (clipping loop, finally) and the dates a user writes for the flat assets: Python's max of the starts / min of the ends (flatWinD), on a grid whose localisation is monotone"),
    (M, 'EAO.C16W.flat_steps_same',
     'any depth: a chain of flattening steps (one structure opened per step - structure in structure in ...; wrapped scaled assets stay objects) leads to the same assembled problem, under the separation hypothesis at each step'),
    (M, 'EAO.C16W.flatten_all_same',
     'any depth at once: flattenAll opens every structured asset of the object tree (scaled assets stay objects, windows = own window clipped by all enclosing wrappers); under ONE decidable tree-level condition treeSepOk (inner node names of every structure occur nowhere outside it and are not skipped; dispatch rows at own nodes) the portfolio with wrappers and the flat portfolio build the same assembled problem'),
    (M, 'EAO.C16W.flatten_all_same_dates',
     'the same for a flat portfolio whose start / end are written as any dates standing for the same instants (e.g. the naive dates max / min give)'),
    (M, 'EAO.C16W.scaled_window_builds',
     "a ScaledAsset with window ws builds P iff the base, set up on its own with window base ∩ ws, builds bp and P = buildScaled(bp, duration of the scaled asset's OWN window ws ∩ horizon)"),
    (M, 'EAO.C16W.scaled_window_flat',
     'ScaledAsset with own window at fixed scale s: feasible points = those of the base problem on the intersected window with capacities times s/norm (scaleProblemCaps); value = that value less s*fix_costs*duration(ws ∩ horizon)'),
    (M, 'EAO.C16W.scaled_window_flat_builder',
     'over a builder b with CapsBuilder (s/norm) b b\' and BaseWf b: the scaled asset with window = the top-level asset b\' (capacities times s/norm) with window wb ∩ ws, less s*fix_costs*duration(ws ∩ horizon), when wb ∩ ws contains a step'),
    (M, 'EAO.C16W.caps_simpleContract', 'SimpleContract (capacities not keys), k > 0, satisfies CapsBuilder'),
    (M, 'EAO.C16W.caps_contract', 'Contract incl. takes (capacities not keys), k > 0, satisfies CapsBuilder'),
    (M, 'EAO.C16W.caps_multi', 'MultiCommodityContract (capacities not keys), k > 0, satisfies CapsBuilder'),
    (M, 'EAO.C16W.caps_transport', 'Transport, k > 0, satisfies CapsBuilder'),
    (M, 'EAO.C16W.caps_extTransport', 'ExtendedTransport, k > 0, satisfies CapsBuilder'),
    (M, 'EAO.C16W.caps_storage', 'Storage in LP form, every k (scale 0 included), satisfies CapsBuilder'),
    (M, 'EAO.C16W.wf_simpleContract', 'SimpleContract satisfies BaseWf (shape scaled_fixed asks for, on a grid with steps)'),
    (M, 'EAO.C16W.wf_contract', 'Contract satisfies BaseWf'),
    (M, 'EAO.C16W.wf_multi', 'MultiCommodityContract satisfies BaseWf'),
    (M, 'EAO.C16W.wf_transport', 'Transport satisfies BaseWf'),
    (M, 'EAO.C16W.wf_extTransport', 'ExtendedTransport satisfies BaseWf'),
    (M, 'EAO.C16W.wf_storage', 'Storage in LP form satisfies BaseWf'),
]


# ------------------------------------------------------------------ generator
def gen_case(rnd):
    """a wrapper tree with windows (all date forms of one family: the TypeError cases are `wrapwin`'s subject)"""
    return WW.gen_case(rnd, stream=rnd.choice(['plain', 'plain', 'plain', 'fail']))


# ------------------------------------------------------------------ the flat dates, as the theorems' `flatWinD`
def _clip_start(own, wr):
    if wr is None:
        return own
    if own is None:
        return wr
    return max(pd.Timestamp(own), pd.Timestamp(wr))


def _clip_end(own, wr):
    if wr is None:
        return own
    if own is None:
        return wr
    return min(pd.Timestamp(own), pd.Timestamp(wr))


def _setup(o, prices, tg):
    try:
        with Quiet(), warnings.catch_warnings():
            warnings.simplefilter('ignore')
            return None, copy.deepcopy(o.setup_optim_problem(prices, tg))
    except Exception as ex:  # noqa: BLE001
        return err_class(ex), None


def run_impl(case):
    tg = scen.make_grid(case['grid'])
    nodes = scen.make_nodes(['N1', 'N2', 'I1'])
    prices = {k: np.asarray(v, dtype=float) for k, v in case['prices'].items()}
    top = WW.build_obj(case['tree'], nodes)
    errP, P = _setup(top, prices, tg)
    flat = []
    type_error = False
    for spec in WW.subs(case['tree']):
        o = WW.build_obj(spec, nodes)          # a fresh object: the wrapped one taken out of the wrapper
        try:
            o.start = _clip_start(o.start, top.start)
            o.end = _clip_end(o.end, top.end)
        except TypeError:
            type_error = True
            break
        e, q = _setup(o, prices, tg)
        flat.append((e, q))
        if e is not None:
            break                               # the inner portfolio's loop stops at the first failure
    dur = None
    if case['tree']['cls'] == 'ScaledAsset' and errP is None:
        try:
            top.set_timegrid(tg)
            dur = float(np.sum(top.timegrid.restricted.dt))
        except Exception:  # noqa: BLE001
            dur = None
    return {'errP': errP, 'P': P, 'flat': flat, 'type_error': type_error, 'dur': dur}


# ------------------------------------------------------------------ oracle on the real code
def _rows(op):
    if op is None or getattr(op, 'A', None) is None:
        return []
    A = op.A.tocsr()
    out = []
    for i in range(A.shape[0]):
        r = A.getrow(i)
        out.append((tuple(int(j) for j in r.indices), tuple(float(v) for v in r.data), float(op.b[i]), str(op.cType[i])))
    return out


def oracle(case, ir):
    viol = []

    def v(detail, **facts):
        viol.append({'oracle': 'wrapper_window_flat', 'detail': detail, 'facts': dict(facts, cls=case['tree']['cls'])})
    if ir['type_error']:
        return viol
    errs = [e for e, _ in ir['flat'] if e is not None]
    if errs or ir['errP'] is not None:
        if (errs[0] if errs else None) != ir['errP']:
            v('wrapper: %r, flat objects: %r' % (ir['errP'], errs[:1]), what='error')
        return viol
    P, qs = ir['P'], [q for _, q in ir['flat']]
    if case['tree']['cls'] == 'StructuredAsset':
        for nm in ('c', 'l', 'u'):
            cat = np.concatenate([np.asarray(getattr(q, nm), dtype=float) for q in qs]) if qs else np.zeros(0)
            if not np.array_equal(np.asarray(getattr(P, nm), dtype=float), cat):
                v('%s of the wrapper is not the concatenation of the flat objects\' %s' % (nm, nm), what=nm)
        off, want, mp = 0, [], []
        for q in qs:
            for (ix, dat, b, t) in _rows(q):
                want.append((tuple(off + j for j in ix), dat, b, t.replace('N', 'S')))
            if q.mapping is not None and len(q.mapping) > 0:
                m = q.mapping
                fac = m['disp_factor'].fillna(1.0) if 'disp_factor' in m.columns else pd.Series(1.0, index=m.index)
                mp += [(off + int(i), int(t), float(f)) for i, t, f in zip(m.index, m['time_step'], fac)]
            off += len(q.c)
        got = [r for r in _rows(P)]
        if got[:len(want)] != want:
            v('asset rows of the wrapper are not the shifted rows of the flat objects', what='rows')
        if any(t != 'S' for (_, _, _, t) in got[len(want):]):
            v('rows after the asset rows are not all inner nodal equalities', what='rows')
        m = P.mapping
        fac = m['disp_factor'].fillna(1.0) if 'disp_factor' in m.columns else pd.Series(1.0, index=m.index)
        gotm = [(int(i), int(t), float(f)) for i, t, f in zip(m.index, m['time_step'], fac)]
        if gotm != mp:
            v('mapping rows (variable, step, factor) differ from the flat objects\'', what='mapping')
    else:
        q = qs[0]
        if len(q.c) == 0:
            if len(P.c) != 0:
                v('base not active but the scaled problem has variables', what='empty')
            return viol
        if len(P.c) != len(q.c) + 1 or not np.array_equal(np.asarray(P.c[:-1], dtype=float), np.asarray(q.c, dtype=float)):
            v('costs of the scaled problem are not those of the base on the intersected window plus one', what='c')
        elif ir['dur'] is not None:
            want = float(case['tree']['args']['fix_costs']) * ir['dur']
            if abs(float(P.c[-1]) - want) > 1e-9 * max(1.0, abs(want)):
                v('cost of the scale %r, expected fix_costs * own duration %r' % (float(P.c[-1]), want), what='fix')
        nq = len(_rows(q))
        for (a, b) in zip(_rows(P)[:nq], _rows(q)):
            if a[0][:len(b[0])] != b[0] or a[3] != b[3]:
                v('rows of the scaled problem do not extend the rows of the base on the intersected window', what='rows')
                break
    return viol


# ------------------------------------------------------------------ optional tie to the model through `wrap_window`
def request(case, ir_ww):
    return WW.request(case, ir_ww)


def compare(case, ir_ww, mr):
    return WW.compare(case, ir_ww, mr)


def run_case(case, drv=None):
    ir = run_impl(case)
    out = {'violations': oracle(case, ir), 'disagreements': [], 'ir': ir}
    if drv is not None and WW.all_modelled(case['tree']):
        iw = WW.run_impl(case)
        r = drv.ask(WW.request(case, iw))
        out['disagreements'] = WW.compare(case, iw, r['ok']) if 'ok' in r else ['driver: %s' % r.get('err')]
    return out


def selftest(n, seed, drv=None, verbose=False):
    counts = {'cases': 0, 'structured': 0, 'scaled': 0, 'type_error': 0, 'errors_both': 0, 'harness_errors': 0, 'compared': 0}
    dis, viol = [], []
    for k in range(n):
        rnd = random.Random('%s/%d' % (seed, k))
        case = gen_case(rnd)
        counts['cases'] += 1
        counts['structured' if case['tree']['cls'] == 'StructuredAsset' else 'scaled'] += 1
        try:
            r = run_case(case, drv)
        except Exception:  # noqa: BLE001
            counts['harness_errors'] += 1
            dis.append((k, 'harness: ' + traceback.format_exc()[-500:]))
            continue
        counts['type_error'] += bool(r['ir']['type_error'])
        counts['errors_both'] += bool(r['ir']['errP'])
        counts['compared'] += bool(drv is not None and WW.all_modelled(case['tree']))
        dis += [(k, d) for d in r['disagreements']]
        viol += [(k, x) for x in r['violations']]
        if verbose and (r['disagreements'] or r['violations']):
            print(k, case['tree']['cls'], r['disagreements'][:2], r['violations'][:2])
    return {'counts': counts, 'disagreements': dis, 'violations': viol}
