"""C14 for storages optimised in TIME BLOCKS (`block_size`) in the split set-up: `Portfolio.setup_split_optim_problem` of
a portfolio of contracts, transports and `eaopack.assets.Storage` with tick block sizes against the Lean model
`EAO.Model.BlockSplit` (driver op `block_split`), and the registry of the theorems of `EAO.Properties.C14Blocks`.

A case is a plain JSON value (as for `harness.comp.splitstorage`; storages may carry `block_size`):
  {grid, nodes, prices, assets, interval, skip, stream: 'blocks', exact}

* run_impl(case)           real code on fresh objects (as `splitbuild.run_impl`): unsplit problem, interval problems, cuts,
                           windows and discount factors
* request(case, impl)      JSON request for the Lean driver (op `block_split`): the storages with `block_s` (seconds) and their
                           own window AS GIVEN (null = argument absent); the model computes the block starts itself
* compare(case, impl, m)   disagreement strings: unsplit problem, every interval problem (cost, bounds, rows in order, mapping in
                           order, nodal record with the original steps), error classes, the matching of the variables
* oracle(case, impl, m)    (a) `hyps0`, `lpk`, `aligned` and both set-ups succeed with a variable => the model's `witness`
                               (`splitWitness U ps perm`) is true (the TARGET `blocks_aligned_split_equals_unsplit` of EAO.Properties.C14Blocks evaluated);
                           (b) witness true => on the REAL problems the sum of the interval optima equals the unsplit optimum;
                           (c) not aligned (known findings F-14k, F-14f): nothing is claimed; it is recorded whether the real
                               split value differs from the unsplit one (`impl['_misaligned']` = 'higher' | 'lower' | 'equal').
"""
import json
import os
import random
import sys
import tempfile
import traceback

import numpy as np
import pandas as pd

if os.environ.get('EAO_REPO', '/repo') not in sys.path:
    sys.path.insert(0, os.environ.get('EAO_REPO', '/repo'))
import eaopack as eao
from .. import gen
from ..impl import Quiet
from .common import prices_json
from .contract import unit_sec
from . import splitbuild as sb
from . import splitstorage as ss
from . import storage as st

NAME = 'blocksplit'
VALUE_TOL = 1e-6

M = 'EAO.Properties.C14Blocks'
THEOREMS_C14_BLOCKS = [
    (M, 'EAO.C14K.block_rows_restart',
     'a storage in time blocks with start level = end level (no holding-duration option): the level rows of the block [a, e) are literally the rows of a storage that starts with '
     'start_level at position a and pins end_level at position e-1 (restartUpper / restartLower of EAO.C14S): a block boundary acts exactly like a split cut'),
    (M, 'EAO.C14K.single_block_is_unblocked',
     'block starts [0] on a grid with at least one step (what the code computes when no block date falls inside the grid): the set-up IS the set-up without block_size'),
    (M, 'EAO.C14K.blocks_aligned_split_equals_unsplit_partial',
     'split set-up with storages in time blocks (block starts recomputed on every interval grid as the code does, F-14f last-step blocks included): whenever the decidable witness of '
     'EAO.C14 holds for the unsplit problem and the interval problems of setupSplitK along the explicit matching, feasible sets and values correspond both ways: split = unsplit; '
     'the correspondence evaluates blocksAligned => witness on every generated case (the implication itself is blocks_aligned_split_equals_unsplit below)'),
    (M, 'EAO.C14K.blocked_storage_interval_is_restriction',
     'one storage in LP form apart from time blocks (no storage costs, start level = end level): if every unsplit block lies inside the piece [sa, sa+m) of the storage grid that belongs to '
     'the interval or is disjoint from it, and the blocks found on the interval grid are the unsplit blocks of that piece, the storage the split set-up builds in the interval IS the '
     'restriction (restrictTo) of the unsplit storage WITH blocks: same variables, costs, bounds, mapping, level rows of the blocks of the piece'),
    (M, 'EAO.C14K.blocks_pairs_aligned_split_equals_unsplit',
     'portfolios of the five builders and storages in time blocks: under splitHypsS of the portfolio without blocks, every storage lpK, the reference grid inside [gs, ge) and the decidable '
     'pair-level alignment pairsAligned (blocks recomputed on every interval grid = the unsplit blocks of the interval piece) the split set-up succeeds, the witness of EAO.C14 is TRUE against '
     'the UNSPLIT problem along the explicit matching, and feasible sets, values and upper bounds of split and unsplit agree - no certificate'),
    (M, 'EAO.C14K.blocks_aligned_split_equals_unsplit',
     'the former TARGET, proved: portfolios of the five builders and storages in time blocks; splitHypsS of the portfolio without blocks, every storage lpK (no boolean options, cost_store = 0, '
     'start level = end level in [0, size]), the reference grid inside [gs, ge) (hypothesis added: without it a machine-checked counterexample) and blocksAligned (the block boundaries of the '
     'unsplit problem are, as a set, the cuts and the block boundaries recomputed on the interval grids - the condition the correspondence evaluates on every case): the split set-up succeeds, '
     'the witness of EAO.C14 holds against the unsplit problem along the explicit matching, feasible sets, values and upper bounds of split and unsplit agree'),
]

GRIDS = [('h', 'h', pd.Timedelta(hours=1)), ('2h', 'h', pd.Timedelta(hours=2))]
BLOCK_SIZES = ['1h', '2h', '3h', '4h', '6h', '90min', '30min', '5h', '8h', '150min']


def tick_s(bs):
    return int(pd.Timedelta(bs).total_seconds())


# ------------------------------------------------------------------------------------------ generator
def gen_case(rnd, stream=None):
    case = ss.gen_case(rnd, stream='lp')
    case['stream'] = 'blocks'
    g = case['grid']
    step = g['step_s']
    focus = rnd.random()
    for a in case['assets']:
        if a['type'] != 'Storage':
            continue
        args = a['args']
        if rnd.random() < 0.9:
            if focus < 0.35:
                # block sizes at most two steps / not a multiple of the step: aligned cases
                args['block_size'] = rnd.choice(['%dmin' % (step // 60), '%dmin' % (step // 120), '%dmin' % (3 * step // 120)])
            else:
                args['block_size'] = rnd.choice(BLOCK_SIZES)
        if rnd.random() < 0.75:       # start level = end level
            lvl = args.get('start_level', 0.)
            args['end_level'] = lvl
            if lvl == 0.:
                args.pop('end_level')
                args.pop('start_level', None)
        args.pop('cost_store', None) if rnd.random() < 0.8 else None
        if focus < 0.5 and 'start' not in args and 'end' not in args and rnd.random() < 0.5:
            # own start = start of the horizon: the blocks of every interval are anchored at the same instant
            gen.put_window(args, ('start_only', gen.P(g, 0), None))
    return case


# ------------------------------------------------------------------------------------------ implementation side
def run_impl(case):
    return sb.run_impl(case)


def asset_json(a, spec, tz):
    if a['type'] == 'Storage':
        bs = a['args'].get('block_size')
        return {'kind': 'storage', 'params': st.params_json(a, None), 'block_s': None if bs is None else tick_s(bs),
                'start': None if spec['start'] == -sb.FAR else spec['start'],
                'stop': None if spec['stop'] == sb.FAR else spec['stop'], 'df': spec['df']}
    return sb.asset_json(a, spec, tz)


def request(case, impl_result=None):
    r = impl_result if impl_result is not None else run_impl(case)
    tz = case['grid'].get('tz')
    return {'op': 'block_split', 'grid': r['grid'], 'start': r['cuts'][0], 'end': r['cuts'][-1], 'cuts': r['cuts'],
            'prices': prices_json(case['prices']), 'unitSec': unit_sec(case['grid'].get('unit', 'h')),
            'skip': list(case.get('skip', [])),
            'assets': [asset_json(a, s, tz) for a, s in zip(case['assets'], r['specs'])]}


def is_exact(case, req):
    return sb.is_exact(case, req)


def compare(case, impl_result, model_result, req=None):
    req = req or request(case, impl_result)
    return sb.compare(case, impl_result, model_result, req)


# ------------------------------------------------------------------------------------------ oracles
def _values(impl_result):
    """(sum of interval optima, unsplit optimum) of the real LPs, or None"""
    op, sop = impl_result.get('_op'), impl_result.get('_sop')
    if op is None or sop is None or len(op.c) == 0:
        return None
    sols = ss._solve_intervals(sop)
    if sols is None:
        return None
    with Quiet():
        res = op.optimize()
    if isinstance(res, str):
        return (sum(s[1] for s in sols), None)
    return (sum(s[1] for s in sols), float(res.value))


def oracle(case, impl_result, model_result=None, drv=None):
    viol = []
    if model_result is None or 'ok' not in model_result:
        return viol
    m = model_result['ok']
    facts = {'stream': case['stream']}
    if 'witness' not in m:
        return viol
    claim = bool(m.get('hyps0')) and bool(m.get('lpk')) and bool(m.get('aligned'))
    if claim and not m['witness']:
        viol.append({'oracle': 'aligned_witness', 'facts': facts,
                     'detail': 'hyps0, lpk, aligned but the witness is false: %s; boundaries unsplit %s split %s' % (
                         m.get('reason'), m.get('blocks_unsplit'), m.get('blocks_split'))})
    op = impl_result.get('_op')
    if op is None or ('bool' in op.mapping.columns and bool(op.mapping['bool'].fillna(False).astype(bool).any())):
        return viol
    if m['witness']:
        v = _values(impl_result)
        if v is None:
            impl_result['_lp'] = 'unsolved'
            return viol
        impl_result['_lp'] = 'checked'
        tot, uns = v
        if uns is None:
            viol.append({'oracle': 'split_equals_unsplit', 'facts': facts, 'detail': 'witness true, interval LPs solved, the unsplit LP is not'})
        elif abs(tot - uns) > VALUE_TOL * max(1.0, abs(uns)):
            viol.append({'oracle': 'split_equals_unsplit', 'facts': dict(facts, split=tot, unsplit=uns),
                         'detail': 'witness true: sum of the interval optima %r differs from the unsplit optimum %r' % (tot, uns)})
    elif bool(m.get('hyps0')) and bool(m.get('lpk')) and not m.get('aligned'):
        v = _values(impl_result)
        if v is not None and v[1] is not None:
            tot, uns = v
            d = tot - uns
            impl_result['_misaligned'] = 'equal' if abs(d) <= VALUE_TOL * max(1.0, abs(uns)) else ('higher' if d > 0 else 'lower')
    return viol


# ------------------------------------------------------------------------------------------ self test
SCRATCH_MAIN = ss.SCRATCH_MAIN.replace('import EAO.Driver.SplitStorage', 'import EAO.Driver.SplitStorage\nimport EAO.Driver.BlockSplit') \
    .replace('handleSplitStorage]', 'handleSplitStorage, handleBlockSplit]')


class ScratchDriver(sb.ScratchDriver):
    """development driver: interprets a scratch Main.lean with the handler `handleBlockSplit` (needs
    `lake build EAO.Driver.BlockSplit`), or runs a compiled driver binary given as `main`"""

    def __init__(self, main=None):
        tmp = None
        if main is None:
            tmp = tempfile.mkdtemp(prefix='blocksplit_drv_')
            main = os.path.join(tmp, 'Main.lean')
            with open(main, 'w') as f:
                f.write(SCRATCH_MAIN)
        sb.ScratchDriver.__init__(self, main)
        self._tmp = tmp


def selftest(n, seed, drv, verbose=False, stream=None):
    rnd = random.Random(seed)
    keys = ('cases', 'with_blocks', 'unsplit_ok', 'split_ok', 'both_error', 'exact', 'intervals', 'hyps0', 'lpk', 'aligned',
            'claim', 'witness_true', 'witness_false', 'aligned_nontrivial', 'lp_checked', 'misaligned_higher',
            'misaligned_lower', 'misaligned_equal', 'disagreements', 'violations')
    c = {k: 0 for k in keys}
    c['harness_errors'] = 0
    dis, viol = [], []
    for i in range(n):
        case = gen_case(random.Random(rnd.getrandbits(48)), stream=stream)
        try:
            r = run_impl(case)
            req = request(case, r)
            mres = drv.ask(req)
            d = compare(case, r, mres, req)
            v = oracle(case, r, mres, drv)
        except Exception:
            c['harness_errors'] += 1
            dis.append({'case': case, 'detail': 'harness error %s' % traceback.format_exc()[-800:]})
            continue
        m = mres.get('ok', {})
        c['cases'] += 1
        c['with_blocks'] += int(any(a['type'] == 'Storage' and 'block_size' in a['args'] for a in case['assets']))
        c['unsplit_ok'] += int('problem' in r['unsplit'])
        c['split_ok'] += int('intervals' in r['split'])
        c['both_error'] += int('error' in r['unsplit'] and 'error' in r['split'])
        c['intervals'] += len(r['split'].get('intervals', []))
        c['exact'] += int(is_exact(case, req))
        for k in ('hyps0', 'lpk', 'aligned'):
            c[k] += int(bool(m.get(k)))
        claim = bool(m.get('hyps0')) and bool(m.get('lpk')) and bool(m.get('aligned')) and 'witness' in m
        c['claim'] += int(claim)
        if claim and len(r['split'].get('intervals', [])) > 1 and any(b and len(b) > 2 for b in m.get('blocks_unsplit', [])):
            c['aligned_nontrivial'] += 1
        if 'witness' in m:
            c['witness_true' if m['witness'] else 'witness_false'] += 1
        c['lp_checked'] += int(r.get('_lp') == 'checked')
        if '_misaligned' in r:
            c['misaligned_' + r['_misaligned']] += 1
        c['disagreements'] += int(bool(d))
        c['violations'] += int(bool(v))
        for x in d:
            dis.append({'case': case, 'detail': x})
            if verbose:
                print('DISAGREE', x[:300])
        for x in v:
            x['case'] = case
            viol.append(x)
            if verbose:
                print('VIOLATION', x['detail'][:300])
    return {'counts': c, 'disagreements': dis, 'violations': viol}


if __name__ == '__main__':
    import warnings
    warnings.filterwarnings('ignore')
    n = int(sys.argv[1]) if len(sys.argv) > 1 else 100
    seed = int(sys.argv[2]) if len(sys.argv) > 2 else 0
    drv = ScratchDriver()
    try:
        r = selftest(n, seed, drv, verbose=True)
    finally:
        drv.close()
    print(json.dumps(r['counts']))
    print('disagreements', len(r['disagreements']), 'violations', len(r['violations']))
    for d in r['disagreements'][:5]:
        print('--', d['detail'][:600])
        print('   ', json.dumps(d['case'])[:2000])
    for v in r['violations'][:5]:
        print('**', v['oracle'], v['detail'][:600])
        print('   ', json.dumps(v.get('case'))[:2000])
