"""C04 (value accounting): generator streams that widen what the property's own check explores, and the oracle of the property
in a form that knows about empty (NaN) cells of the DCF table.

Streams (plain scenarios of harness.scen, drawn from one random.Random each):
  gen_discounted_books   portfolios of the generic generator on grids whose horizon is long enough for discounting to show
                         (half-day to weekly steps, besides hourly ones) in which every order book DISCOUNTS its cash flows
                         (wacc in 0.05 .. 1.0, the node's market with the same, another or no wacc) and whose orders are priced
                         against the market of their node (mostly attractive, i.e. executed; some not)
  gen_scaled_windows     scaled assets that pay fixed costs for their size (fix_costs != 0, profitable base and/or min_scale > 0)
                         and have a window of their OWN (start after the first grid step, end before the last, both, off the grid
                         points, ...), over a base with or without a window, directly in the portfolio or wrapped in a
                         structured asset that has a window itself

Oracle:
  orc_value_accounting   reported value = sum of the DCF table = what `out['DCF'].sum().sum()` gives (pandas skips empty cells);
                         per asset: column total = - c_a . x_a;  and no empty / non-finite cell inside an asset's own window
"""
import numpy as np
import pandas as pd

from .. import gen, scen

D = pd.Timedelta(days=1)
Hh = pd.Timedelta(hours=1)

# (freq, main time unit, step): day-scale grids on which a wacc of a few percent moves the value by far more than the tolerance,
# and two hourly ones (a large wacc shows there, too)
BOOK_GRIDS = [
    ('d', 'd', D), ('d', 'd', D), ('d', 'h', D), ('2d', 'd', 2 * D), ('7d', 'd', 7 * D), ('12h', 'd', 12 * Hh), ('12h', 'h', 12 * Hh),
    ('6h', 'd', 6 * Hh), ('h', 'h', Hh), ('4h', 'h', 4 * Hh),
]
BOOK_WACC = [0.05, 0.1, 0.5, 1.0]


# ------------------------------------------------------------------ stream 1: order books that discount
def _steps_of(g, s, e):
    """grid steps whose start lies in [s, e) (naive local times, as the order book reads its orders)"""
    pts = [pd.Timestamp(p) for p in g['_pts'][:-1]]
    return [i for i, p in enumerate(pts) if s <= p < e]


def _market_of(assets):
    """node -> price key of the first unrestricted market contract at that node"""
    out = {}
    for a in assets:
        if a['type'] == 'SimpleContract' and a['name'].startswith('mkt') and isinstance(a['args'].get('price'), str):
            out.setdefault(a['nodes'][0], a)
    return out


def gen_book(rnd, g, prices, name, node, mkt_key):
    """order book whose orders are priced against the market price of their delivery period"""
    T = g['T_nominal']
    step = pd.Timedelta(seconds=g['step_s'])
    ss, ee, cc, pp = [], [], [], []
    for _ in range(rnd.randint(1, 5)):
        k = rnd.choice(['inside', 'inside', 'inside', 'late', 'late', 'straddle_start', 'straddle_end', 'whole', 'outside_after', 'offgrid'])
        a = rnd.randint(0, max(0, T - 1))
        b = rnd.randint(a + 1, T)
        if k == 'inside':
            s, e = gen.P(g, a), gen.P(g, b)
        elif k == 'late':                   # delivery at the end of the horizon: the largest discount
            a = rnd.randint(max(0, T - 3), T - 1)
            s, e = gen.P(g, a), gen.P(g, T)
        elif k == 'straddle_start':
            s, e = gen.P(g, -3), gen.P(g, b)
        elif k == 'straddle_end':
            s, e = gen.P(g, a), gen.P(g, T + 3)
        elif k == 'whole':
            s, e = gen.P(g, 0), gen.P(g, T)
        elif k == 'outside_after':
            s, e = gen.P(g, T + 1), gen.P(g, T + 4)
        else:
            s, e = gen.P(g, a) + step / 2, gen.P(g, b) + step / 2
        if not (gen.ok_local(s, g) and gen.ok_local(e, g)):
            s, e = gen.P(g, 0), gen.P(g, T)
        sign = rnd.choice([-1, 1])
        st = _steps_of(g, s, e)
        if mkt_key is not None and st:
            ref = sum(prices[mkt_key][i] for i in st) / len(st)
            ref = round(ref * 8) / 8.0
            margin = gen.q8(rnd, 1.25, 6)
            attractive = rnd.random() < 0.75
            # capa > 0: bought from the book at its price (worth it below the market); capa < 0: sold to the book
            price = ref - sign * margin if attractive else ref + sign * margin
        else:
            price = gen.q8(rnd, -2, 15)
        ss.append(gen.dtv(s))
        ee.append(gen.dtv(e))
        cc.append(sign * gen.q8(rnd, 0.25, 4))
        pp.append(price)
    args = {'orders': {'start': ss, 'end': ee, 'capa': cc, 'price': pp}, 'wacc': rnd.choice(BOOK_WACC)}
    if rnd.random() < 0.2:
        args['full_exec'] = True
    return {'type': 'OrderBook', 'name': name, 'nodes': [node], 'args': args}


def gen_discounted_books(rnd, tmax=12):
    s = gen.gen_portfolio(rnd, kinds=['orderbook', 'orderbook', 'simple', 'contract', 'storage', 'transport', 'multi', 'scaled', 'structured'],
                          tmax=tmax, tmin=3, tz_prob=0.1, max_assets=4, grids=BOOK_GRIDS, market_prob=1.0)
    g, prices = s['grid'], s['prices']
    mkts = _market_of(s['assets'])
    outer = [n for n in s['nodes'] if n in mkts]
    books = [i for i, a in enumerate(s['assets']) if a['type'] == 'OrderBook']
    if not books:
        s['assets'].insert(rnd.randint(0, len(s['assets'])), {'type': 'OrderBook', 'name': 'ob0', 'nodes': [rnd.choice(outer)], 'args': {}})
        books = [i for i, a in enumerate(s['assets']) if a['type'] == 'OrderBook']
    for i in books:
        old = s['assets'][i]
        node = old['nodes'][0]
        if rnd.random() < 0.8:
            # orders drawn against the node's market
            s['assets'][i] = gen_book(rnd, g, prices, old['name'], node, mkts[node]['args']['price'] if node in mkts else None)
        else:
            # the orders of the generic generator, discounted
            if 'orders' not in old['args']:
                old['args']['orders'] = gen.gen_orderbook(rnd, g, prices, None, old['name'], node)['args']['orders']
            old['args']['wacc'] = rnd.choice(BOOK_WACC)
        w = s['assets'][i]['args']['wacc']
        # the market at the node: same wacc, another one, none
        if node in mkts and 'wacc' not in mkts[node]['args']:
            r = rnd.random()
            if r < 0.5:
                mkts[node]['args']['wacc'] = w
            elif r < 0.7:
                mkts[node]['args']['wacc'] = rnd.choice(BOOK_WACC)
    s['stream'] = 'discounted-books'
    return s


# ------------------------------------------------------------------ stream 2: scaled assets with an own window and fixed costs
OWN_WINDOWS = ['inside', 'inside', 'start_only', 'start_only', 'start_only', 'straddle_end', 'offgrid', 'end_only', 'covering', 'equal',
               'straddle_start']


def _late_window(rnd, g, kinds=None):
    """a window from gen.window; 'inside' / 'start_only' / 'straddle_end' / 'offgrid' start after the first grid step in most draws"""
    for _ in range(3):
        w = gen.window(rnd, g, kinds=kinds or OWN_WINDOWS)
        k, s, e = w
        if s is None or k not in ('inside', 'start_only', 'straddle_end', 'offgrid') or pd.Timestamp(s) > gen.P(g, 0):
            return w
    return w


def _shifted_key(rnd, prices, key, lo, hi, sign):
    """a new price series = series `key` shifted step by step by sign * (random margin in [lo, hi])"""
    k = 'p%d' % len(prices)
    prices[k] = [v + sign * gen.q8(rnd, lo, hi) for v in prices[key]]
    return k


def gen_profitable_base(rnd, g, prices, T, name, node_names, mkt):
    """a base asset that earns money against the markets (so that a positive size pays its fixed costs), or a generic one"""
    node = rnd.choice(node_names)
    kind = rnd.choice(['source', 'source', 'sink', 'storage', 'transport', 'contract', 'generic'])
    if kind == 'source':       # produces below the market price
        args = {'min_cap': 0.0, 'max_cap': gen.q8(rnd, 1, 6), 'price': _shifted_key(rnd, prices, mkt[node], 0.5, 8, -1)}
        if rnd.random() < 0.3:
            args['extra_costs'] = gen.q8(rnd, 0.125, 0.5)
        return kind, {'type': 'SimpleContract', 'name': name, 'nodes': [node], 'args': args}
    if kind == 'sink':         # a customer paying more than the market
        args = {'min_cap': -gen.q8(rnd, 1, 6), 'max_cap': 0.0, 'price': _shifted_key(rnd, prices, mkt[node], 0.5, 8, +1)}
        return kind, {'type': 'SimpleContract', 'name': name, 'nodes': [node], 'args': args}
    if kind == 'storage':
        a = gen.gen_storage(rnd, g, prices, T, name, [node], False, False)
        a['args'].pop('inflow', None)
        if 'start_level' in a['args']:
            a['args']['start_level'] = a['args']['end_level'] = 0.0
        return kind, a
    if kind == 'transport' and len(node_names) >= 2:
        two = rnd.sample(node_names, 2)
        # from the cheaper to the dearer market
        m0, m1 = (sum(prices[mkt[n]]) for n in two)
        if m0 > m1:
            two.reverse()
        args = {'min_cap': 0.0, 'max_cap': gen.q8(rnd, 0.5, 6)}
        if rnd.random() < 0.5:
            args['costs_const'] = gen.q8(rnd, 0, 0.5)
        if rnd.random() < 0.4:
            args['efficiency'] = rnd.choice([0.875, 1.0, 0.75])
        return kind, {'type': 'Transport', 'name': name, 'nodes': two, 'args': args}
    if kind == 'contract':
        args = {'min_cap': 0.0, 'max_cap': gen.q8(rnd, 1, 6), 'price': _shifted_key(rnd, prices, mkt[node], 0.5, 8, -1),
                'max_take': gen.take_dict(rnd, g, 2, 30)}
        return kind, {'type': 'Contract', 'name': name, 'nodes': [node], 'args': args}
    return 'generic', gen.gen_simple_contract(rnd, g, prices, T, name, node)


def gen_windowed_scaled(rnd, g, prices, T, name, node_names, mkt, own_window=None):
    kind, base = gen_profitable_base(rnd, g, prices, T, name + '_b', node_names, mkt)
    if rnd.random() < 0.3:
        gen.put_window(base['args'], gen.window(rnd, g))
    sargs = {'min_scale': rnd.choice([0.0, 0.0, 0.0, 0.5, 1.0]), 'max_scale': rnd.choice([1.0, 2.0, 4.0]),
             'norm_scale': rnd.choice([1.0, 2.0, 0.5]),
             'fix_costs': gen.q8(rnd, 0.125, 2) if rnd.random() < 0.9 else 0.0}
    if own_window is None:
        own_window = rnd.random() < 0.8
    wk = 'none'
    if own_window:
        wk = gen.put_window(sargs, _late_window(rnd, g))
    if rnd.random() < 0.2:
        w = rnd.choice([0.05, 0.1, 0.5])
        sargs['wacc'] = w
        base['args']['wacc'] = w
    return {'type': 'ScaledAsset', 'name': name, 'base': base, 'args': sargs, '_base_kind': kind, '_own_window': wk}


def gen_scaled_windows(rnd, tmax=12):
    g = gen.gen_grid(rnd, tmin=3, tmax=tmax, tz_prob=0.1)
    T = scen.make_grid(g).T
    prices = {}
    nn = rnd.randint(1, 2)
    node_names = ['N%d' % i for i in range(1, nn + 1)]
    assets, mkt, extra_nodes = [], {}, []
    for n in node_names:
        key = 'p%d' % len(prices)
        prices[key] = [gen.q8(rnd, 2, 20) for _ in range(T)]
        mkt[n] = key
        a = {'type': 'SimpleContract', 'name': 'mkt_' + n, 'nodes': [n], 'args': {'min_cap': -40.0, 'max_cap': 40.0, 'price': key}}
        if rnd.random() < 0.2:
            a['args']['extra_costs'] = gen.q8(rnd, 0.125, 0.5)
        assets.append(a)
    for j in range(rnd.randint(1, 2)):
        nm = 'sca%d' % j
        if rnd.random() < 0.6:
            new = gen_windowed_scaled(rnd, g, prices, T, nm, node_names, mkt)
        else:
            # wrapped in a structured asset that has a window itself; the scaled asset at the external node or behind a free
            # transport at an internal node, next to another wrapped asset
            sa = 'sa%d' % j
            ext = rnd.choice(node_names)
            sargs = {}
            has_w = rnd.random() < 0.8
            if has_w:
                gen.put_window(sargs, _late_window(rnd, g, kinds=['inside', 'start_only', 'start_only', 'straddle_end', 'offgrid', 'end_only']))
            sc = gen_windowed_scaled(rnd, g, prices, T, nm, [ext], {ext: mkt[ext]}, own_window=(rnd.random() < 0.4) if has_w else True)
            inner, inner_nodes = [], []
            if rnd.random() < 0.5 and sc['base']['type'] != 'Transport':
                ni = sa + '_i1'
                inner_nodes.append(ni)
                sc['base']['nodes'] = [ni]
                inner.append({'type': 'Transport', 'name': sa + '_tr', 'nodes': [ni, ext],
                              'args': {'min_cap': -40.0, 'max_cap': 40.0}})
            inner.insert(rnd.randint(0, len(inner)), sc)
            if rnd.random() < 0.5:
                inner.append(gen.gen_simple_contract(rnd, g, prices, T, sa + '_c', rnd.choice(inner_nodes + [ext])))
            new = {'type': 'StructuredAsset', 'name': sa, 'nodes': [ext], 'inner': inner, 'args': sargs, 'inner_nodes': inner_nodes}
            extra_nodes += inner_nodes
        assets.insert(rnd.randint(0, len(assets)), new)
    for j in range(rnd.choice([0, 0, 1, 2])):
        k = rnd.choice(['simple', 'storage', 'contract'])
        node = rnd.choice(node_names)
        if k == 'simple':
            a = gen.gen_simple_contract(rnd, g, prices, T, 'x%d' % j, node)
        elif k == 'contract':
            a = gen.gen_contract(rnd, g, prices, T, 'x%d' % j, node)
        else:
            a = gen.gen_storage(rnd, g, prices, T, 'x%d' % j, [node], False, False)
        if rnd.random() < 0.4:
            gen.put_window(a['args'], gen.window(rnd, g))
        assets.append(a)
    return {'grid': g, 'nodes': node_names + extra_nodes, 'prices': prices, 'assets': assets, 'stream': 'scaled-windows'}


# ------------------------------------------------------------------ what a solved case of the two streams exercised
def _localized(ts, tz):
    ts = pd.Timestamp(ts)
    if ts.tzinfo is None and tz is not None:
        ts = ts.tz_localize(tz)
    return ts


def own_window_mask(asset, times, tz):
    """boolean array over the rows of the DCF table: the steps inside the asset's own start/end (all, if it has none)"""
    m = np.ones(len(times), dtype=bool)
    try:
        if getattr(asset, 'start', None) is not None:
            m &= np.asarray(times >= _localized(asset.start, tz))
        if getattr(asset, 'end', None) is not None:
            m &= np.asarray(times < _localized(asset.end, tz))
    except Exception:
        return np.ones(len(times), dtype=bool)
    return m


def features(rec, blocks):
    """features telling whether the solved problem is one in which the streams' point shows:
       an order book with wacc != 0 that executed an order; a scaled asset (also wrapped) that starts after the first grid
       step and pays fixed costs for a positive size"""
    try:
        return _features(rec, blocks)
    except Exception as e:
        return ['c04gen-features-error:' + type(e).__name__]


def _features(rec, blocks):
    import eaopack as eao
    out = set()
    res, op, tg = rec.get('res'), rec['op'], rec['tg']
    if res is None or isinstance(res, str):
        return []
    x = np.asarray(res.x, dtype=float)
    m = op.mapping
    times = tg.timepoints
    for a in rec['portf'].assets:
        if isinstance(a, eao.assets.OrderBook) and a.wacc != 0:
            if any(len(x[lo:hi]) and float(np.max(x[lo:hi])) > 0.5 for lo, hi in blocks.get(a.name, [])):
                out.add('orderbook-with-wacc-executed')
        # scale variables of this (possibly structured) asset: rows of type 'size'
        mm = m[(m['asset'] == a.name) & (m['type'] == 'size')]
        late = not bool(own_window_mask(a, times, tg.tz)[0]) if len(times) else False
        inner_late = False
        if hasattr(a, 'portfolio'):
            inner_late = any(isinstance(b, eao.assets.ScaledAsset) and len(times) and not bool(own_window_mask(b, times, tg.tz)[0])
                             for b in a.portfolio.assets)
        for i in mm.index.unique():
            if abs(op.c[i] * x[i]) > 1e-9:
                out.add('scaled-pays-fixed-costs')
                if late:
                    out.add('own-start-late+fixed-costs-paid' if isinstance(a, eao.assets.ScaledAsset) else 'structured-start-late+wrapped-fixed-costs-paid')
                elif inner_late:
                    out.add('wrapped-scaled-start-late+fixed-costs-paid')
    return sorted(out)


# ------------------------------------------------------------------ the oracle of the property
def own_total(c, x, spec):
    """- c_a . x_a over the variables of one asset; `spec` = list of (lo, hi) ranges and / or index arrays"""
    tot = 0.0
    for part in spec:
        if isinstance(part, tuple):
            lo, hi = part
            tot += -float(np.dot(c[lo:hi], x[lo:hi]))
        else:
            idx = np.asarray(part, dtype=np.int64)
            tot += -float(np.dot(c[idx], x[idx]))
    return tot


def orc_value_accounting(rec, tag='mono', offsets=None):
    """C04: reported value = sum of the DCF table = - c . x; per asset: sum of its column = - c_a . x_a.

    The sum of the table is the one a user gets from `out['DCF'].sum().sum()`: pandas skips empty (NaN) cells.  An empty cell
    outside an asset's own start/end therefore does no harm by itself - but whatever cash flow the asset's variables have
    there is then missing in the sum, which is what the comparisons below see.  Inside an asset's own window every cell
    has to be a number: an empty or infinite cell there is reported (the table does not say what the asset's cash flow is).

    With rec['snap'] (comp/c04read.Snap: copy of x, value and cost vector taken when `optimize` returned, before any read-out)
    x, c and the value are those of the snapshot - the optimal values the statement speaks about -, and the value the result
    object carries now has to be the returned one still.  Without a snapshot the result object is taken as it is."""
    out, res, op = rec['out'], rec['res'], rec['op']
    snap = rec.get('snap')
    x = snap.x if snap is not None else np.asarray(res.x, dtype=float)
    c = snap.c if snap is not None else np.asarray(op.c, dtype=float)
    value = snap.value if snap is not None else float(res.value)
    viol = []
    dcf = out['DCF']
    vals = np.asarray(dcf.values, dtype=float)
    total = float(dcf.sum().sum())
    fin = np.where(np.isfinite(vals), vals, 0.0)
    scale = max(1.0, abs(value), float(np.abs(fin).sum()))
    tol = 1e-6 * scale
    n_empty = int((~np.isfinite(vals)).sum())
    note = (' (%d cells of the table are empty / not finite)' % n_empty) if n_empty else ''
    if not abs(total - value) <= tol:
        viol.append({'oracle': 'value_accounting', 'detail': '%s: reported value %.8g but DCF table sums to %.8g%s' % (tag, value, total, note),
                     'facts': {'mode': tag, 'what': 'total', 'empty_cells': n_empty}})
    sval = float(out['summary'].loc['value', 'Values'])
    if not abs(sval - value) <= tol:
        viol.append({'oracle': 'value_accounting', 'detail': '%s: summary value %.8g vs result value %.8g' % (tag, sval, value),
                     'facts': {'mode': tag, 'what': 'summary'}})
    if snap is not None:
        if not abs(float(res.value) - value) <= tol:
            viol.append({'oracle': 'value_accounting', 'detail': '%s: the result object now carries value %.8g, optimize returned %.8g' % (tag, float(res.value), value),
                         'facts': {'mode': tag, 'what': 'result-value'}})
        cx = -float(np.dot(c, x)) if len(c) == len(x) else float('nan')
        if not abs(cx - value) <= tol:
            viol.append({'oracle': 'value_accounting', 'detail': '%s: reported value %.8g but minus cost times the returned solution is %.8g' % (tag, value, cx),
                         'facts': {'mode': tag, 'what': 'minus-cx'}})
    tg = rec.get('tg')
    tz = getattr(tg, 'tz', None)
    for a in rec['portf'].assets:
        col = np.asarray(dcf[a.name].values, dtype=float)
        if offsets:
            own = own_total(c, x, offsets[a.name])
            got = float(dcf[a.name].sum())
            if not abs(own - got) <= tol:
                viol.append({'oracle': 'value_accounting', 'detail': '%s: asset %s: DCF total %.8g but minus cost of its own variables is %.8g%s' % (
                    tag, a.name, got, own, (' (%d cells of the column are empty / not finite)' % int((~np.isfinite(col)).sum())) if n_empty else ''),
                    'facts': {'mode': tag, 'what': 'asset', 'asset_type': type(a).__name__, 'empty_cells': int((~np.isfinite(col)).sum())}})
        if n_empty:
            inside = own_window_mask(a, dcf.index, tz)
            bad = np.where(~np.isfinite(col) & inside)[0]
            if len(bad):
                viol.append({'oracle': 'value_accounting', 'detail': '%s: asset %s: DCF cell of step %d, inside the asset\'s own window, is %s' % (
                    tag, a.name, int(bad[0]), col[int(bad[0])]),
                    'facts': {'mode': tag, 'what': 'empty-cell', 'asset_type': type(a).__name__}})
    return viol
