"""C05 on a storage OBJECT that is set up more than once, and on storages whose own calendar features do not sit on the horizon.

The streams of `comp/storage.py` / `comp/storageread.py` build fresh objects for every case and set them up on ONE time grid whose
start is the anchor of everything (blocks, coarse steps).  Here the storage (and the portfolio around it) is built ONCE and then
optimised in several STAGES:

* kind 'roll'  - a sequence of horizons (rolling optimisation): equal or different length, shifted by a few grid steps (mostly not
                 by a whole block / coarse step), sometimes the same horizon again; between two stages sometimes another use of
                 the objects (cost samples, asset-level set-up, set_timegrid);
* kind 'split' - one horizon cut into consecutive intervals by `Portfolio.setup_split_optim_problem` (interval size mostly not a
                 multiple of the block size): every interval is a set-up of the same objects on its own grid.

The storage has calendar-tied features that make the POSITION of a horizon matter:
  - time blocks with a calendar anchor ('W' = Sundays, 'MS' = first of the month), plain durations ('d', '2d', '36h', ...: anchored
    at the start of the storage's restricted grid = its own start when given, else the horizon start), on grids with and without
    a time zone (daylight-saving changes inside the horizons);
  - an own window [start, end) that is fixed in the calendar while the horizon moves: starting before / inside, ending inside /
    beyond the horizon;
  - an own, coarser frequency (freq) whose coarse steps are cut from the storage's own start: with an own start before the horizon
    (or an own end beyond it) the first (last) coarse step is covered by the horizon only IN PART.

Oracle = C05's own statement, per stage (per interval of a split), on the real code alone.  From the solution vector, the dispatch
rows of the storage in the mapping (variable -> step, node, factor: what the variable moves at the node) and the storage's
PARAMETERS: charge / discharge per grid step, physical level = start level + eff x charged - discharged + inflow x step length
(step lengths recomputed from the time points) must
    storage.window        be zero outside the storage's own window
    storage.level_bounds  stay within [0, size] at every step
    storage.end_level     equal the end level at the last active step (of every interval of a split)
    storage.block_end     equal the end level at the last step of every time block (block positions: the pandas expression of the
                          code evaluated on FRESH grid objects - an input, as in comp/storage.py)
    storage.rates         charge <= cap_in x dt, discharge <= cap_out x dt per step
    storage.reported      fill level / charge / discharge columns of io.extract_output, Storage.fill_level and the storage's
                          dispatch column(s) equal those physical series
No statement is made on the reported fill level of a split problem whose storage has start level != end level (every interval
restarts at the start level: finding F-14b of C14) - noted as feature, the per-interval statements are still checked.
"""
import copy
import random
from fractions import Fraction

import numpy as np
import pandas as pd

import eaopack as eao
from .. import scen
from ..impl import Quiet, err_class, mapping_rows
from .common import instant
from . import storage as ST

NAME = 'storeseq'

H = pd.Timedelta(hours=1)
FAMILIES = {
    'd': dict(step=24 * H, units=['d', 'h'], T=(9, 24), blocks=['W', 'W', 'W', 'MS', '2d', '3d', '7d', '5d'],
              coarse=['2d', '3d', '7d', 'W'], split=['10d', '5d', '3d', '4d', 'W', '8d', '6d']),
    '12h': dict(step=12 * H, units=['h', 'd'], T=(10, 36), blocks=['d', 'W', 'W', '2d', '36h', '3d'],
                coarse=['d', '2d', '36h'], split=['3d', '5d', '60h', 'W', '2d', '84h']),
    '6h': dict(step=6 * H, units=['h', 'd'], T=(12, 40), blocks=['d', 'd', '12h', '2d', '18h', 'W'],
               coarse=['12h', 'd', '2d', '18h'], split=['30h', '2d', '3d', 'd', '42h']),
    'h': dict(step=H, units=['h', 'd', 'min'], T=(18, 56), blocks=['d', 'd', '12h', '8h', '6h', '5h'],
              coarse=['d', 'd', '12h', '6h', '4h', '8h'], split=['18h', 'd', '30h', '10h', '20h']),
}
ANCHORED = ('W', 'MS')
# (tz, naive local midnight shortly before a clock change)
DST = [('CET', '2021-03-2%d'), ('CET', '2021-10-2%d'), ('US/Eastern', '2021-03-0%d'), ('US/Eastern', '2021-11-0%d'),
       ('Europe/Berlin', '2022-03-2%d'), ('Europe/Berlin', '2022-10-2%d')]


def q8(rnd, lo, hi):
    return rnd.randint(int(lo * 8), int(hi * 8)) / 8.0


def iso(ts):
    return pd.Timestamp(ts).strftime('%Y-%m-%dT%H:%M:%S')


def td(freq):
    try:
        return pd.Timedelta(1, freq)
    except Exception:
        return pd.Timedelta(freq)


def _local_ok(ts, tz):
    if tz is None:
        return True
    try:
        pd.Timestamp(ts).tz_localize(tz)
        return True
    except Exception:
        return False


def _real_T(g):
    return int(scen.make_grid(g).T)


# ------------------------------------------------------------------ generator
def gen_case(rnd, kind=None, want=None):
    """want: None | 'blocks' | 'coarse' - which calendar feature the storage certainly has (else drawn)"""
    fine = rnd.choice(['d', 'd', 'd', '12h', '6h', '6h', 'h', 'h'])
    fam = FAMILIES[fine]
    step = fam['step']
    unit = rnd.choice(fam['units'])
    step_u = step / pd.Timedelta(1, unit)
    kind = kind or rnd.choice(['roll', 'roll', 'roll', 'split'])
    want = want or rnd.choice(['blocks', 'blocks', 'blocks', 'coarse', 'coarse', 'window'])
    # --- time zone and base date
    tz = None
    base = pd.Timestamp('2024-01-01') + rnd.randint(0, 40) * 24 * H          # any weekday, sometimes near a month start
    if rnd.random() < 0.35:
        tz, pat = rnd.choice(DST)
        base = pd.Timestamp(pat % rnd.randint(1, 8)) if rnd.random() < 0.7 else base
        if rnd.random() < 0.2:
            tz = 'UTC'
    if fine != 'd':
        base = base + rnd.choice([0, 0, 0, 6, 12, 18]) * H
    T = rnd.randint(*fam['T'])
    if kind == 'split':
        T = min(int(T * 1.4), fam['T'][1] + 8)
    # --- the storage
    args = {}
    two = rnd.random() < 0.2
    nodes = ['n1', 'n2'] if two else ['n1']
    size = q8(rnd, 2, 12)
    args['size'] = size

    def per_unit(v):
        return v / step_u

    args['cap_in'] = per_unit(q8(rnd, 0.5, 4))
    args['cap_out'] = per_unit(q8(rnd, 0.5, 4))
    r = rnd.random()
    if r < 0.3:
        lvl = rnd.choice([0.0, q8(rnd, 0, size), q8(rnd, 0, size)])
        args['start_level'] = lvl
        args['end_level'] = lvl
    elif r < 0.85:
        args['start_level'] = q8(rnd, 0, size)
        args['end_level'] = q8(rnd, 0, size)
    if kind == 'split' and rnd.random() < 0.6 and 'start_level' in args:
        args['end_level'] = args['start_level']                                 # the physically meaningful split
    if rnd.random() < 0.35:
        args['eff_in'] = rnd.choice([0.5, 0.75, 0.875, 1.0])
    if rnd.random() < 0.2:
        args['cost_in'] = q8(rnd, 0, 1)
    if rnd.random() < 0.2:
        args['cost_out'] = q8(rnd, 0, 1)
    if rnd.random() < 0.3:
        args['inflow'] = per_unit(q8(rnd, 0, 0.75))
    m = 1                                                                      # grid steps per block / coarse step (nominal)
    if want == 'blocks':
        bs = rnd.choice(fam['blocks'])
        args['block_size'] = bs
        m = max(1, int(round(td(bs if bs != 'MS' else '30d') / step)))
    elif want == 'coarse':
        fr = rnd.choice(fam['coarse'])
        args['freq'] = fr
        m = max(1, int(round(td(fr) / step)))
        if rnd.random() < 0.1:
            args['block_size'] = rnd.choice(['W', '2d', '4d']) if fine == 'd' else rnd.choice(['d', '2d'])
    else:
        m = rnd.randint(2, 6)
    mm = min(m, max(2, T // 2))
    # --- own window, fixed in the calendar
    wmode = rnd.choice({'blocks': ['none', 'none', 'none', 'start-before', 'start-before', 'start-inside', 'end-inside', 'both'],
                        'coarse': ['start-before', 'start-before', 'start-before', 'both', 'both', 'end-beyond', 'none', 'start-inside'],
                        'window': ['start-before', 'start-inside', 'end-inside', 'end-beyond', 'both', 'both']}[want])
    if args.get('block_size') in ANCHORED and rnd.random() < 0.6:
        wmode = 'none'
    own_start = own_end = None
    if wmode in ('start-before', 'both'):
        own_start = base - rnd.randint(0, 2 * mm) * step
    elif wmode == 'start-inside':
        own_start = base + rnd.randint(1, max(1, T // 3)) * step
    if 'freq' in args and own_start is not None and rnd.random() < 0.25:
        own_start = own_start - step / 2 if fine != 'h' else own_start - pd.Timedelta(minutes=30)   # cuts off the grid points
    # --- stages
    stages = []
    if kind == 'roll':
        K = rnd.choice([2, 2, 3, 3, 4])
        off = 0
        offs = [0]
        for i in range(1, K):
            q = rnd.random()
            if q < 0.1:
                pass                                                          # the same horizon again
            elif q < 0.2 and i >= 2:
                off = offs[rnd.randrange(len(offs))]                          # back to an earlier one
            elif q < 0.35:
                off += mm * rnd.randint(1, 2)                                 # by whole blocks
            else:
                off += rnd.randint(1, max(2, 2 * mm - 1))
            offs.append(off)
        for i, off in enumerate(offs):
            Ti = T if rnd.random() < 0.75 else max(3, T + rnd.randint(-3, 3))
            stages.append({'off': off, 'T': Ti})
    else:
        stages.append({'off': 0, 'T': T})
    last_end = base + max(s_['off'] + s_['T'] for s_ in stages) * step
    if wmode in ('end-beyond', 'both') and rnd.random() < 0.7 or wmode == 'end-beyond':
        anchor = own_start if own_start is not None else base
        k = int(np.ceil((last_end - anchor) / (m * step))) + rnd.randint(0, 1)
        own_end = anchor + k * m * step                                       # a whole number of coarse steps / blocks from the own start
        if rnd.random() < 0.3:
            own_end = last_end + rnd.randint(1, 2 * mm) * step
    elif wmode in ('end-inside', 'both'):
        own_end = base + rnd.randint(max(2, T // 2), max(3, T - 1)) * step
    if own_start is not None and _local_ok(own_start, tz):
        args['start'] = {'$dt': iso(own_start)}
    if own_end is not None and _local_ok(own_end, tz) and (own_start is None or own_end > own_start):
        args['end'] = {'$dt': iso(own_end)}
    # --- grids and prices of the stages
    keys = ['m_' + n for n in nodes]
    if rnd.random() < 0.15:
        args['price'] = 'p_sto'
        keys.append('p_sto')
    extra = rnd.random() < 0.3
    if extra:
        keys.append('x_0')
    out_stages = []
    for st_ in stages:
        s = base + st_['off'] * step
        e = s + st_['T'] * step
        for _ in range(4):
            if _local_ok(s, tz) and _local_ok(e, tz):
                break
            s, e = s + step, e + step
        g = {'start': iso(s), 'end': iso(e), 'freq': fine, 'unit': unit, 'tz': tz}
        try:
            Tr = _real_T(g)
        except Exception:
            g['tz'] = None
            Tr = _real_T(g)
        lo = -3 if rnd.random() < 0.2 else 1
        level = rnd.choice([0, 0, 4, 8])
        prices = {}
        for k_ in keys:
            if k_ == 'p_sto':
                prices[k_] = [q8(rnd, 0, 2) for _ in range(Tr)]
            else:
                prices[k_] = [level * ((t // max(1, mm)) % 2) + q8(rnd, lo, 14) for t in range(Tr)]
        stg = {'grid': g, 'prices': prices, 'touch': rnd.choice(['none', 'none', 'none', 'cost_samples', 'asset_setup', 'set_timegrid']),
               'pform': rnd.choice(['arrays', 'arrays', 'frame'])}
        if kind == 'split':
            stg['interval'] = rnd.choice(fam['split'])
        out_stages.append(stg)
    market = {n: {'price': 'm_' + n, 'cap': per_unit(64.0)} for n in nodes}
    case = {'kind': kind, 'want': want, 'wmode': wmode, 'nodes': nodes, 'name': rnd.choice(['sto', 'sto', 's 1', '7']), 'args': args,
            'market': market, 'extra': ({'price': 'x_0', 'node': rnd.choice(nodes), 'cap': per_unit(q8(rnd, 0.25, 2))} if extra else None),
            'order': rnd.choice(['first', 'last', 'middle']), 'stages': out_stages, 'steps_per_block': m}
    return case


def features(case):
    a = case['args']
    f = ['kind:' + case['kind'], 'want:' + case['want'], 'window:' + case['wmode'], 'stages:%d' % len(case['stages']),
         'nodes:%d' % len(case['nodes']), 'unit:%s/%s' % (case['stages'][0]['grid']['freq'], case['stages'][0]['grid']['unit'])]
    for k in ('eff_in', 'cost_in', 'cost_out', 'inflow', 'price', 'block_size', 'freq'):
        if k in a and a[k] not in (None, False):
            f.append(k if k not in ('block_size', 'freq') else '%s:%s' % (k, a[k]))
    if a.get('block_size') in ANCHORED:
        f.append('blocks:calendar-anchored')
    elif 'block_size' in a:
        f.append('blocks:anchored-at-' + ('own-start' if 'start' in a else 'horizon-start'))
    if a.get('start_level', 0.) != a.get('end_level', 0.):
        f.append('start!=end')
    if case['stages'][0]['grid'].get('tz'):
        f.append('tz')
    return f


# ------------------------------------------------------------------ the real objects (built ONCE per case)
def build(case):
    nodes = {n: eao.Node(n) for n in case['nodes']}
    args = scen.dec(copy.deepcopy(case['args']))
    nn = [nodes[n] for n in case['nodes']]
    a = eao.assets.Storage(name=case['name'], nodes=nn[0] if len(nn) == 1 else nn, **args)
    mk = [eao.assets.SimpleContract(name='mkt_' + n, nodes=nodes[n], price=m['price'], min_cap=-m['cap'], max_cap=m['cap'])
          for n, m in case['market'].items()]
    if case.get('extra'):
        e = case['extra']
        mk.append(eao.assets.SimpleContract(name='extra_0', nodes=nodes[e['node']], price=e['price'], min_cap=-e['cap'], max_cap=e['cap']))
    assets = {'first': [a] + mk, 'last': mk + [a], 'middle': mk[:1] + [a] + mk[1:]}[case['order']]
    return a, eao.portfolio.Portfolio(assets), args


def own_dt(tg, unit):
    """step lengths in main time units from the points of the grid (not from Timegrid.dt): the grid points are the pandas range
    from start to end; its last point closes the last step (with a clock change inside the horizon it may lie before `end`)"""
    pts = pd.date_range(start=tg.start, end=tg.end, freq=tg.freq, tz=tg.tz)
    one = pd.Timedelta(1, unit)
    return [float((pts[i + 1] - pts[i]) / one) for i in range(len(pts) - 1)]


def block_ends(tg_fresh, args, sub=None):
    """last grid step of every time block of the storage's restricted grid (None: no blocks / cannot be computed).
    tg_fresh: a grid object the storage never saw; sub: (start, end) of a split interval (then the restricted grid is the one of
    the interval grid, built like Portfolio.setup_split_optim_problem does)"""
    bs = args.get('block_size')
    if bs is None:
        return None
    try:
        with Quiet():
            if sub is not None:
                g = eao.Timegrid(sub[0], sub[1], tg_fresh.freq, main_time_unit=tg_fresh.main_time_unit, ref_timegrid=tg_fresh)
                orig = [int(i) for i in g.I]
                g.I = np.array(range(0, g.T))
            else:
                g = tg_fresh
                orig = list(range(int(g.T)))
            g.set_restricted_grid(args.get('start'), args.get('end'), args.get('freq'))
            restr = g.restricted
            if restr.T == 0:
                return []
            aa = ST.block_starts(restr, bs)
        I = [int(i) for i in restr.I]
        mi = getattr(restr, 'I_minor_in_major', None)
        ends = []
        for k in list(aa[1:]) + [len(I)]:
            j = k - 1
            if j < 0:
                continue
            last = int(max(mi[j])) if mi is not None else I[j]                  # coarse step: its last minor step
            ends.append(orig[last])
        return sorted(set(ends))
    except Exception:
        return None


def physics(case, tp, dt, rows, x, steps, rep, tag, bends, full_report=True):
    """C05 for one solved set-up.  tp: instants of all grid steps; dt: own step lengths; rows: dispatch rows of the storage;
    steps: the grid steps of this set-up (all, or those of a split interval); rep: reported series (may be None);
    bends: block end steps or None"""
    a = case['args']
    tz = case['stages'][0]['grid'].get('tz')
    size, cap_in, cap_out = a['size'], a['cap_in'], a['cap_out']
    start_l, end_l = a.get('start_level', 0.), a.get('end_level', 0.)
    eff, inflow = a.get('eff_in', 1.), a.get('inflow', 0.)
    T = len(tp)
    s = instant(scen.dec(a['start']), tz) if 'start' in a else None
    e = instant(scen.dec(a['end']), tz) if 'end' in a else None
    charge, dis = np.zeros(T), np.zeros(T)
    net = {}
    two_vars = any(m['var_name'] == 'disp_in' for m in rows)
    used = set()
    for m in rows:
        v = x[m['var']] * float(Fraction(m['factor']))
        t = m['step']
        used.add(t)
        net[(t, m['node'])] = net.get((t, m['node']), 0.) + v
        if m['var_name'] == 'disp_in':
            charge[t] += -v
        elif m['var_name'] == 'disp_out':
            dis[t] += v
        else:
            charge[t] += max(0., -v)
            dis[t] += max(0., v)
    scale = max(1.0, abs(size), abs(start_l), abs(end_l), max([abs(cap_in * d) for d in dt] + [0]), max([abs(cap_out * d) for d in dt] + [0]))
    tol = 2e-5 * scale
    viol = []
    facts0 = {'kind': 'sequence', 'seq': case['kind'], 'stage': tag, 'blocks': a.get('block_size'), 'own_freq': a.get('freq'),
              'own_start': 'start' in a, 'own_end': 'end' in a, 'start_level_nonzero': start_l != 0, 'inflow_nonzero': inflow != 0,
              'start_ne_end': start_l != end_l, 'two_vars': two_vars, 'nodes': len(case['nodes']), 'tz': tz}

    def add(orc, detail, **facts):
        f = dict(facts0)
        f.update(facts)
        viol.append({'oracle': orc, 'detail': '%s: %s' % (tag, detail), 'facts': f})
    inwin = set(t for t in steps if (s is None or tp[t] >= s) and (e is None or tp[t] < e))
    # the active steps: those of the storage's variables (a coarse storage drops what lies after its last coarse cut: F-19b, C13/C19)
    act = sorted(t for t in used if t in set(steps))
    for t in steps:
        if t not in inwin and (abs(charge[t]) > tol or abs(dis[t]) > tol):
            add('storage.window', 'step %d outside the own window has charge %.6g / discharge %.6g' % (t, charge[t], dis[t]), step=t)
            break
    lvl = {}
    cur = start_l
    aset = set(act)
    first, last = (act[0], act[-1]) if act else (None, None)
    for t in steps:
        if t in aset:
            cur = cur + eff * charge[t] - dis[t] + inflow * dt[t]
        lvl[t] = cur
    for t in act:
        if lvl[t] < -tol or lvl[t] > size + tol:
            add('storage.level_bounds', 'physical level %.6g at step %d outside [0, %.6g]' % (lvl[t], t, size), step=t)
            break
    if act and abs(lvl[last] - end_l) > tol:
        add('storage.end_level', 'physical level %.6g at the last active step %d, end level %.6g' % (lvl[last], last, end_l))
    if bends:
        for t in bends:
            if t in lvl and first is not None and first <= t <= last and abs(lvl[t] - end_l) > tol:
                add('storage.block_end', 'physical level %.6g at step %d, the last step of a time block (%s), end level %.6g' % (
                    lvl[t], t, a.get('block_size'), end_l), step=t)
                break
    for t in act:
        if charge[t] > cap_in * dt[t] + tol or dis[t] > cap_out * dt[t] + tol or charge[t] < -tol or dis[t] < -tol:
            add('storage.rates', 'step %d: charge %.6g (limit %.6g), discharge %.6g (limit %.6g)' % (
                t, charge[t], cap_in * dt[t], dis[t], cap_out * dt[t]), step=t)
            break
    if rep is not None:
        if full_report:
            for what, series in (('fill_level', rep['fill_level']), ('fill_level_method', rep['fill_level_method'])):
                for t in steps:
                    if abs(series[t] - lvl[t]) > tol:
                        # coarse_inflow: a storage on a coarser own frequency with inflow (the level is compared at every GRID step)
                        add('storage.reported', '%s %.8g at step %d, physical level %.8g' % (
                            'reported fill level' if what == 'fill_level' else 'Storage.fill_level', series[t], t, lvl[t]), what=what, step=t,
                            coarse_inflow=bool(a.get('freq') is not None and inflow != 0))
                        break
        for t in steps:
            if abs(rep['charge'][t] - charge[t]) > tol:
                add('storage.reported', 'reported charge %.8g at step %d, charged %.8g' % (rep['charge'][t], t, charge[t]), what='charge', step=t)
                break
        for t in steps:
            if abs(rep['discharge'][t] + dis[t]) > tol:
                add('storage.reported', 'reported discharge %.8g at step %d, discharged %.8g (reported with negative sign)' % (
                    rep['discharge'][t], t, dis[t]), what='discharge', step=t)
                break
        for n, col in rep.get('dispatch', {}).items():
            for t in steps:
                if abs(col[t] - net.get((t, n), 0.)) > tol:
                    add('storage.reported', 'dispatch column at node %s shows %.8g at step %d, the variables move %.8g' % (n, col[t], t, net.get((t, n), 0.)),
                        what='dispatch', step=t)
                    break
    moved = bool(act) and max(float(np.abs(charge).max()), float(np.abs(dis).max())) > 1e-6
    return viol, moved


def _reported(case, portf, a, op, res, prices, T):
    with Quiet():
        out = eao.io.extract_output(portf, op, res, prices)
        flm = [float(v) for v in a.fill_level(op, res)]
    iv = out['internal_variables']
    nm = case['name']
    rep = {'fill_level': [float(v) for v in iv[nm + '_fill_level'].values], 'charge': [float(v) for v in iv[nm + '_charge'].values],
           'discharge': [float(v) for v in iv[nm + '_discharge'].values], 'fill_level_method': flm, 'dispatch': {}}
    d = out['dispatch']
    for n in case['nodes']:
        col = nm if len(portf.nodes) == 1 else nm + ' (' + n + ')'
        if col in d.columns:
            rep['dispatch'][n] = [float(v) for v in d[col].values]
    return rep


def run_case(case, drv=None):
    r = {'evaluated': 1, 'nontrivial': False, 'features': ['stream:sequence'] + features(case), 'disagreements': [], 'violations': []}
    try:
        with Quiet():
            a, portf, args = build(case)
    except Exception as e:
        r['features'].append('constructor-error:' + err_class(e))
        return r
    nm = case['name']
    solved = 0
    for i, stg in enumerate(case['stages']):
        tag = 'stage %d of %d (%s .. %s)' % (i + 1, len(case['stages']), stg['grid']['start'], stg['grid']['end'])
        try:
            tg = scen.make_grid(stg['grid'])
        except Exception as e:
            r['features'].append('grid-error:' + err_class(e))
            continue
        tz = stg['grid'].get('tz')
        prices = {k: np.asarray(v, dtype=float) for k, v in stg['prices'].items()}
        if stg.get('pform') == 'frame':
            prices = tg.prices_to_grid(prices)
        try:
            with Quiet():
                if stg.get('touch') == 'cost_samples':
                    portf.create_cost_samples([prices], tg)
                elif stg.get('touch') == 'asset_setup':
                    a.setup_optim_problem(prices, tg)
                elif stg.get('touch') == 'set_timegrid':
                    portf.set_timegrid(tg)
                if case['kind'] == 'split':
                    op = portf.setup_split_optim_problem(prices, tg, interval_size=stg['interval'])
                else:
                    op = portf.setup_optim_problem(prices, tg)
                res = op.optimize()
        except Exception as e:
            r['features'].append('setup-error:' + err_class(e))
            continue
        if isinstance(res, str):
            r['features'].append('unsolved')
            continue
        solved += 1
        x = [float(v) for v in res.x]
        rows = [m for m in mapping_rows(op.mapping) if m['asset'] == nm and m['kind'] == 'd']
        tp = [instant(t, tz) for t in tg.timepoints]
        dt = own_dt(tg, stg['grid']['unit'])
        try:
            rep = _reported(case, portf, a, op, res, prices, tg.T)
        except Exception as e:
            rep = None
            r['violations'].append({'oracle': 'storage.reported', 'detail': '%s: io.extract_output / Storage.fill_level failed on a solved problem: %s: %s' % (
                tag, type(e).__name__, str(e)[:200]), 'facts': {'kind': 'sequence', 'what': 'error'}})
        fresh = scen.make_grid(stg['grid'])
        if case['kind'] != 'split':
            bends = block_ends(fresh, args)
            if 'block_size' in args and bends is None:
                r['features'].append('blocks:not-computed')
            v, moved = physics(case, tp, dt, rows, x, list(range(tg.T)), rep, tag, bends)
            r['violations'] += v
            r['nontrivial'] = r['nontrivial'] or moved
        else:
            # the intervals: consecutive blocks of variables (one OptimProblem each)
            bounds = np.cumsum([0] + [len(o.c) for o in op.ops])
            ip = pd.date_range(start=fresh.start, end=fresh.end, freq=stg['interval'], tz=fresh.tz)
            ip = ip.append(pd.to_datetime([fresh.end]))
            if ip[0] != pd.Timestamp(fresh.start):
                ip = ip.insert(0, fresh.start)
            same = args.get('start_level', 0.) == args.get('end_level', 0.)
            if not same:
                r['features'].append('split:start!=end:whole-horizon-level-not-compared')
            r['features'].append('split:intervals:%d' % len(op.ops))
            for k, o in enumerate(op.ops):
                lo, hi = int(bounds[k]), int(bounds[k + 1])
                steps = sorted(set(int(t) for t, _n in o.map_nodal_restr)) if o.map_nodal_restr else []
                if not steps:
                    continue
                rws = [m for m in rows if lo <= m['var'] < hi]
                sub = None
                for j in range(len(ip) - 1):
                    if ip[j] <= tg.timepoints[steps[0]] < ip[j + 1]:
                        sub = (ip[j], ip[j + 1])
                bends = block_ends(scen.make_grid(stg['grid']), args, sub=sub) if sub is not None else None
                v, moved = physics(case, tp, dt, rws, x, steps, rep,
                                   '%s interval %d of %d (steps %d..%d)' % (tag, k + 1, len(op.ops), steps[0], steps[-1]), bends, full_report=False)
                r['violations'] += v
                r['nontrivial'] = r['nontrivial'] or moved
            # steps of the storage's window without any variable: a coarse storage drops the grid steps after the last coarse cut of
            # EVERY interval (finding F-19b of C13/C19); the read-out on the whole horizon counts inflow there, the intervals did not
            s_ = instant(scen.dec(case['args']['start']), tz) if 'start' in case['args'] else None
            e_ = instant(scen.dec(case['args']['end']), tz) if 'end' in case['args'] else None
            used = set(m['step'] for m in rows)
            dropped = [t for t in range(tg.T) if (s_ is None or tp[t] >= s_) and (e_ is None or tp[t] < e_) and t not in used]
            if same and dropped:
                r['features'].append('split:coarse-remainder-in-intervals:whole-horizon-level-not-compared')
            if same and rep is not None and not dropped:
                # start level = end level: the intervals join to one physical course over the whole horizon
                v, _ = physics(case, tp, dt, rows, x, list(range(tg.T)), rep, tag + ' whole horizon', None)
                r['violations'] += [q for q in v if q['oracle'] in ('storage.reported', 'storage.level_bounds', 'storage.end_level')]
    r['features'].append('solved-stages:%d' % solved)
    return r


def selftest(n, seed, verbose=True, kind=None, want=None):
    rnd = random.Random(seed)
    feats, nv, nt = {}, 0, 0
    for i in range(n):
        c = gen_case(random.Random(rnd.getrandbits(48)), kind=kind, want=want)
        r = run_case(c)
        nt += int(r['nontrivial'])
        for f in r['features']:
            feats[f] = feats.get(f, 0) + 1
        if r['violations']:
            nv += 1
            if verbose:
                print('VIOLATION', i, [(q['oracle'], q['detail'][:200]) for q in r['violations']][:3])
    return {'cases': n, 'violating': nv, 'nontrivial': nt, 'features': feats}
