"""C14 — per-instance certificate "the unsplit problem IS the block sum of the interval problems".

The real code produces three concrete objects: the unsplit problem (`Portfolio.setup_optim_problem`), the interval
problems (`SplitOptimProblem.ops` from `Portfolio.setup_split_optim_problem`) and — through the two mappings — a
matching of the variables.  `witness_check` hands them to the compiled Lean model, which evaluates the decidable
`EAO.splitWitness` exactly (op `split_witness`); the theorems of `EAO.Properties.C14` say what a true witness
means: same feasible set, same objective, same optimal value, and the concatenated interval optima ARE an optimal
unsplit solution.  A false witness names the first mismatch (a row over variables of two intervals, a cost that
differs, …): either something couples the intervals, or the split set-up lost / changed something.
"""
import json
from fractions import Fraction

from ..impl import problem_json
from ..lean import fs

THEOREMS_C14_SPLIT = [
    ('EAO.Properties.C14', 'EAO.C14.split_witness_feasible',
     'per-instance witness (unsplit problem renamed along the matching of the variables = block sum of the interval problems, rows up to order and writing) '
     '=> a point of the split problem is feasible iff the transported point is feasible for the unsplit problem (with and without integrality), same objective value'),
    ('EAO.Properties.C14', 'EAO.C14.split_witness_pullback',
     'under the witness every point of the unsplit problem is feasible iff its pull-back is feasible for the split problem, same value: splitting loses no feasible point'),
    ('EAO.Properties.C14', 'EAO.C14.split_upper_bounds',
     'under the witness the unsplit problem and the block sum of the interval problems have the same upper bounds of their value sets: the same optimal value'),
    ('EAO.Properties.C14', 'EAO.C14.split_upper_bounds_relaxed', 'the same for the relaxations (LP case)'),
    ('EAO.Properties.C14', 'EAO.C14.split_optimum_is_unsplit_optimum',
     'under the witness an optimal point of the split problem, transported, is an optimal point of the unsplit problem with the same value (integrality included)'),
    ('EAO.Properties.C14', 'EAO.C14.split_equals_unsplit',
     'under the witness: interval-wise optima, concatenated (np.hstack) and transported, are a feasible and optimal point of the unsplit problem whose value is the sum of the interval optima '
     '— split optimum = unsplit optimum, value and dispatch (LP)'),
    ('EAO.Properties.C14', 'EAO.C14.split_equals_unsplit_bool', 'the same with boolean variables (interval optima including the integrality conditions)'),
    ('EAO.Properties.C14', 'EAO.C14.blockSum_feasible_bool', 'feasibility of the block sum including the integrality conditions = feasibility of every interval on its slice'),
]


def first_rows(m):
    """(asset, var_name, node, type, step) of the FIRST mapping row of every variable -> variable index; None when two
    variables share a key (then the mapping does not identify the variables)"""
    mm = m[~m.index.duplicated(keep='first')]
    vn = mm['var_name'].astype(str).values if 'var_name' in mm.columns else ['nan'] * len(mm)
    out = {}
    for i, a, v, n, t, s in zip(mm.index, mm['asset'].values, vn, mm['node'].values, mm['type'].values, mm['time_step'].values):
        k = (str(a), str(v), str(n), str(t), int(s))
        if k in out:
            return None
        out[k] = int(i)
    return out


def perm_from_mappings(rs, rec):
    """perm[j] = variable of the unsplit problem (`rec['op']`) that is variable j of the joint split problem
    (`rs['op']`), matching (asset, var_name, node, type, step) of the first mapping row of each variable (as
    `props.c14.transport` does).  None when the two key sets differ, a key is ambiguous, or a variable has no
    mapping row."""
    ks = first_rows(rs['op'].mapping)
    ku = first_rows(rec['op'].mapping)
    if ks is None or ku is None:
        return None
    ns, nu = len(rs['op'].c), len(rec['op'].c)
    if set(ks) != set(ku) or len(ku) != nu or len(ks) != ns or ns != nu:
        return None
    if sorted(ks.values()) != list(range(ns)) or sorted(ku.values()) != list(range(nu)):
        return None
    perm = [None] * ns
    for k, j in ks.items():
        perm[j] = ku[k]
    return perm


def witness_request(rec, rs, perm):
    return {'op': 'split_witness', 'problem': problem_json(rec['op']),
            'intervals': [problem_json(o) for o in rs['op'].ops], 'perm': [int(i) for i in perm]}


def witness_check(rec, rs, drv):
    """{'witness': True | False | None, 'reason': str}: the exact evaluation of `EAO.splitWitness` on the unsplit
    problem `rec['op']`, the interval problems `rs['op'].ops` and the matching of the variables; None when the
    mappings give no matching (nothing is claimed then)."""
    perm = perm_from_mappings(rs, rec)
    if perm is None:
        return {'witness': None, 'reason': 'no matching of the variables: the first mapping rows of the split and the unsplit problem differ'}
    ans = drv.ok(witness_request(rec, rs, perm))
    return {'witness': bool(ans['witness']), 'reason': str(ans['reason'])}


THEOREMS_C14_LE = [
    ('EAO.Properties.C14', 'EAO.C14.split_le_witness_feasible',
     'per-instance one-sided witness (same cost, unsplit bounds not tighter, every unsplit row an exactly checked combination of interval rows with sign-correct multipliers) '
     '=> every feasible point of the split problem, transported, is feasible for the unsplit problem (with and without integrality) with the same value'),
    ('EAO.Properties.C14', 'EAO.C14.split_le_unsplit',
     'under the one-sided witness every upper bound of the unsplit values bounds the split values: split never exceeds unsplit'),
    ('EAO.Properties.C14', 'EAO.C14.split_le_unsplit_relaxed', 'the same for the relaxations (LP case)'),
    ('EAO.Properties.C14', 'EAO.C14.split_solution_le_unsplit',
     'under the one-sided witness the concatenated interval solutions (np.hstack), transported, satisfy every restriction and bound of the unsplit problem on the original grid, '
     'are worth the sum of the interval values there, and that sum is below every upper bound of the unsplit value (LP)'),
    ('EAO.Properties.C14', 'EAO.C14.split_solution_le_unsplit_bool', 'the same with boolean variables'),
    ('EAO.Properties.C14', 'EAO.C14.split_le_witnessC_feasible',
     'one-sided witness with a CERTIFIED instead of an equal objective ((c_split - c_unsplit).x >= 0 is an exactly checked combination of interval rows; storages with cost_store): '
     'every split-feasible point, transported, is unsplit-feasible and worth at least as much in the unsplit problem'),
    ('EAO.Properties.C14', 'EAO.C14.split_le_unsplitC', 'under that witness every upper bound of the unsplit values bounds the split values: split never exceeds unsplit'),
    ('EAO.Properties.C14', 'EAO.C14.split_le_unsplitC_relaxed', 'the same for the relaxations (LP case)'),
    ('EAO.Properties.C14', 'EAO.C14.split_solution_le_unsplitC',
     'under that witness the concatenated interval solutions, transported, are an unsplit-feasible dispatch worth at least the sum of the interval values, and that sum is below every upper bound of the unsplit value (LP)'),
    ('EAO.Properties.C14', 'EAO.C14.split_solution_le_unsplitC_bool', 'the same with boolean variables'),
]


# ------------------------------------------------------------------ one-sided witness: search for the multipliers
def _norm_row(coeffs, ren=None, off=0):
    d = {}
    for j, v in coeffs:
        jj = ren[j] if ren is not None else off + j
        d[jj] = d.get(jj, Fraction(0)) + Fraction(v)
    return {j: v for j, v in d.items() if v != 0}


def _kind(k):
    return 'E' if k in ('S', 'N') else k


def _le_search(a, b, cand, B):
    """multipliers lam_k (k in cand) with the signs of the direction <= such that sum lam_k row_k has the coefficients
    `a` and a right-hand side <= b (minimal right-hand side, HiGHS); None if there are none"""
    import numpy as np
    from scipy.optimize import linprog
    if not cand:
        return None
    cols = sorted(set(a) | set(j for k in cand for j in B[k][0]))
    ci = {j: i for i, j in enumerate(cols)}
    Aeq = np.zeros((len(cols), len(cand)))
    for q, k in enumerate(cand):
        for j, v in B[k][0].items():
            Aeq[ci[j], q] = float(v)
    beq = np.array([float(a.get(j, 0)) for j in cols])
    obj = np.array([float(B[k][1]) for k in cand])
    bounds = [(0, None) if B[k][2] == 'U' else ((None, 0) if B[k][2] == 'L' else (None, None)) for k in cand]
    # identical equations are dropped and presolve is switched off: HiGHS (scipy 1.14) aborts the process on some
    # tiny problems with duplicated rows
    M = np.unique(np.hstack([Aeq, beq[:, None]]), axis=0)
    Aeq, beq = M[:, :-1], M[:, -1]
    tol = 1e-7 * max(1.0, abs(float(b)))
    try:
        res = linprog(obj, A_eq=Aeq, b_eq=beq, bounds=bounds, method='highs', options={'presolve': False})
        if res.status == 3:
            # the right-hand side can be made arbitrarily small: any combination with a right-hand side <= b will do
            res = linprog(np.zeros(len(cand)), A_eq=Aeq, b_eq=beq, A_ub=obj[None, :], b_ub=np.array([float(b)]),
                          bounds=bounds, method='highs', options={'presolve': False})
            if res.status == 0:
                res.fun = float(obj @ res.x)
    except Exception:
        return None
    if res.status != 0:
        return None
    if res.fun > float(b) + tol:
        return None
    supp = [k for q, k in enumerate(cand) if abs(res.x[q]) > 1e-9]
    rounded = {k: Fraction(float(res.x[q])).limit_denominator(10 ** 6) for q, k in enumerate(cand) if abs(res.x[q]) > 1e-9}
    if _check_le(a, b, rounded, B):
        return rounded
    exact = _solve_exact(a, supp, B)
    if exact is not None:
        exact = {k: v for k, v in exact.items() if v != 0}
        if _check_le(a, b, exact, B):
            return exact
    return rounded            # the exact check of the model will reject it and say why


def _check_le(a, b, lam, B):
    """the test the model makes (`EAO.leCert`), in exact arithmetic"""
    comb, rhs = {}, Fraction(0)
    for k, v in lam.items():
        if (B[k][2] == 'U' and v < 0) or (B[k][2] == 'L' and v > 0):
            return False
        for j, c in B[k][0].items():
            comb[j] = comb.get(j, Fraction(0)) + v * c
        rhs += v * B[k][1]
    return {j: c for j, c in comb.items() if c != 0} == {j: c for j, c in a.items() if c != 0} and rhs <= b


def _solve_exact(a, supp, B):
    """exact rational solution of  sum_{k in supp} lam_k row_k = a  (Gaussian elimination over Fraction; free unknowns
    are set to 0); None when the system has no exact solution or is too large"""
    if not supp or len(supp) > 60:
        return None
    cols = sorted(set(a) | set(j for k in supp for j in B[k][0]))
    if len(cols) > 400:
        return None
    M = [[B[k][0].get(j, Fraction(0)) for k in supp] + [Fraction(a.get(j, 0))] for j in cols]
    nu = len(supp)
    piv = []
    r = 0
    for c in range(nu):
        p = next((i for i in range(r, len(M)) if M[i][c] != 0), None)
        if p is None:
            continue
        M[r], M[p] = M[p], M[r]
        pv = M[r][c]
        M[r] = [v / pv for v in M[r]]
        for i in range(len(M)):
            if i != r and M[i][c] != 0:
                f = M[i][c]
                M[i] = [vi - f * vr for vi, vr in zip(M[i], M[r])]
        piv.append(c)
        r += 1
        if r == len(M):
            break
    if any(all(v == 0 for v in row[:nu]) and row[nu] != 0 for row in M):
        return None
    lam = {k: Fraction(0) for k in supp}
    for i, c in enumerate(piv):
        lam[supp[c]] = M[i][nu]
    return lam


def _le_multipliers(a, b, B, by_coeffs, by_col):
    """sparse multipliers {k: Fraction} certifying  a.x <= b  from the block rows B = [(coeffs, rhs, kind)], or None"""
    key = tuple(sorted(a.items()))
    # the row occurs verbatim (possibly with a smaller right-hand side)
    for k in by_coeffs.get(key, []):
        if B[k][2] in ('U', 'E') and B[k][1] <= b:
            return {k: Fraction(1)}
    neg = tuple(sorted((j, -v) for j, v in a.items()))
    for k in by_coeffs.get(neg, []):
        if B[k][2] in ('L', 'E') and -B[k][1] <= b:
            return {k: Fraction(-1)}
    supp = set(a)
    touching = sorted(set(k for j in supp for k in by_col.get(j, [])))
    inside = [k for k in touching if set(B[k][0]) <= supp]
    lam = _le_search(a, b, inside, B)
    if lam is None and len(touching) > len(inside):
        lam = _le_search(a, b, touching, B)
    if lam is None:
        # one more ring of rows around the support
        cols2 = set(j for k in touching for j in B[k][0])
        wider = sorted(set(k for j in cols2 for k in by_col.get(j, [])))
        if len(wider) > len(touching) and len(wider) <= 2000:
            lam = _le_search(a, b, wider, B)
    return lam


def le_multipliers(U, Ps, perm, with_cost=False):
    """for every row of the unsplit problem `U` (problem_json) the sparse multipliers [[position, 'p/q'], …] over the
    rows of the block sum of `Ps` that combine to it (positions >= number of block rows: the second list of an equality
    row); rows for which the search finds nothing get an empty list.  Returns (lams_sparse, number of rows not found);
    with_cost: additionally the sparse multipliers certifying (c_split - c_unsplit).x >= 0 — None when the cost vectors
    are equal, [] when they differ and the search finds nothing"""
    n = len(U['c'])
    inv = [None] * n
    for j, i in enumerate(perm):
        inv[i] = j
    B = []
    off = 0
    for P in Ps:
        for r in P['rows']:
            B.append((_norm_row(r['coeffs'], off=off), Fraction(r['rhs']), _kind(r['kind'])))
        off += len(P['c'])
    m = len(B)
    by_coeffs, by_col = {}, {}
    for k, (cs, _, _) in enumerate(B):
        by_coeffs.setdefault(tuple(sorted(cs.items())), []).append(k)
        for j in cs:
            by_col.setdefault(j, []).append(k)
    out, missing = [], 0
    for r in U['rows']:
        a = _norm_row(r['coeffs'], ren=inv)
        b = Fraction(r['rhs'])
        kind = _kind(r['kind'])
        neg_a = {j: -v for j, v in a.items()}
        le = _le_multipliers(a, b, B, by_coeffs, by_col) if kind in ('U', 'E') else None
        ge = _le_multipliers(neg_a, -b, B, by_coeffs, by_col) if kind in ('L', 'E') else None
        if ge is not None:
            ge = {k: -v for k, v in ge.items()}          # a.x >= b  <=>  (-a).x <= -b with the multipliers negated
        if kind == 'U':
            ent = le
        elif kind == 'L':
            ent = ge
        elif le is None or ge is None:
            ent = None
        elif le == ge:
            ent = le
        else:
            ent = dict(le)
            ent.update({m + k: v for k, v in ge.items()})
            if not any(k >= m for k in ent):
                ent[2 * m - 1] = Fraction(0)               # keeps the two-list form recognisable
        if ent is None:
            missing += 1
            ent = {}
        out.append([[int(k), fs(v)] for k, v in sorted(ent.items())])
    if not with_cost:
        return out, missing
    cB = [Fraction(v) for P in Ps for v in P['c']]
    cA = [Fraction(U['c'][perm[j]]) for j in range(n)] if len(cB) == n else None
    lam_cost = None
    if cA is not None and cA != cB:
        d = {j: cA[j] - cB[j] for j in range(n) if cA[j] != cB[j]}       # (c_B - c_A).x >= 0  <=>  (c_A - c_B).x <= 0
        le = _le_multipliers(d, Fraction(0), B, by_coeffs, by_col)
        lam_cost = [] if le is None else [[int(k), fs(-v)] for k, v in sorted(le.items())]
    return out, missing, lam_cost


def le_witness_check(rec, rs, drv):
    """{'witness': True | False | None, 'reason': str}: the exact evaluation of `EAO.splitLeWitness` on the unsplit
    problem, the interval problems, the matching of the variables and multipliers found numerically (LP per unsplit
    row over the interval rows around it, rounded to rationals with denominators <= 10^6) — the search is not trusted,
    the compiled model checks every combination exactly.  None when the mappings give no matching."""
    perm = perm_from_mappings(rs, rec)
    if perm is None:
        return {'witness': None, 'reason': 'no matching of the variables: the first mapping rows of the split and the unsplit problem differ'}
    U = problem_json(rec['op'])
    Ps = [problem_json(o) for o in rs['op'].ops]
    lams, missing, lam_cost = le_multipliers(U, Ps, perm, with_cost=True)
    req = {'op': 'split_le_witness', 'problem': U, 'intervals': Ps, 'perm': [int(i) for i in perm], 'lams_sparse': lams}
    if lam_cost is not None:
        req['lam_cost_sparse'] = lam_cost          # the cost vectors differ: EAO.splitLeWitnessC with a certificate for the objective
    ans = drv.ok(req)
    reason = str(ans['reason'])
    if not ans['witness'] and missing:
        reason += ' [the multiplier search found nothing for %d row(s)]' % missing
    return {'witness': bool(ans['witness']), 'reason': reason, 'rows_without_multipliers': missing,
            'objective': ans.get('objective', '-')}


# ------------------------------------------------------------------ plants / CHPs with a fuel node, parameters keyed into the data
def _mkt(rnd, s, name, node, T):
    from .. import gen
    return {'type': 'SimpleContract', 'name': name, 'nodes': [node],
            'args': {'min_cap': -40.0, 'max_cap': 40.0, 'price': gen.price_key(rnd, s['prices'], T)}}


def add_fuel_plants(rnd, s, coupled):
    """appends 1-2 plants / CHPs WITH a fuel node to the scenario (gen.gen_plant draws the parameters) and re-expresses the
    plant parameters of the whole scenario as keys into the price data / interval dicts (history.vary_data_keys, which also gives
    plants without fuel node one).  `coupled` False: nothing of the plant links two time steps (no ramp, no minimum run / down
    time, no start costs / start fuel); one in three of these plants still has 'on' variables (min_cap > 0 or a fuel
    consumption when on), the others are pure LP plants.  Nodes the plant needs and the portfolio lacks are added with a market."""
    from .. import gen, scen
    from . import history as H
    g = s['grid']
    T = len(next(iter(s['prices'].values()))) if s['prices'] else scen.make_grid(g).T
    outer = [n for n in s['nodes'] if not any(n in a.get('inner_nodes', []) for a in s['assets'])]
    names = set(a['name'] for a in scen.all_asset_specs(s))

    def fresh(prefix):
        k = 1
        while '%s%d' % (prefix, k) in names:
            k += 1
        names.add('%s%d' % (prefix, k))
        return '%s%d' % (prefix, k)
    for _ in range(rnd.choice([1, 1, 2])):
        chp = rnd.random() < 0.4
        need = 3 if chp else 2
        while len(outer) < need:
            n = 'NX%d' % (len(s['nodes']) + 1)
            s['nodes'].append(n)
            outer.append(n)
            s['assets'].append(_mkt(rnd, s, fresh('mkx'), n, T))
        nodes = rnd.sample(outer, need)
        a = gen.gen_plant(rnd, g, s['prices'], T, fresh('fpl'), nodes, chp=chp, allow_mip=coupled)
        args = a['args']
        if not coupled:
            args.pop('ramp', None)
            args.pop('last_dispatch', None)
            r = rnd.random()
            if r < 0.2:
                args['min_cap'] = gen.q8(rnd, 0.5, 2)
            elif r < 0.35:
                args['consumption_if_on'] = rnd.choice(H.KEY_PARAMS['consumption_if_on'][0])
                if rnd.random() < 0.5:
                    args['running_costs'] = rnd.choice(H.KEY_PARAMS['running_costs'][0])
        args.setdefault('fuel_efficiency', rnd.choice(H.KEY_PARAMS['fuel_efficiency'][0]))
        if rnd.random() < 0.3:
            gen.put_window(args, gen.window(rnd, g, kinds=['inside', 'start_only', 'end_only', 'straddle_start', 'straddle_end']))
        s['assets'].append(a)
    H.vary_data_keys(rnd, s, coupled)
    return s


def has_keyed_plant(s):
    from .. import scen
    from . import history as H
    return any(a['type'] in H.PLANT_TYPES and any(isinstance(a['args'].get(k), str) for k in H.KEY_PARAMS) for a in scen.all_asset_specs(s))


# ------------------------------------------------------------------ price data as DataFrame
def frame_prices(form, prices, tg):
    """the price data as a DataFrame on the grid: 'to_grid' = Timegrid.prices_to_grid (what io.optimize and the split set-up hand
    on), 'frame' = a DataFrame with the grid's time points as index built by the caller"""
    import pandas as pd
    if form == 'to_grid':
        return tg.prices_to_grid(prices)
    return pd.DataFrame({k: list(v) for k, v in prices.items()}, index=tg.timepoints)


def frame_check(scn, rec):
    """first difference between the unsplit problem set up from a dict of arrays (`rec['op']`) and the one a fresh object tree sets
    up from the same data as DataFrame, or None; an exception of the second set-up is a difference too"""
    from .. import scen
    from ..impl import Quiet
    portf, tg, prices, _ = scen.build(scn)
    try:
        with Quiet():
            op2 = portf.setup_optim_problem(frame_prices(scn['frame'], prices, tg), tg)
    except Exception as e:
        return 'the set-up raises %s (%s)' % (type(e).__name__, str(e)[:120])
    a, b = problem_json(rec['op']), problem_json(op2)
    for k in ('mapping', 'c', 'l', 'u', 'rows', 'nodal'):
        if a.get(k) == b.get(k):
            continue
        if len(a[k]) != len(b[k]):
            return '%s: %d entries with arrays, %d with the DataFrame' % (k, len(a[k]), len(b[k]))
        j = next(i for i in range(len(a[k])) if a[k][i] != b[k][i])
        return '%s[%d]: %s with arrays, %s with the DataFrame' % (k, j, str(a[k][j])[:160], str(b[k][j])[:160])
    return None


# ------------------------------------------------------------------ the shortcut io.optimize on a portfolio with a history
def cycle_prices(prices, T):
    import numpy as np
    return {k: np.asarray([v[i % len(v)] for i in range(T)], dtype=float) if len(v) else np.zeros(T) for k, v in prices.items()}


def shortcut_split(scn, interval):
    """the split optimisation as the documentation does it - `eaopack.io.optimize(portf, timegrid, data, split_interval_size)` - on
    a portfolio object that was used before on ANOTHER grid (scn['shortcut']: the other grid and the kind of use: grid set /
    set up / optimised with the shortcut / written to and read from JSON with the grid).  Returns (output dict, notes);
    exceptions of the earlier use are notes (the portfolio keeps whatever it got), exceptions of the call itself propagate"""
    import eaopack as eao
    from .. import scen
    from ..impl import Quiet
    sc = scn['shortcut']
    portf, tg, prices, _ = scen.build(scn)
    notes = []
    tg0 = scen.make_grid(sc['grid'])
    p0 = cycle_prices(scn.get('prices', {}), tg0.T)
    with Quiet():
        try:
            if sc['use'] in ('set', 'json'):
                portf.set_timegrid(tg0)
            elif sc['use'] == 'setup':
                portf.setup_optim_problem(p0, tg0)
            elif sc['use'] == 'split':
                portf.setup_split_optim_problem(p0, tg0, interval_size=interval)
            else:
                eao.io.optimize(portf, tg0, p0)
        except Exception as e:
            notes.append('earlier-use-raises')
        if sc['use'] == 'json':
            try:
                portf = eao.serialization.load_from_json(eao.serialization.to_json(portf))
                if not hasattr(portf, 'timegrid'):
                    notes.append('json-without-grid')
            except Exception:
                notes.append('json-raises')
        if not hasattr(portf, 'timegrid'):
            portf.set_timegrid(tg0)
        out = eao.io.optimize(portf, tg, prices, split_interval_size=interval)
    return out, notes


# ------------------------------------------------------------------ development driver / self-test
class ScratchDriver:
    """development driver: a scratch `Main.lean` run by the Lean interpreter, or a compiled binary"""

    def __init__(self, path):
        import subprocess
        from ..lean import LEAN_DIR
        cmd = [path] if not path.endswith('.lean') else ['lake', 'env', 'lean', '--run', path]
        self.p = subprocess.Popen(cmd, cwd=LEAN_DIR, stdin=subprocess.PIPE, stdout=subprocess.PIPE, text=True, bufsize=1)

    def ask(self, req):
        self.p.stdin.write(json.dumps(req) + '\n')
        self.p.stdin.flush()
        line = self.p.stdout.readline()
        if not line:
            raise RuntimeError('driver died on request op=%s' % req.get('op'))
        return json.loads(line)

    def ok(self, req):
        r = self.ask(req)
        if 'ok' not in r:
            raise RuntimeError('driver error: %s' % r.get('err'))
        return r['ok']

    def close(self):
        try:
            self.p.stdin.close()
            self.p.wait(timeout=5)
        except Exception:
            self.p.kill()


def selftest(stream, n, drv, seed0=1, verbose=True, le=False):
    """run `n` generated cases of one stream of props.c14 against the real code; returns the statistics"""
    from ..props import c14
    from .. import pf
    st = {'stream': stream, 'cases': 0, 'true': 0, 'false': 0, 'none': 0, 'setup_error': 0, 'empty': 0, 'false_cases': [], 'none_cases': []}
    seed = seed0
    seen = set()
    while st['cases'] < n and seed < seed0 + 200:
        for tag, scn in c14.scenarios(seed, 'quick'):
            if scn['stream'] != stream or st['cases'] >= n:
                continue
            h = json.dumps(scn, sort_keys=True, default=str)
            if h in seen:
                continue
            seen.add(h)
            try:
                rec = pf.setup_mono(scn)
            except Exception:
                st['setup_error'] += 1
                continue
            if len(rec['op'].c) == 0:
                st['empty'] += 1
                continue
            interval = c14.interval_of(scn, rec['tg'])
            try:
                rs = pf.setup_split(scn, interval)
            except Exception:
                st['setup_error'] += 1
                continue
            st['cases'] += 1
            w = le_witness_check(rec, rs, drv) if le else witness_check(rec, rs, drv)
            info = {'seed': seed, 'tag': tag, 'assets': [a['type'] for a in scn['assets']], 'interval': interval,
                    'intervals': len(rs['op'].ops), 'n': len(rec['op'].c), 'reason': w['reason']}
            if w['witness'] is True:
                st['true'] += 1
                if w.get('objective') == 'certified':
                    st['true_certified_objective'] = st.get('true_certified_objective', 0) + 1
            elif w['witness'] is False:
                st['false'] += 1
                st['false_cases'].append(info)
                if verbose:
                    print('FALSE', json.dumps(info), flush=True)
            else:
                st['none'] += 1
                st['none_cases'].append(info)
                if verbose:
                    print('NONE', json.dumps(info), flush=True)
        seed += 1
    return st


if __name__ == '__main__':
    import sys
    path = sys.argv[1]
    stream = sys.argv[2] if len(sys.argv) > 2 else 'uncoupled'
    n = int(sys.argv[3]) if len(sys.argv) > 3 else 50
    seed0 = int(sys.argv[4]) if len(sys.argv) > 4 else 1
    le = len(sys.argv) > 5 and sys.argv[5] == 'le'
    drv = ScratchDriver(path)
    st = selftest(stream, n, drv, seed0=seed0, le=le)
    drv.close()
    print(json.dumps({k: v for k, v in st.items() if k not in ('false_cases', 'none_cases')}))
