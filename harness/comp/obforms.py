"""Container forms of the order list of an `OrderBook` (property C20, stream `forms`).

The constructor takes the orders as a dict of four columns or as a pandas DataFrame.  The ORDERS are the rows by POSITION:
order i is (start[i], end[i], capa[i], price[i]); row labels, the order of the columns, further columns and the concrete
array type of a column carry no meaning.  This module turns the plain columns of a case into such a container, following a
recipe that does not depend on the number of orders (the same case is built several times with orders inserted):

  container = {'index' : kind of the row labels of a DataFrame (FRAME_INDEX),
               'wrap'  : {column: array type of a dict entry (WRAPS_NUM / WRAPS_DATE)}, 'same': one common index for all Series,
               'extra' : names of further columns / keys, 'shuffle': columns / keys in another order, 'salt': int}
"""
import random

import numpy as np
import pandas as pd

COLS = ('start', 'end', 'capa', 'price')

# row labels of a DataFrame: how frames of orders come about in practice
FRAME_INDEX = ['range',                     # RangeIndex 0..n-1
               'concat', 'concat', 'concat3',   # 2 / 3 frames put together with pd.concat without ignore_index: labels start again
               'const',                     # every row the same label (rows appended under one key)
               'int_rep',                   # integer labels, some repeated
               'shifted', 'gaps', 'perm',   # unique integers: not from 0 / with holes / not ascending
               'str', 'str_rep',            # strings, unique / repeated (product names)
               'float',                     # non-integer numbers
               'dates', 'dates_rep', 'dates_tz', 'starts',     # DatetimeIndex: unique / repeated / zone-aware / the start column as index
               'multi', 'multi_rep',        # MultiIndex: unique / repeated tuples
               'filtered', 'filtered',      # a larger frame filtered with a boolean mask (labels with holes)
               'sorted', 'sorted']          # a frame in another row order brought into order with sort_values (labels permuted)
# labels under which two rows cannot be told apart
REPEATING = ('concat', 'concat3', 'const', 'int_rep', 'str_rep', 'dates_rep', 'multi_rep')

# array type of a dict entry, on top of the case's `form`: None = as the form says
SERIES_KINDS = ['default', 'default', 'str', 'str_rep', 'dates', 'named']
SERIES_NUMERIC = ['shifted', 'perm', 'float', 'gaps']      # Series whose labels are numbers other than 0..n-1
WRAPS_NUM = [None, None, 'series', 'series', 'series', 'pd_index', 'extension']
WRAPS_DATE = [None, None, 'series', 'series', 'series', 'pd_index', 'datetime64', 'tuple']
EXTRA = ['id', 'comment', 'volume', 'side', 'keep']


def gen_container(rnd, frame, numeric_series_share=0.08):
    c = {'salt': rnd.getrandbits(20), 'extra': rnd.sample(EXTRA, rnd.choice([0, 0, 1, 2])), 'shuffle': rnd.random() < 0.4}
    if frame:
        c['index'] = rnd.choice(FRAME_INDEX)
        return c
    c['same'] = rnd.random() < 0.6
    pool = SERIES_NUMERIC if rnd.random() < numeric_series_share else SERIES_KINDS
    if c['same'] and rnd.random() < 0.5:
        # all four columns Series over one index: the columns of a frame handed over one by one
        k = rnd.choice(pool)
        c['wrap'] = {col: 'series:' + k for col in COLS}
    else:
        c['wrap'] = {}
        for col in COLS:
            w = rnd.choice(WRAPS_DATE if col in ('start', 'end') else WRAPS_NUM)
            if w == 'series':
                w = 'series:' + rnd.choice(pool)
            if w is not None:
                c['wrap'][col] = w
        if not c['wrap']:
            c['wrap'] = {rnd.choice(COLS): 'series:' + rnd.choice(pool)}
    return c


def numeric_series_labels(cont):
    """a dict entry is a Series whose labels are numbers other than 0..n-1?"""
    return bool(cont) and any(w.startswith('series:') and w[7:] in SERIES_NUMERIC for w in (cont.get('wrap') or {}).values())


def labels(kind, n, R):
    """row labels of the given kind for n rows (None = RangeIndex)"""
    if kind in ('range', 'default') or n == 0:
        return None
    if kind == 'const':
        return [R.choice([0, 7, 'x', -1])] * n
    if kind == 'int_rep':
        m = max(1, (n + 1) // 2)
        lab = [R.randrange(m) for _ in range(n)]
        if n >= 2 and len(set(lab)) == n:
            lab[-1] = lab[0]
        return lab
    if kind == 'shifted':
        k = R.choice([1, 2, 5, 100, -3])
        return list(range(k, k + n))
    if kind == 'gaps':
        return sorted(R.sample(range(0, 3 * n + 2), n))
    if kind == 'perm':
        p = list(range(n))
        for _ in range(4):
            R.shuffle(p)
            if n < 2 or p != list(range(n)):
                break
        return p
    if kind in ('str', 'named'):
        return ['o%d' % i for i in range(n)]
    if kind == 'str_rep':
        return [R.choice(['base', 'peak', 'offpeak']) for _ in range(n)]
    if kind == 'float':
        return [i + R.choice([0.5, 0.25]) for i in range(n)]
    if kind == 'dates':
        return pd.date_range('2021-01-01', periods=n, freq=R.choice(['D', 'h', '15min']))
    if kind == 'dates_tz':
        return pd.date_range('2021-03-27', periods=n, freq='12h', tz=R.choice(['CET', 'UTC', 'US/Eastern']))
    if kind == 'dates_rep':
        d = pd.date_range('2021-01-01', periods=n, freq='D')
        return pd.DatetimeIndex([d[i // 2] for i in range(n)])
    if kind == 'multi':
        side = [R.choice(['buy', 'sell']) for _ in range(n)]
        cnt, num = {}, []
        for s in side:
            num.append(cnt.get(s, 0))
            cnt[s] = cnt.get(s, 0) + 1
        return pd.MultiIndex.from_arrays([side, num], names=['side', 'no'])
    if kind == 'multi_rep':
        return pd.MultiIndex.from_arrays([[R.choice(['buy', 'sell']) for _ in range(n)], [R.randrange(2) for _ in range(n)]])
    raise ValueError(kind)


def extra_column(name, n, R):
    if name == 'id':
        return ['T%04d' % R.randrange(10000) for _ in range(n)]
    if name == 'comment':
        return [R.choice(['', 'otc', 'exchange', None]) for _ in range(n)]
    if name == 'volume':
        return [R.randint(1, 40) / 4.0 for _ in range(n)]
    if name == 'side':
        return [R.choice(['buy', 'sell']) for _ in range(n)]
    if name == 'keep':
        return [True] * n
    raise ValueError(name)


def frame_container(df, cont):
    """the frame `df` (rows = orders in order, RangeIndex) brought into the container form; rows keep their positions"""
    n = len(df)
    R = random.Random(cont['salt'] * 131 + n)
    kind = cont.get('index', 'range')
    df = df.reset_index(drop=True)
    if kind in ('concat', 'concat3'):
        if n >= 2:
            cuts = sorted(R.sample(range(1, n), min(n - 1, 1 if kind == 'concat' else 2)))
            edges = [0] + cuts + [n]
            df = pd.concat([df.iloc[a:b].reset_index(drop=True) for a, b in zip(edges[:-1], edges[1:])])
    elif kind == 'filtered':
        src, keep = [], []
        for i in range(n):
            while R.random() < 0.45:            # rows that the filter removes (copies of other orders)
                src.append(R.randrange(n))
                keep.append(False)
            src.append(i)
            keep.append(True)
        if R.random() < 0.4:
            src.append(R.randrange(n))
            keep.append(False)
        big = df.iloc[src].reset_index(drop=True)
        big['live'] = keep
        df = big[big['live']]
        if R.random() < 0.5:
            df = df.drop(columns='live')
    elif kind == 'sorted':
        p = labels('perm', n, R) or list(range(n))
        big = df.iloc[p].reset_index(drop=True)     # row j of `big` is order p[j]
        big['rank'] = p
        df = big.sort_values('rank', kind='stable')
        if R.random() < 0.5:
            df = df.drop(columns='rank')
    elif kind == 'starts':
        try:
            df = df.set_index('start', drop=False)
        except Exception:
            df.index = labels('dates', n, R)
    else:
        lab = labels(kind, n, R)
        if lab is not None:
            df.index = lab
    for name in cont.get('extra', []):
        df[name] = extra_column(name, n, R)
    if cont.get('shuffle'):
        cs = list(df.columns)
        R.shuffle(cs)
        df = df[cs]
    return df


def wrap_column(col, v, w, n, R):
    vals = list(v)
    try:
        if w.startswith('series:'):
            k = w[7:]
            s = pd.Series(vals, index=labels(k, n, R), dtype=object if not vals else None)
            if k == 'named':
                s.name = col
            return s
        if w == 'pd_index':
            return pd.Index(vals)
        if w == 'extension' and vals and all(isinstance(x, (int, float, np.integer, np.floating)) for x in vals):
            return pd.array(vals)                                   # pandas extension array (Int64 / Float64)
        if w == 'datetime64' and vals and all(not isinstance(x, str) and pd.Timestamp(x).tzinfo is None for x in vals):
            return np.array([np.datetime64(pd.Timestamp(x)) for x in vals])
        if w == 'tuple':
            return tuple(vals)
    except Exception:
        pass
    return v


def dict_container(cols, cont):
    """the dict of columns with entries wrapped as the container asks, further keys, keys in another order"""
    n = len(cols['start'])
    equal = len({len(cols[k]) for k in COLS}) == 1
    R = random.Random(cont['salt'] * 131 + n)
    out = dict(cols)
    if equal:
        for col in COLS:
            w = (cont.get('wrap') or {}).get(col)
            if w is not None:
                Rc = random.Random(cont['salt'] * 131 + n) if cont.get('same') else random.Random('%d/%d/%s' % (cont['salt'], n, col))
                out[col] = wrap_column(col, cols[col], w, n, Rc)
    for name in cont.get('extra', []):
        out[name] = extra_column(name, n, R)
    if cont.get('shuffle'):
        ks = list(out.keys())
        R.shuffle(ks)
        out = {k: out[k] for k in ks}
    return out


def features(case):
    cont = case.get('container')
    if not cont:
        return []
    f = ['container']
    if case.get('frame'):
        f.append('container:index=%s' % cont.get('index'))
        if cont.get('index') in REPEATING:
            f.append('container:repeated_labels')
    else:
        f += sorted({'container:%s' % w for w in (cont.get('wrap') or {}).values()})
        if numeric_series_labels(cont):
            f.append('container:series_numeric_labels')
    if cont.get('extra'):
        f.append('container:extra_columns')
    if cont.get('shuffle'):
        f.append('container:columns_reordered')
    return f
