"""C15 in the split set-up: `fix_time_window` of `Portfolio.setup_split_optim_problem` against the Lean model
`EAO.Model.FixSplit` (driver op `fix_split`), and the registry of the theorems of `EAO.Properties.C15Split`.

A case is a plain JSON value:
  {scn: scenario as in harness.scen (grid, nodes, prices, assets), interval: pandas frequency string, skip: [node names],
   window: {form, mask | idx | date (+aware)}, x: {seed, len: 'exact' | 'longer' | 'short', cut: int}, stream: str}

* run_impl(case)           real code, fresh objects per run: (1) the split set-up WITHOUT window, recording every interval grid the loop
                           constructs (original steps `tmp_I`, points) and every interval problem `setup_optim_problem` returns (before the
                           nodal record is re-labelled; also the ones without variables that the loop then skips); (2) the split set-up WITH the
                           window and a previous solution of distinct dyadic values (its length known from (1)): bounds and nodal record of
                           every interval problem, or the error class
* request(case, impl)      JSON request for the Lean driver (op `fix_split`): the recorded interval problems are the inputs
* compare(case, impl, m)   disagreement strings: error class; number of interval problems; l, u (exact) and nodal record of every interval problem;
                           the contributing intervals and their offsets; and the model's `fixWindow` of the BLOCK SUM with the window in original
                           steps against the concatenated real bounds (the right-hand side of `fix_split_is_fix_of_block_sum` on the real problem)
* oracle(case, impl)       on the real code alone: exactly the variables with a row of `SplitOptimProblem.mapping` (original steps) at a step of the
                           window have both bounds at the previous value (at their position in the WHOLE previous solution), all other bounds, the
                           costs and the restrictions are those of the set-up without window
"""
import copy
import json
import random
import traceback
from fractions import Fraction

import numpy as np
import pandas as pd

import eaopack as eao
import eaopack.portfolio as eao_portfolio
from .. import gen, scen
from ..impl import Quiet, problem_json, rows_of
from ..lean import fs
from .common import instant

NAME = 'fixsplit'

M = 'EAO.Properties.C15Split'
THEOREMS_C15_SPLIT = [
    (M, 'EAO.C15S.fix_split_result',
     'what a successful split set-up with a window returns: one problem per interval that has a step and a variable (skipped intervals contribute nothing and do not advance '
     'the offset), each the interval problem fixed by fixWindow with the LOCAL steps the sliced window names and the values x[offset : offset + n], nodal record re-labelled'),
    (M, 'EAO.C15S.fix_split_window_local',
     'the slicing of the window (mask cut at tmp_I, index list turned into a mask on the whole grid and cut, date compared with the interval points) names exactly the local steps '
     'whose ORIGINAL step lies in the window expressed in original steps'),
    (M, 'EAO.C15S.fix_split_is_fix_of_block_sum',
     'fixing per interval with the sliced window and the sliced previous solution = fixWindow of the block-sum problem (mapping in original steps) with the window in original '
     'steps and the WHOLE previous solution: same lower and upper bounds, variable by variable through the index shift; costs, rows, mapping untouched'),
    (M, 'EAO.C15S.fix_split_exactly_window',
     'in every contributing interval, also after skipped intervals: a variable with a mapping row at an ORIGINAL step of the window has both bounds at x[offset + j], '
     'every other variable keeps the bounds of the set-up without window'),
    (M, 'EAO.C15S.fix_split_pins',
     'every point within the bounds of the block sum of the fixed interval problems takes the previous value at every variable that has a row of the split mapping at a step of the window'),
    (M, 'EAO.C15S.fix_split_offsets', 'the offset of a contributing interval is the number of variables of the contributing intervals before it (len_res)'),
    (M, 'EAO.C15S.fix_split_keeps_feasible',
     'a previous solution feasible for the split problem stays feasible for the fixed split problem, nothing new becomes feasible, the value function is unchanged'),
    (M, 'EAO.C15S.fix_split_total',
     'for a window the set-up accepts (mask over the whole grid, indices inside the grid, date), interval steps on the grid and a previous solution of at least the total number of '
     'variables, the split set-up with window does not fail when some interval contributes'),
]

KINDS = ['simple', 'contract', 'transport', 'ext_transport', 'storage', 'storage2', 'multi', 'orderbook', 'plant', 'chp', 'scaled']
FORMS = ['mask', 'boollist', 'idx_list', 'idx_array', 'idx_neg', 'date_point', 'date_between', 'mask', 'idx_list', 'date_point',
         'empty_list', 'empty_int', 'empty_mask', 'date_before', 'date_after', 'date_aware', 'all',
         'idx_oob', 'mask_short', 'mask_long', 'floats', 'tuple']
MALFORMED = {'idx_oob', 'mask_short', 'mask_long', 'floats', 'tuple'}
ERR = {'IndexError': 'index', 'AssertionError': 'assertion', 'ValueError': 'value'}


def err_name(e):
    for cls, name in ((IndexError, 'index'), (AssertionError, 'assertion'), (ValueError, 'value')):
        if isinstance(e, cls):
            return name
    return type(e).__name__


# ------------------------------------------------------------------ generator
def interval_string(seconds):
    if seconds % 3600 == 0:
        return '%dh' % (seconds // 3600)
    if seconds % 60 == 0:
        return '%dmin' % (seconds // 60)
    return '%ds' % seconds


def make_gap(s, rnd):
    """nothing is active in the middle of the horizon: the assets end before step k1 or start after step k2"""
    g = s['grid']
    T = g['T_nominal']
    if T < 5:
        return None
    k1 = rnd.randint(1, max(1, T // 3))
    k2 = rnd.randint(min(T - 1, k1 + 2), T - 1)
    p1, p2 = gen.P(g, k1), gen.P(g, k2)
    if not (gen.ok_local(p1, g) and gen.ok_local(p2, g)):
        return None
    keep = [a for a in s['assets'] if a['type'] not in ('OrderBook', 'StructuredAsset')]
    if not keep:
        return None
    for i, a in enumerate(keep):
        tgt = a['base']['args'] if a['type'] == 'ScaledAsset' else a['args']
        if i % 2 == 0:
            tgt.pop('start', None)
            tgt['end'] = gen.dtv(p1)
        else:
            tgt['start'] = gen.dtv(p2)
            tgt.pop('end', None)
    s['assets'] = keep
    return (k1, k2)


def draw_window(r2, g, form):
    T = g['T_nominal']
    step = pd.Timedelta(seconds=g['step_s'])
    w = {'form': form}
    if form in ('mask', 'boollist'):
        if r2.random() < 0.4:
            k = r2.randint(1, T)
            w['mask'] = [j < k for j in range(T)]
        else:
            w['mask'] = [r2.random() < 0.45 for _ in range(T)]
    elif form == 'empty_mask':
        w['mask'] = [False] * T
    elif form == 'all':
        w['mask'] = [True] * T
    elif form == 'mask_short':
        w['mask'] = [r2.random() < 0.6 for _ in range(r2.randint(0, T - 1))]
    elif form == 'mask_long':
        w['mask'] = [r2.random() < 0.6 for _ in range(T + r2.randint(1, 3))]
    elif form in ('idx_list', 'idx_array'):
        base = r2.sample(range(T), r2.randint(1, max(1, T // 2 + 1)))
        base += [r2.choice(base) for _ in range(r2.randint(0, 2))]
        r2.shuffle(base)
        w['idx'] = base
    elif form == 'idx_neg':
        base = r2.sample(range(T), r2.randint(1, max(1, T // 2)))
        w['idx'] = [(i - T) if r2.random() < 0.6 else i for i in base] + [-1 if r2.random() < 0.5 else -T]
    elif form == 'idx_oob':
        base = r2.sample(range(T), r2.randint(0, max(1, T // 2)))
        w['idx'] = base + [r2.choice([T, T + 3, -T - 1])]
        r2.shuffle(w['idx'])
    elif form in ('empty_list', 'empty_int'):
        w['idx'] = []
    elif form in ('floats', 'tuple'):
        w['idx'] = sorted(r2.sample(range(T), r2.randint(1, max(1, T // 2))))
    elif form.startswith('date'):
        k = r2.randint(0, T - 1)
        if form == 'date_point' or form == 'date_aware':
            d = gen.P(g, k)
        elif form == 'date_between':
            d = gen.P(g, k) + step / 2
        elif form == 'date_before':
            d = gen.P(g, 0) - step
        else:
            d = gen.P(g, T) + step
        if not gen.ok_local(d, g):
            d = gen.P(g, 0)
        w['date'] = gen.iso(d)
        w['aware'] = (form == 'date_aware' and g.get('tz') is not None)
        w['py'] = bool(r2.random() < 0.5)
    else:
        raise ValueError(form)
    return w


def gen_case(rnd, i):
    r2 = random.Random(rnd.getrandbits(48))
    s = gen.gen_portfolio(r2, tmax=12, tmin=4, tz_prob=1.0 if i % 9 == 8 else 0.1, kinds=KINDS, allow_struct=False,
                          max_assets=r2.choice([1, 2, 3, 5]))
    g = s['grid']
    T = g['T_nominal']
    shape = ['plain', 'plain', 'late', 'gap', 'half'][i % 5]
    feat = shape
    if shape == 'late':
        if gen.make_late_start(s, r2) is None:
            feat = 'plain'
    elif shape == 'gap':
        if make_gap(s, r2) is None:
            feat = 'plain'
    step_s = g['step_s']
    if shape == 'half' and step_s % 120 == 0:
        # intervals shorter than a grid step: every other interval has no step at all (timegrid_tmp.T == 0)
        interval = interval_string(step_s // 2) if r2.random() < 0.5 else interval_string((3 * step_s) // 2)
    else:
        parts = r2.choice([1, 2, 2, 3, 3, 4, T])
        k = max(1, T // parts)
        interval = interval_string(step_s * k)
    form = FORMS[(i // 5 + 3 * (i % 5)) % len(FORMS)]
    w = draw_window(r2, g, form)
    xl = r2.choice(['exact'] * 7 + ['longer', 'longer', 'short'])
    skip = []
    if len(s['nodes']) > 1 and r2.random() < 0.15:
        skip = [r2.choice(s['nodes'])]
    return {'scn': s, 'interval': interval, 'skip': skip, 'window': w, 'shape': feat,
            'x': {'seed': r2.getrandbits(32), 'len': xl, 'cut': r2.randint(1, 4)}, 'stream': 'fs'}


def cases(seed, n):
    rnd = random.Random(seed * 15485863 + 1515)
    for i in range(n):
        yield 'fs%d_%d' % (seed, i), gen_case(rnd, i)


# ------------------------------------------------------------------ real code
class _Recorder:
    """records, during ONE call of setup_split_optim_problem, the interval grids the loop constructs and the problems the
    portfolio's setup_optim_problem returns (a copy, taken before the loop re-labels the nodal record)"""

    def __init__(self, portf, tz):
        self.portf, self.tz = portf, tz
        self.grids, self.calls, self.depth = [], [], 0

    def __enter__(self):
        rec = self
        self._orig_tg = eao_portfolio.Timegrid

        class RecTimegrid(self._orig_tg):
            def __init__(self, *a, **kw):
                super().__init__(*a, **kw)
                if rec.depth == 0 and kw.get('ref_timegrid') is not None:
                    rec.grids.append({'steps': [int(v) for v in self.I], 'pts': [instant(p, rec.tz) for p in self.timepoints]})

        eao_portfolio.Timegrid = RecTimegrid
        orig = self.portf.setup_optim_problem

        def wrapped(*a, **kw):
            rec.depth += 1
            try:
                op = orig(*a, **kw)
            finally:
                rec.depth -= 1
            if rec.depth == 0:
                rec.calls.append(copy.deepcopy(op))
            return op
        self.portf.__dict__['setup_optim_problem'] = wrapped
        return self

    def __exit__(self, *exc):
        eao_portfolio.Timegrid = self._orig_tg
        self.portf.__dict__.pop('setup_optim_problem', None)
        return False


def window_object(w, T, tz):
    """a fresh object for fix_time_window['I']"""
    form = w['form']
    if form in ('mask', 'empty_mask', 'all', 'mask_short', 'mask_long'):
        return np.array(w['mask'], dtype=bool)
    if form == 'boollist':
        return [bool(b) for b in w['mask']]
    if form in ('idx_list', 'idx_neg', 'idx_oob', 'empty_list'):
        return [int(v) for v in w['idx']]
    if form in ('idx_array', 'empty_int'):
        return np.array(w['idx'], dtype=np.int64)
    if form == 'floats':
        return np.array(w['idx'], dtype=float)
    if form == 'tuple':
        return tuple(int(v) for v in w['idx'])
    d = pd.Timestamp(w['date'])
    if w.get('aware'):
        d = d.tz_localize(tz)
    return d.to_pydatetime() if w.get('py') else d


def window_instant(w, tz):
    return instant(pd.Timestamp(w['date']), tz)


def window_steps(w, T, pts, tz):
    """the set of ORIGINAL steps the window names (None: not a window the set-up accepts) - independent of eaopack and of the model"""
    form = w['form']
    if form in MALFORMED:
        return None
    if 'mask' in w:
        return {t for t, b in enumerate(w['mask']) if b}
    if 'idx' in w:
        return {t % T for t in w['idx']}
    d = window_instant(w, tz)
    return {t for t, p in enumerate(pts) if p <= d}


def xprev_of(case, N):
    r = random.Random(case['x']['seed'])
    n = N
    if case['x']['len'] == 'longer':
        n = N + case['x']['cut']
    elif case['x']['len'] == 'short':
        n = max(0, N - case['x']['cut'])
    # distinct dyadic values: a shifted index makes every entry tell where it came from
    vals = [Fraction(r.randint(-64, 64), 8) + Fraction(j, 1024) for j in range(n)]
    return np.array([float(v) for v in vals])


def run_impl(case):
    scn = case['scn']
    out = {}
    portf, tg, prices, nodes = scen.build(scn)
    tz = scn['grid'].get('tz')
    try:
        with Quiet(), _Recorder(portf, tz) as rec:
            op0 = portf.setup_split_optim_problem(prices, tg, interval_size=case['interval'], skip_nodes=list(case['skip']))
    except Exception as e:
        return {'setup_error': type(e).__name__ + ': ' + str(e)[:120]}
    out['T'] = int(tg.T)
    out['pts'] = [instant(p, tz) for p in tg.timepoints]
    ivs, k = [], 0
    for gr in rec.grids:
        if len(gr['steps']) == 0:
            ivs.append({'steps': [], 'pts': [], 'problem': {'c': [], 'l': [], 'u': [], 'rows': [], 'mapping': [], 'nodal': []}})
        else:
            ivs.append({'steps': gr['steps'], 'pts': gr['pts'], 'problem': problem_json(rec.calls[k])})
            k += 1
    if k != len(rec.calls):
        return {'setup_error': 'recording out of step: %d grids with steps, %d calls' % (k, len(rec.calls))}
    out['intervals'] = ivs
    out['kept'] = [j for j, iv in enumerate(ivs) if iv['steps'] and iv['problem']['c']]
    if len(out['kept']) != len(op0.ops):
        return {'setup_error': 'recording: %d contributing intervals, %d ops' % (len(out['kept']), len(op0.ops))}
    N = sum(len(o.c) for o in op0.ops)
    out['N'] = N
    out['free'] = [{'c': [fs(v) for v in o.c], 'l': [fs(v) for v in o.l], 'u': [fs(v) for v in o.u], 'rows': rows_of(o.A, o.b, o.cType)} for o in op0.ops]
    m = op0.mapping
    out['var_steps'] = {}
    for idx, t in zip(m.index, m['time_step']):
        out['var_steps'].setdefault(int(idx), set()).add(int(t))
    x = xprev_of(case, N)
    out['x'] = [fs(v) for v in x]
    # ---- the set-up with the window, fresh objects
    portf2, tg2, prices2, _ = scen.build(scn)
    I = window_object(case['window'], tg2.T, tz)
    try:
        with Quiet():
            op1 = portf2.setup_split_optim_problem(prices2, tg2, interval_size=case['interval'], skip_nodes=list(case['skip']),
                                                   fix_time_window={'I': I, 'x': x.copy()})
        out['fixed'] = [{'c': [fs(v) for v in o.c], 'l': [fs(v) for v in o.l], 'u': [fs(v) for v in o.u], 'rows': rows_of(o.A, o.b, o.cType),
                         'nodal': [[int(t), str(n)] for (t, n) in o.map_nodal_restr]} for o in op1.ops]
    except Exception as e:
        out['error'] = err_name(e)
        out['error_text'] = str(e)[:160]
    return out


# ------------------------------------------------------------------ model
def window_json(case, impl):
    w = case['window']
    form = w['form']
    if form == 'floats':
        return {'floats': True}
    if form == 'tuple':
        return {'other': True}
    if 'mask' in w:
        return {'mask': [bool(b) for b in w['mask']]}
    if 'idx' in w:
        return {'idx': [int(v) for v in w['idx']]}
    return {'date': window_instant(w, case['scn']['grid'].get('tz'))}


def request(case, impl):
    return {'op': 'fix_split', 'T': impl['T'], 'pts': impl['pts'], 'window': window_json(case, impl), 'xprev': impl['x'],
            'intervals': impl['intervals']}


def compare(case, impl, model):
    dis = []
    res = model['result']
    if 'error' in impl:
        if res.get('error') != impl['error']:
            dis.append('real set-up raises %s (%s), model: %s' % (impl['error'], impl.get('error_text'), res.get('error', 'no error')))
        return dis
    if 'error' in res:
        return ['model error %s, real set-up succeeds' % res['error']]
    if model['kept'] != impl['kept']:
        dis.append('contributing intervals: model %s, real %s' % (model['kept'], impl['kept']))
    mi, ri = res['intervals'], impl['fixed']
    if len(mi) != len(ri):
        return dis + ['number of interval problems: model %d, real %d' % (len(mi), len(ri))]
    for k, (a, b) in enumerate(zip(mi, ri)):
        for f in ('l', 'u'):
            if [Fraction(v) for v in a[f]] != [Fraction(v) for v in b[f]]:
                bad = [j for j, (p, q) in enumerate(zip(a[f], b[f])) if Fraction(p) != Fraction(q)]
                dis.append('interval %d: %s differs at %s (model %s, real %s)' % (k, f, bad[:6], [a[f][j] for j in bad[:3]], [b[f][j] for j in bad[:3]]))
        if [[int(t), str(n)] for t, n in a['nodal']] != b['nodal']:
            dis.append('interval %d: nodal record differs' % k)
    offs, o = [], 0
    for b in ri:
        offs.append(o)
        o += len(b['l'])
    if model['offsets'] != offs:
        dis.append('offsets: model %s, real %s' % (model['offsets'], offs))
    # the block sum fixed in original steps (right-hand side of fix_split_is_fix_of_block_sum) against the real bounds
    for f in ('l', 'u'):
        cat = [Fraction(v) for b in ri for v in b[f]]
        if [Fraction(v) for v in model['block'][f]] != cat:
            dis.append('fixWindow of the block sum (original steps): %s differs from the concatenated real bounds' % f)
    W = window_steps(case['window'], impl['T'], impl['pts'], case['scn']['grid'].get('tz'))
    if W is not None and set(model['steps']) != W:
        dis.append('window in original steps: model %s, expected %s' % (sorted(set(model['steps'])), sorted(W)))
    if W is not None:
        # the model's pinned variables per interval (through original steps) against the real split mapping
        for k, (a, o) in enumerate(zip(mi, offs)):
            real = {j for j in range(len(ri[k]['l'])) if impl['var_steps'].get(o + j, set()) & W}
            if set(a['fixed']) != real:
                dis.append('interval %d: pinned variables: model %s, by the real split mapping %s' % (k, sorted(set(a['fixed'])), sorted(real)))
    if W is not None and not model['valid']:
        dis.append('model calls a well-formed window invalid')
    return dis


def oracle(case, impl):
    """exactly the window is pinned - on the real problems alone"""
    if 'fixed' not in impl:
        return []
    W = window_steps(case['window'], impl['T'], impl['pts'], case['scn']['grid'].get('tz'))
    if W is None:
        return []
    v = []
    x = [Fraction(s) for s in impl['x']]
    if len(impl['fixed']) != len(impl['free']):
        return [{'oracle': 'split_fix_sizes', 'detail': 'with window %d interval problems, without %d' % (len(impl['fixed']), len(impl['free'])), 'facts': {}}]
    off = 0
    for k, (a, b) in enumerate(zip(impl['fixed'], impl['free'])):
        if a['c'] != b['c'] or a['rows'] != b['rows'] or len(a['l']) != len(b['l']):
            v.append({'oracle': 'split_rest_changed', 'detail': 'interval %d: costs or restrictions differ between the fixed and the free problem' % k, 'facts': {'interval': k}})
            off += len(b['l'])
            continue
        for j in range(len(b['l'])):
            gvar = off + j
            pinned = bool(impl['var_steps'].get(gvar, set()) & W)
            lf, uf = Fraction(a['l'][j]), Fraction(a['u'][j])
            if pinned and not (lf == x[gvar] and uf == x[gvar]):
                v.append({'oracle': 'split_not_pinned', 'detail': 'interval %d variable %d (position %d of the solution) has a step in the window but bounds [%s, %s], previous value %s'
                          % (k, j, gvar, lf, uf, x[gvar]), 'facts': {'interval': k, 'var': gvar}})
            if not pinned and not (lf == Fraction(b['l'][j]) and uf == Fraction(b['u'][j])):
                v.append({'oracle': 'split_free_changed', 'detail': 'interval %d variable %d has no step in the window but its bounds changed to [%s, %s]' % (k, j, lf, uf),
                          'facts': {'interval': k, 'var': gvar}})
        off += len(b['l'])
    return v


# ------------------------------------------------------------------ self-test
def features(case, impl):
    f = [case['shape'], 'form:' + case['window']['form'], 'x:' + case['x']['len']]
    ivs = impl['intervals']
    if any(not iv['steps'] for iv in ivs):
        f.append('interval-without-step')
    empt = [j for j, iv in enumerate(ivs) if iv['steps'] and not iv['problem']['c']]
    if empt:
        f.append('interval-without-variable')
        if impl['kept'] and min(empt) < max(impl['kept']):
            f.append('skipped-before-contributing')
    if len(impl['kept']) > 1:
        f.append('several-intervals')
    if 'error' in impl:
        f.append('error:' + impl['error'])
    else:
        W = window_steps(case['window'], impl['T'], impl['pts'], case['scn']['grid'].get('tz'))
        if W is not None:
            pinned = sum(1 for g in range(impl['N']) if impl['var_steps'].get(g, set()) & W)
            f.append('pins-some' if 0 < pinned < impl['N'] else ('pins-all' if pinned else 'pins-none'))
    kinds = sorted({a['type'] for a in case['scn']['assets']})
    f += ['asset:' + k for k in kinds]
    return f


def selftest(n, seed, drv, verbose=True):
    """run n generated cases against a driver (object with .ask(req)); returns counts and disagreements"""
    st = {'cases': 0, 'setup_error': 0, 'ok': 0, 'errors_agree': 0, 'disagreements': [], 'violations': [], 'features': {}}
    sd = seed
    while st['cases'] < n and sd < seed + 50:
        for cid, case in cases(sd, n):
            if st['cases'] >= n:
                break
            try:
                impl = run_impl(case)
            except Exception as e:
                st['setup_error'] += 1
                if verbose:
                    print('HARNESS', cid, type(e).__name__, str(e)[:200], flush=True)
                    traceback.print_exc()
                continue
            if 'setup_error' in impl:
                st['setup_error'] += 1
                continue
            st['cases'] += 1
            r = drv.ask(request(case, impl))
            if 'ok' not in r:
                st['disagreements'].append((cid, ['driver: ' + str(r.get('err'))[:200]]))
                continue
            dis = compare(case, impl, r['ok'])
            vio = oracle(case, impl)
            for ft in features(case, impl):
                st['features'][ft] = st['features'].get(ft, 0) + 1
            if dis:
                st['disagreements'].append((cid, dis))
                if verbose:
                    print('DISAGREE', cid, case['window']['form'], case['interval'], dis[:3], flush=True)
            elif 'error' in impl:
                st['errors_agree'] += 1
            else:
                st['ok'] += 1
            if vio:
                st['violations'].append((cid, vio[:3]))
                if verbose:
                    print('VIOLATION', cid, vio[:2], flush=True)
        sd += 1
    return st


if __name__ == '__main__':
    import sys
    from .split import ScratchDriver
    path = sys.argv[1]
    n = int(sys.argv[2]) if len(sys.argv) > 2 else 50
    seed = int(sys.argv[3]) if len(sys.argv) > 3 else 1
    drv = ScratchDriver(path)
    st = selftest(n, seed, drv)
    drv.close()
    print(json.dumps({k: v for k, v in st.items() if k not in ('disagreements', 'violations')}, sort_keys=True))
    print('disagreements:', len(st['disagreements']), 'violations:', len(st['violations']))
