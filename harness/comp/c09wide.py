"""C09, widened regions: (1) names that are distinct but CONFUSABLE (differ only in blanks around / inside, in case, in the kind of
white space, in the unicode spelling, or look like numbers / literals), (2) the DOORS a portfolio can take between being defined and being
optimised (built in code, to_json / load_from_json as string or file, run_from_json, renaming step by step with io.set_param), (3) wrappers
around wrappers (a ScaledAsset with fix costs over a StructuredAsset / LinkedAsset, a ScaledAsset or a StructuredAsset INSIDE a
StructuredAsset) whose wrapped assets live on different windows, and the variable matching that permuting wrapped assets at any level
of nesting needs.

Nothing here knows what the package does with a name or with the order: the generators only produce inputs, the helpers only carry an
input through a door of the public API and describe the variable layout from the SIZES of the problems the assets returned."""
import copy
import json
import os
import random
import tempfile

import numpy as np

from .. import gen, scen, impl


# ------------------------------------------------------------------ (1) confusable names
SYLL = ['hub', 'mk', 'no', 'ga', 'pow', 'ne', 'th', 'al', 'x', 'q', 'is', 'Ba', 'ter', 'on', 'e']
UNI_GROUPS = [['\u00e9', 'e\u0301', 'e', '\u00c9', 'E\u0301'],       # e acute: composed / decomposed / plain / capital
              ['\u00df', 'ss', 'SS', '\u1e9e'],                   # sharp s
              ['\ufb01', 'fi', 'Fi'],                             # ligature fi
              ['\u0130', 'i\u0307', 'i', 'I', '\u0131'],          # dotted / dotless i
              ['\u03a9', '\u2126', '\u03c9'],                    # Omega / Ohm sign / omega
              ['\u00e4', 'a\u0308', 'ae', '\u00c4'],             # a umlaut
              ['K', '\u212a', 'k'],                              # Kelvin sign
              ['\u00b5', '\u03bc', 'u']]                         # micro sign / mu
BLANKS = [' ', '  ', '\t', '\u00a0', '\u2003', '\n']
LITERALS = ['nan', 'NaN', 'None', 'none', 'null', 'true', 'True', 'False', 'inf', '-inf', 'NA', '<NA>', 'NaT', 'N/A']


def stem(r):
    return ''.join(r.choice(SYLL) for _ in range(r.randint(1, 2)))


def fam_blank_around(r):
    s = stem(r)
    out = [s, s + ' ', ' ' + s, ' ' + s + ' ']
    out += [s + b for b in BLANKS[1:]] + [b + s for b in BLANKS[2:4]]
    return out


def fam_blank_inner(r):
    s, t = stem(r), stem(r)
    return [s + t, s + ' ' + t, s + '  ' + t, s + '\t' + t, s + '_' + t, s + ' ' + t + ' ', s + '\u00a0' + t, ' ' + s + ' ' + t, s + '-' + t, s + ' - ' + t]


def fam_case(r):
    s = stem(r) + stem(r)
    c = [s.lower(), s.upper(), s.capitalize(), s.swapcase(), s.title()]
    c += [s[:k].lower() + s[k:].upper() for k in range(1, min(4, len(s)))]
    return c


def fam_unicode(r):
    s = stem(r)
    grp = r.choice(UNI_GROUPS)
    out = [s + v for v in grp] + [v + s for v in grp[:2]]
    return out


def fam_numeric(r):
    k = r.choice([0, 1, 1, 2, 7, 10, 12])
    fw = ''.join(chr(0xFF10 + int(ch)) for ch in str(k))          # full-width digits
    return [str(k), '%d.0' % k, '0%d' % k, '%de0' % k, '+%d' % k, ' %d' % k, '%d ' % k, fw, '%d.' % k, '%d,0' % k, '0x%x' % k, '-%d' % k, '%d_0' % k, '%d.00' % k]


def fam_literal(r):
    return list(LITERALS)


FAMILIES = {'blank_around': fam_blank_around, 'blank_inner': fam_blank_inner, 'case': fam_case, 'unicode': fam_unicode,
            'numeric': fam_numeric, 'literal': fam_literal}
FAMILY_WEIGHTS = ['blank_around', 'blank_around', 'blank_inner', 'case', 'case', 'unicode', 'numeric', 'numeric', 'literal']


def confusable(r, n, family=None, avoid=()):
    """(family, n pairwise distinct names of ONE family - as many as possible around one stem, so that they collide under the
    normalisation the family stands for)"""
    family = family or r.choice(FAMILY_WEIGHTS)
    out = []
    for _ in range(20):
        cand = list(dict.fromkeys(FAMILIES[family](r)))
        r.shuffle(cand)
        # the plain stem form first: the others are confusable WITH something
        for c in cand:
            if c not in out and c not in avoid and len(out) < n:
                out.append(c)
        if len(out) >= n:
            break
    k = 0
    while len(out) < n:
        c = 'z%d' % k
        k += 1
        if c not in out and c not in avoid:
            out.append(c)
    r.shuffle(out)
    return family, out


def draw_names(r, asset_names, node_names):
    """injective renamings (amap, nmap) onto confusable names; info = families used.  The node names of a case come from ONE
    family around one stem (nodes that collapse into one change the network), the asset names from one family as well; as drawn
    the assets use the node's family and stem again (an asset may bear the name of a node)."""
    fn, nn = confusable(r, len(node_names))
    share = r.random() < 0.3
    fa, an = confusable(r, len(asset_names), family=fn if share else None, avoid=() if r.random() < 0.5 else tuple(nn))
    if share and r.random() < 0.5:
        # same pool: asset k bears the name of node k as far as they go
        an = list(dict.fromkeys(list(nn) + an))[:len(asset_names)]
        if len(an) < len(asset_names):
            an += ['z%d' % k for k in range(len(asset_names) - len(an))]
    amap = {a: an[k] for k, a in enumerate(asset_names)}
    nmap = {n: nn[k] for k, n in enumerate(node_names)}
    return amap, nmap, {'nodes': fn, 'assets': fa}


# ------------------------------------------------------------------ (2) doors
DOORS = ['json', 'json', 'run_from_json', 'set_param']


def draw_door(r):
    return {'door': r.choice(DOORS), 'file': r.random() < 0.3, 'own_grid': r.random() < 0.3, 'two_phase': r.random() < 0.3,
            'shuffle': r.getrandbits(32)}


def dump_load(portf, opts):
    """to_json / load_from_json, as string or through a file"""
    from eaopack import serialization as ser
    if opts.get('file'):
        fd, path = tempfile.mkstemp(suffix='.json', prefix='c09_')
        os.close(fd)
        try:
            ser.to_json(portf, file_name=path)
            return ser.load_from_json(file_name=path)
        finally:
            try:
                os.remove(path)
            except OSError:
                pass
    return ser.load_from_json(json_str=ser.to_json(portf))


def name_fields(tree):
    """[(path, 'Asset' | 'Node', name)] of every name of an asset or node in a parameter tree (io.get_params_tree)"""
    out = []

    def rec(d, path):
        if isinstance(d, dict):
            if d.get('__class__') in ('Asset', 'Node') and isinstance(d.get('name'), str):
                out.append((path + ['name'], d['__class__'], d['name']))
            for k, v in d.items():
                rec(v, path + [k])
        elif isinstance(d, list):
            for i, v in enumerate(d):
                rec(v, path + [i])
    rec(tree, [])
    return out


def rename_by_set_param(portf, amap, nmap, opts):
    """the renaming done by a user of io.set_param: one call per name (every call rebuilds the object from its JSON form).  An
    intermediate state in which two assets bear the same name is avoided (two phases over temporary names when a new name is
    also an old one, or when drawn)."""
    import eaopack as eao
    _, tree = eao.io.get_params_tree(portf)
    fields = name_fields(tree)
    r = random.Random(opts.get('shuffle', 0))
    r.shuffle(fields)
    new = lambda kind, old: (amap if kind == 'Asset' else nmap).get(old, old)
    olds = set(nm for _, _, nm in fields)
    news = set(new(k, nm) for _, k, nm in fields)
    p = portf
    two = bool(opts.get('two_phase')) or bool(olds & news)
    if two:
        tmp = {}
        for path, kind, old in fields:
            t = tmp.setdefault((kind, old), '~%s~%d~' % (kind[0], len(tmp)))
            p = eao.io.set_param(p, path, t)
    for path, kind, old in fields:
        p = eao.io.set_param(p, path, new(kind, old))
    return p


def run_json(portf, prices, tg):
    """the convenience entry point: the output tables (None: the optimisation was not successful)"""
    from eaopack import serialization as ser
    with impl.Quiet():
        return ser.run_from_json(json_str=ser.to_json(portf), prices=prices, timegrid=tg)


# ------------------------------------------------------------------ (3) wrappers around wrappers
def walk_assets(assets):
    """every asset object of a list of assets, at any level of nesting (base asset of a scaled asset, assets wrapped by a
    structured asset), each once"""
    from eaopack.assets import Asset
    from eaopack.portfolio import Portfolio
    seen, out = set(), []

    def rec(a):
        if id(a) in seen:
            return
        seen.add(id(a))
        out.append(a)
        b = a.__dict__.get('base_asset')
        if isinstance(b, Asset):
            rec(b)
        p = a.__dict__.get('portfolio')
        if isinstance(p, Portfolio):
            for x in p.assets:
                rec(x)
    for a in assets:
        rec(a)
    return out


class DeepSizes:
    """records, for every asset object at any level of nesting, the number of variables of the problem its last (full) set-up
    returned; to be entered BEFORE impl.Capture (which then wraps the outermost assets once more)"""

    def __init__(self, portf):
        self.assets = walk_assets(portf.assets)
        self.sizes = {}

    def __enter__(self):
        for a in self.assets:
            orig = a.setup_optim_problem

            def wrapped(*args, _orig=orig, _a=a, **kw):
                op = _orig(*args, **kw)
                if not kw.get('costs_only', False) and not (len(args) > 2 and args[2]):
                    self.sizes[id(_a)] = len(op.c)
                return op
            a.__dict__['setup_optim_problem'] = wrapped
        return self

    def __exit__(self, *exc):
        for a in self.assets:
            a.__dict__.pop('setup_optim_problem', None)
        return False


def layout(asset, sizes, path=()):
    """identities of the variables of an asset's block, in their order: a plain asset's variables are (path of names, position); a
    structured asset's block is the blocks of its wrapped assets one after the other; a scaled asset's block is that of its base
    asset followed by the scale.  Derived from the recorded sizes only; None when the sizes do not add up that way."""
    from eaopack.assets import Asset
    from eaopack.portfolio import Portfolio
    n = sizes.get(id(asset))
    if n is None:
        return None
    p = path + (asset.name,)
    b = asset.__dict__.get('base_asset')
    q = asset.__dict__.get('portfolio')
    if isinstance(b, Asset):
        ids = layout(b, sizes, p)
        if ids is None:
            return None
        if n == len(ids) + 1:
            return ids + [(p, 'scale')]
        return ids if n == len(ids) else None
    if isinstance(q, Portfolio):
        ids = []
        for x in q.assets:
            sub = layout(x, sizes, p)
            if sub is None:
                return None
            ids += sub
        return ids if len(ids) == n else None
    return [(p, j) for j in range(n)]


def nested_sigma(rv, rec):
    """sigma with: variable j of the variant IS variable sigma[j] of the original, for a variant that differs from the original
    in the order of wrapped assets at any level (same names); None when it cannot be established"""
    if 'sizes' not in rv or 'sizes' not in rec:
        return None
    iv, io = [], []
    for rr, acc in ((rv, iv), (rec, io)):
        for a in rr['portf'].assets:
            ids = layout(a, rr['sizes'])
            if ids is None:
                return None
            acc += ids
    n = len(rec['op'].c)
    if len(iv) != n or len(io) != n or len(rv['op'].c) != n:
        return None
    pos = {k: j for j, k in enumerate(io)}
    if len(pos) != n:
        return None
    try:
        sigma = np.array([pos[k] for k in iv], dtype=np.int64)
    except KeyError:
        return None
    if len(np.unique(sigma)) != n:
        return None
    return sigma


def has_permutable(spec):
    if len(spec.get('inner', [])) >= 2:
        return True
    return any(has_permutable(x) for x in spec.get('inner', [])) or ('base' in spec and has_permutable(spec['base']))


def permute_inner(scn, seed=None):
    """the same scenario with the assets wrapped by every structured asset - at any level of nesting - in another order (seed
    None: reversed; else reversed or a drawn other order)"""
    s = copy.deepcopy(scn)
    r = random.Random(seed) if seed is not None else None

    def rec(a):
        if 'base' in a:
            rec(a['base'])
        inner = a.get('inner')
        if inner:
            for x in inner:
                rec(x)
            if len(inner) >= 2:
                if r is None or r.random() < 0.5 or len(inner) == 2:
                    a['inner'] = list(reversed(inner))
                else:
                    idx = list(range(len(inner)))
                    while idx == list(range(len(inner))):
                        r.shuffle(idx)
                    a['inner'] = [inner[i] for i in idx]
    for a in s['assets']:
        rec(a)
    return s


def _windowed(r2, g, spec, prob, kinds=('inside', 'start_only', 'end_only', 'straddle_end', 'straddle_start')):
    tgt = spec['args']
    if spec['type'] == 'OrderBook' or 'start' in tgt or 'end' in tgt:
        return
    if r2.random() < prob:
        gen.put_window(tgt, gen.window(r2, g, kinds=list(kinds)))


def _scale_args(r2):
    mx = r2.choice([1.0, 1.0, 2.0, 4.0])
    return {'min_scale': r2.choice([0.0, 0.0, 0.5, mx]), 'max_scale': mx, 'norm_scale': r2.choice([1.0, 1.0, 2.0, 0.5]),
            'fix_costs': gen.q8(r2, 0.125, 2)}


def _source(r2, g, prices, T, name, node):
    k = r2.choice(['simple', 'simple', 'contract', 'storage'])
    if k == 'simple':
        a = gen.gen_simple_contract(r2, g, prices, T, name, node)
        if r2.random() < 0.6:   # a cheap source: the unit is worth its fix costs
            a['args'] = {'min_cap': 0.0, 'max_cap': gen.q8(r2, 1, 6), 'extra_costs': gen.q8(r2, 0, 1)}
        return a
    if k == 'contract':
        return gen.gen_contract(r2, g, prices, T, name, node)
    return gen.gen_storage(r2, g, prices, T, name, [node], False, False)


def _structured(r2, g, prices, T, name, ext, depth, nodes, forms):
    """a StructuredAsset `name` connected to the outside at node `ext`: a transport from an internal node, a source at the internal
    node (plain; as drawn from `forms`: a ScaledAsset with fix costs, or a further StructuredAsset one level down), optionally a
    further contract; the wrapped assets get their own - differing - windows"""
    i1 = name + '_i'
    nodes.append(i1)
    tr = gen.gen_transport(r2, g, prices, T, name + '_tr', i1, ext)
    tr['args']['min_cap'], tr['args']['max_cap'] = 0.0, gen.q8(r2, 1, 6)
    inner = [tr]
    form = r2.choice(forms) if depth > 0 else 'plain'
    if form == 'scaled':
        base = _source(r2, g, prices, T, name + '_b', i1)
        _windowed(r2, g, base, 0.6)
        src = {'type': 'ScaledAsset', 'name': name + '_sc', 'base': base, 'args': _scale_args(r2)}
        _windowed(r2, g, src, 0.3)
    elif form == 'struct':
        src = _structured(r2, g, prices, T, name + 'm', i1, depth - 1, nodes, forms)
        _windowed(r2, g, src, 0.3)
    else:
        src = _source(r2, g, prices, T, name + '_c', i1)
    inner.insert(r2.randint(0, 1), src)
    if r2.random() < 0.45:
        inner.insert(r2.randint(0, len(inner)), gen.gen_simple_contract(r2, g, prices, T, name + '_d', r2.choice([ext, i1]), allow_opts=False))
    for x in inner:
        _windowed(r2, g, x, 0.7)
    return {'type': 'StructuredAsset', 'name': name, 'nodes': [ext], 'inner': inner, 'args': {}}


def gen_nested(r2, tier, gen_linked=None):
    """a small portfolio around a wrapper that wraps a wrapper.  Forms: 'scaled_struct' (ScaledAsset with fix costs over a
    StructuredAsset), 'struct_scaled' (a ScaledAsset inside a StructuredAsset), 'struct_struct' (a StructuredAsset inside a
    StructuredAsset), 'scaled_struct2' (ScaledAsset over a StructuredAsset that wraps a further wrapper), 'scaled_linked'
    (ScaledAsset over a LinkedAsset; the LinkedAsset's own generator, all wrapped assets on one window).  Everything else
    (windows, sizes, prices, scale bounds, fix costs) is drawn."""
    form = r2.choice(['scaled_struct'] * 5 + ['struct_scaled'] * 2 + ['struct_struct'] * 2 + ['scaled_struct2'] * 2 + (['scaled_linked'] if gen_linked else []))
    if form == 'scaled_linked':
        s = gen_linked(r2, tier)
        for k, a in enumerate(s['assets']):
            if a['type'] == 'LinkedAsset':
                sc = {'type': 'ScaledAsset', 'name': 'sc_' + a['name'], 'base': a, 'args': _scale_args(r2)}
                sc['args']['min_scale'] = r2.choice([0.0, 0.5, sc['args']['max_scale']])
                s['assets'][k] = sc
        s['nested'] = form
        return s
    g = gen.gen_grid(r2, tmin=3, tmax=7 if tier == 'quick' else 10, tz_prob=0.05)
    T = scen.make_grid(g).T
    prices = {}
    nodes = ['N1'] + (['N2'] if r2.random() < 0.4 else [])
    out = []
    for n in nodes:
        a = {'type': 'SimpleContract', 'name': 'mkt_' + n, 'nodes': [n],
             'args': {'min_cap': -40.0, 'max_cap': 40.0, 'price': gen.price_key(r2, prices, T, lo=2, hi=20)}}
        if r2.random() < 0.4:
            a['args']['extra_costs'] = gen.q8(r2, 0.125, 1)
        out.append(a)
    if len(nodes) == 2 and r2.random() < 0.7:
        out.append(gen.gen_transport(r2, g, prices, T, 'tr12', 'N1', 'N2'))
    n_units = 1 if r2.random() < 0.75 else 2
    for u in range(n_units):
        nm = 'u%d' % (u + 1)
        ext = r2.choice(nodes)
        if form in ('scaled_struct', 'scaled_struct2'):
            st = _structured(r2, g, prices, T, nm, ext, 1 if form == 'scaled_struct2' else 0, nodes, ['scaled', 'struct'])
            _windowed(r2, g, st, 0.3)
            a = {'type': 'ScaledAsset', 'name': 's_' + nm, 'base': st, 'args': _scale_args(r2)}
            _windowed(r2, g, a, 0.3)
        elif form == 'struct_scaled':
            a = _structured(r2, g, prices, T, nm, ext, 1, nodes, ['scaled'])
            _windowed(r2, g, a, 0.3)
        else:
            a = _structured(r2, g, prices, T, nm, ext, 1, nodes, ['struct'])
            _windowed(r2, g, a, 0.3)
        out.insert(r2.randint(0, len(out)), a)
    if r2.random() < 0.3:
        out.append(gen.gen_storage(r2, g, prices, T, 'st9', [r2.choice(nodes[:2])], False, False))
    return {'grid': g, 'nodes': nodes, 'prices': prices, 'assets': out, 'nested': form}


def gen_network(r2, tier):
    """a cheap LP portfolio over 2..4 nodes, each with its own market at its own price level, some of them connected: what the
    network IS (which assets meet at which node) shows in the value.  Asset kinds of the generic generator without MIP."""
    s = gen.gen_portfolio(r2, kinds=['simple', 'contract', 'transport', 'transport', 'ext_transport', 'storage', 'storage2', 'multi', 'scaled', 'structured'],
                          tmax=6 if tier == 'quick' else 10, tz_prob=0.05, allow_mip=False, max_assets=4, nodes_max=4,
                          allow_periodic=False, allow_blocks=False, market_prob=1.0, tmin=2)
    return s
