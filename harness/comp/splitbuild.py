"""C14 for the builders: the split set-up of a portfolio of contracts and transports
(`Portfolio.setup_split_optim_problem`) against the Lean model `EAO.Model.SplitBuild`, and the registry of the
theorems of `EAO.Properties.C14Builders` (split optimum = unsplit optimum WITHOUT a per-instance certificate).

A case is a plain JSON value:
  {grid: {start, end, freq, unit, tz, ...}, nodes: [names], prices: {key: [floats]}, assets: [spec as in harness.scen],
   interval: pandas frequency string, skip: [node names], stream: str}

* run_impl(case)           real code on fresh objects: the unsplit problem, the interval problems (`SplitOptimProblem.ops`), the
                           cut instants as the code computes them, every asset's discount factors on the full grid
* request(case, impl)      JSON request for the Lean driver (op `split_build`)
* compare(case, impl, m)   disagreement strings: unsplit problem, every interval problem (cost, bounds, rows in order, mapping in
                           order, nodal record with the original steps), the original steps per interval, the explicit matching
                           of the variables against the one read off the two mappings, and the model's witness
* oracle(case, impl, m)    where the decidable hypotheses of `EAO.C14B.split_witness_builders` hold (model answer `hyps`), the
                           witness must be true on the REAL problems with the model's matching (driver op `split_witness`)
"""
import copy
import json
import random
import traceback
from fractions import Fraction

import numpy as np
import pandas as pd

import eaopack as eao
from .. import gen, scen
from ..impl import Quiet, problem_json, err_class
from ..lean import fs
from ..pf import cmp_problem, cmp_rows
from .common import grid_json, param_json, prices_json, instant
from .contract import takes_json, with_implicit_end, unit_sec, ERR_MAP, cmp_mapping_ordered
from .split import perm_from_mappings

NAME = 'splitbuild'
TOL = 1e-9
FAR = 10 ** 15            # an instant before / after every grid point: a missing window bound

KIND = {'SimpleContract': 'simple_contract', 'Contract': 'contract', 'MultiCommodityContract': 'multi',
        'Transport': 'transport', 'ExtendedTransport': 'ext_transport'}

M = 'EAO.Properties.C14Builders'
THEOREMS_C14_BUILDERS = [
    (M, 'EAO.C14B.split_witness_of_banded',
     'general theorem: asset problems whose variables each belong to one step (Banded) and whose rows do not reach across a cut (RowsInside), restricted to the step lists of a partition of 0..T-1 '
     'and assembled per list on the re-based grid, are as a block sum the unsplit problem renamed along the explicit matching splitPerm: the C14 witness is TRUE without a per-instance certificate'),
    (M, 'EAO.C14B.splitPerm_is_permutation', 'the explicit matching (interval after interval the unsplit variables at the interval steps, in unsplit order) is a permutation of the unsplit variables'),
    (M, 'EAO.C14B.split_witness_of_banded_skip', 'the witness stays true when the interval problems without variables are dropped (the `continue` of the split set-up)'),
    (M, 'EAO.C14B.simple_contract_commutes',
     'SimpleContract: on the asset grid restricted to the steps of an interval (steps re-based, prices picked) the builder returns literally the restriction of what it returns on the whole grid '
     '(variables, costs, bounds, mapping) - for grid-free parameters and the same data-dependent form (one/two variables per step, sign conditions of the spread) on the interval, or no step in it'),
    (M, 'EAO.C14B.contract_commutes', 'Contract: the same including the take rows, when no take period reaches across the cut (right-hand sides prorated by the same covered time)'),
    (M, 'EAO.C14B.multi_commutes', 'MultiCommodityContract: the same (mapping copied per node with the node factor)'),
    (M, 'EAO.C14B.transport_commutes', 'Transport: the same for positive step lengths (the sign decision of the costs is then the same on every non-empty sub-grid)'),
    (M, 'EAO.C14B.ext_transport_commutes', 'ExtendedTransport: the same including the take rows at the first node, when no take period reaches across the cut'),
    (M, 'EAO.C14B.builders_banded', 'whatever one of the five builders returns on a top-level grid is Banded: bounds per variable, every mapping row at a grid step, all rows of a variable at one step, every variable mapped, no boolean, rows non-empty over own variables'),
    (M, 'EAO.C14B.interval_grid_is_pick',
     'the interval grid of setup_split_optim_problem (reference restricted to [start_tmp, end_tmp), I re-based, dt / cumulative time / discount factors KEPT) restricted to an asset window '
     'is the asset grid of the full horizon restricted to the interval steps tmp_I (split_discount: interval costs are the unsplit costs)'),
    (M, 'EAO.C14B.interval_prices_are_picked', 'the price rows of an interval are the price arrays at the original steps of the interval'),
    (M, 'EAO.C14B.interval_steps', 'the original steps of an interval are the steps of the reference grid whose point lies in [start_tmp, end_tmp)'),
    (M, 'EAO.C14B.cuts_partition', 'increasing cuts, the first not after any grid point and the last after every grid point, divide the steps into pieces: every step in exactly one interval (partial last interval, unaligned horizon included)'),
    (M, 'EAO.C14B.split_witness_builders',
     'portfolios of SimpleContract / Contract / MultiCommodityContract / Transport / ExtendedTransport: under the decidable hypotheses splitHyps (evaluated by the driver on every case) the split set-up succeeds '
     'whenever the unsplit one does (with a variable) and its interval problems ARE the unsplit problem: splitWitness = true for the explicit matching, no certificate'),
    (M, 'EAO.C14B.split_setup_is_restriction', 'under the same hypotheses the interval problems of the split set-up are the unsplit asset problems restricted to the interval steps, assembled on the re-based grid, intervals without variables dropped'),
    (M, 'EAO.C14B.split_equals_unsplit_builders', 'hence interval-wise optima, concatenated (np.hstack) and transported along the matching, are a feasible and optimal point of the unsplit problem and its value is the sum of the interval optima (LP)'),
    (M, 'EAO.C14B.split_upper_bounds_builders', 'and the unsplit problem and the block sum of the interval problems have the same upper bounds of their value sets (same optimal value, integrality included, no existence assumed)'),
]


# ------------------------------------------------------------------------------------------ generator
def _interval(g, T, parts, odd):
    step = g['step_s']
    k = max(1, T // parts)
    if odd and T > 2:
        k = k + (1 if T % k == 0 else 0)
    tot = step * k
    return ('%dmin' % (tot // 60)) if tot % 3600 else ('%dh' % (tot // 3600)), k


def _aligned_takes(rnd, g, T, k, lo, hi):
    """take periods each inside one interval of k steps (intervals start at step 0)"""
    n = rnd.randint(1, 2)
    ss, ee, vv = [], [], []
    for _ in range(n):
        j = rnd.randrange(0, max(1, (T + k - 1) // k))
        a0, b0 = j * k, min(T, (j + 1) * k)
        a = rnd.randint(a0, b0 - 1)
        b = rnd.randint(a + 1, b0)
        s, e = gen.P(g, a), gen.P(g, b)
        if not (gen.ok_local(s, g) and gen.ok_local(e, g)):
            continue
        ss.append(gen.dtv(s))
        ee.append(gen.dtv(e))
        vv.append(gen.q8(rnd, lo, hi))
    if not ss:
        return None
    return {'start': ss, 'end': ee, 'values': vv}


def gen_case(rnd, stream=None):
    stream = stream or rnd.choice(['plain', 'plain', 'plain', 'takes_inside', 'takes_any', 'form', 'malformed'])
    g = gen.gen_grid(rnd, tmin=2, tmax=12, tz_prob=0.15)
    if g['freq'] == 'd' and g.get('tz'):
        g = gen.gen_grid(rnd, tmin=2, tmax=12, tz_prob=0.0)
    T = g['T_nominal']
    parts = rnd.choice([2, 2, 3, 4])
    odd = rnd.random() < 0.3
    interval, k = _interval(g, T, parts, odd)
    nodes = ['n%d' % i for i in range(1, rnd.randint(1, 3) + 1)]
    prices = {}
    assets = []
    exact = rnd.random() < 0.6
    na = rnd.randint(1, 4)
    for i in range(na):
        name = 'a%d' % i
        kind = rnd.choice(['SimpleContract', 'SimpleContract', 'Contract', 'MultiCommodityContract', 'Transport', 'ExtendedTransport'])
        if kind in ('Transport', 'ExtendedTransport') and len(nodes) < 2:
            kind = 'SimpleContract'
        if kind == 'SimpleContract':
            a = gen.gen_simple_contract(rnd, g, prices, T, name, rnd.choice(nodes))
        elif kind == 'Contract':
            a = gen.gen_contract(rnd, g, prices, T, name, rnd.choice(nodes))
        elif kind == 'MultiCommodityContract':
            nn = rnd.sample(nodes, rnd.randint(1, len(nodes)))
            a = gen.gen_multi(rnd, g, prices, T, name, nn)
        else:
            n1, n2 = rnd.sample(nodes, 2)
            a = gen.gen_transport(rnd, g, prices, T, name, n1, n2, ext=(kind == 'ExtendedTransport'))
        if stream in ('plain', 'form'):
            a['args'].pop('min_take', None)
            a['args'].pop('max_take', None)
        elif stream == 'takes_inside':
            for key, lo, hi in (('max_take', 2, 30), ('min_take', -30, -2)):
                if key in a['args']:
                    if a['type'] == 'ExtendedTransport':
                        lo, hi = (0, 10) if key == 'max_take' else (0, 0.5)
                    t = _aligned_takes(rnd, g, T, k, lo, hi)
                    if t is None:
                        a['args'].pop(key)
                    else:
                        a['args'][key] = t
        if stream == 'form' and a['type'] in ('SimpleContract', 'Contract', 'MultiCommodityContract'):
            # a spread and capacities whose sign pattern differs between the intervals
            key = 'capf%d' % len(prices)
            pat = rnd.choice(['neg_then_mixed', 'zero_then_mixed', 'pos_then_mixed', 'mixed'])
            lo = [0.0] * T
            hi = [0.0] * T
            for t in range(T):
                first = t < k
                if pat == 'mixed' or not first:
                    lo[t], hi[t] = -gen.q8(rnd, 0.125, 3), gen.q8(rnd, 0.125, 3)
                elif pat == 'neg_then_mixed':
                    lo[t], hi[t] = -gen.q8(rnd, 0.125, 3), 0.0
                elif pat == 'pos_then_mixed':
                    lo[t], hi[t] = 0.0, gen.q8(rnd, 0.125, 3)
            prices[key + 'l'], prices[key + 'h'] = lo, hi
            a['args']['min_cap'], a['args']['max_cap'] = key + 'l', key + 'h'
            a['args']['extra_costs'] = rnd.choice([0.5, 0.25, 1.0])
        if rnd.random() < 0.4:
            gen.put_window(a['args'], gen.window(rnd, g))
        a['args']['wacc'] = 0.0 if (exact or rnd.random() < 0.5) else rnd.choice([0.05, 0.1])
        assets.append(a)
    skip = [rnd.choice(nodes)] if (len(nodes) > 1 and rnd.random() < 0.15) else []
    case = {'grid': g, 'nodes': nodes, 'prices': prices, 'assets': assets, 'interval': interval, 'skip': skip,
            'stream': stream, 'exact': exact}
    if stream == 'malformed':
        bad = rnd.choice(['price_len', 'price_missing', 'array_cap', 'minmax', 'nan_gap', 'tr_mixed'])
        a = assets[0]
        if bad == 'price_len' and prices:
            kk = rnd.choice(sorted(prices))
            prices[kk] = prices[kk] + [1.0]
        elif bad == 'price_missing' and a['type'] in ('SimpleContract', 'Contract', 'MultiCommodityContract'):
            a['args']['price'] = 'nokey'
        elif bad == 'array_cap' and a['type'] in ('SimpleContract', 'Contract', 'MultiCommodityContract') and k >= 2 and T % k != 1:
            # (numpy broadcasts an array against a ONE-step grid the other way round: not modelled, see EAO.broadcastArray)
            a['args'].pop('start', None)
            a['args'].pop('end', None)
            a['args']['max_cap'] = {'$arr': [5.0 + gen.q8(rnd, 0, 2) for _ in range(T)]}
            a['args']['min_cap'] = -1.0
        elif bad == 'minmax' and a['type'] in ('SimpleContract', 'Contract', 'MultiCommodityContract'):
            key = 'bad%d' % len(prices)
            prices[key] = [0.0] * (T - 1) + [9.0]
            a['args']['min_cap'], a['args']['max_cap'] = key, 5.0
        elif bad == 'nan_gap' and a['type'] in ('SimpleContract', 'Contract', 'MultiCommodityContract') and T > 2:
            a['args']['max_cap'] = {'start': [gen.dtv(gen.P(g, 0))], 'end': [gen.dtv(gen.P(g, T - 1))], 'values': [4.0]}
            a['args']['min_cap'] = 0.0
        elif bad == 'tr_mixed' and a['type'] in ('Transport', 'ExtendedTransport'):
            a['args']['min_cap'], a['args']['max_cap'], a['args']['costs_const'] = -1.0, 2.0, 1.0
        case['bad'] = bad
    return case


# ------------------------------------------------------------------------------------------ implementation side
def _cuts(tg, interval):
    """`interval_timepoints` exactly as `setup_split_optim_problem` computes them"""
    pts = pd.date_range(start=tg.start, end=tg.end, freq=interval, tz=tg.tz)
    pts = pts.append(pd.to_datetime([tg.end]))
    if pts[0] != pd.Timestamp(tg.start):
        pts = pts.insert(0, tg.start)
    return pts


def run_impl(case):
    out = {}
    tz = case['grid'].get('tz')
    with Quiet():
        portf, tg, prices, nodes = scen.build(case)
    out['grid'] = grid_json(tg, tz)
    out['cuts'] = [instant(p, tz) for p in _cuts(tg, case['interval'])]
    # every asset's window and discount factors on the full grid
    specs = []
    for a, obj in zip(case['assets'], portf.assets):
        g2 = scen.make_grid(case['grid'])
        g2.set_wacc(obj.wacc)
        specs.append({'start': -FAR if obj.start is None else instant(obj.start, tz),
                      'stop': FAR if obj.end is None else instant(obj.end, tz),
                      'df': [fs(v) for v in g2.discount_factors]})
    out['specs'] = specs
    # the interval grids, as the loop of setup_split_optim_problem builds them (reference with discount factors)
    try:
        ref = scen.make_grid(case['grid'])
        ref.set_wacc(0.07)
        out['ref_df'] = grid_json(ref, tz)
        cuts = _cuts(ref, case['interval'])
        igs = []
        for i in range(len(cuts) - 1):
            tmp = eao.Timegrid(cuts[i], cuts[i + 1], ref.freq, main_time_unit=ref.main_time_unit, ref_timegrid=ref)
            tmp_I = [int(v) for v in tmp.I]
            tmp.I = np.array(range(0, tmp.T))
            igs.append({'a': instant(cuts[i], tz), 'b': instant(cuts[i + 1], tz), 'grid': grid_json(tmp, tz), 'steps': tmp_I})
        out['interval_grids'] = igs
    except Exception as e:
        out['interval_grids_error'] = '%s: %s' % (type(e).__name__, str(e)[:120])
    kw = {'skip_nodes': list(case['skip'])} if case.get('skip') else {}
    try:
        with Quiet():
            op = portf.setup_optim_problem(prices, tg, **kw)
        out['unsplit'] = {'problem': problem_json(op)}
        out['_op'] = op
    except Exception as e:
        out['unsplit'] = {'error': err_class(e), 'text': '%s: %s' % (type(e).__name__, str(e)[:160])}
    try:
        with Quiet():
            portf2, tg2, prices2, _ = scen.build(case)
            sop = portf2.setup_split_optim_problem(prices2, tg2, interval_size=case['interval'], **kw)
        out['split'] = {'intervals': [problem_json(o) for o in sop.ops]}
        out['_sop'] = sop
    except Exception as e:
        out['split'] = {'error': err_class(e), 'text': '%s: %s' % (type(e).__name__, str(e)[:160])}
    return out


def asset_json(a, spec, tz):
    args = scen.dec(copy.deepcopy(a['args']))
    for k in ('extra_costs', 'min_cap', 'max_cap'):
        if k in args:
            args[k] = with_implicit_end(args[k])
    kind = KIND[a['type']]
    if kind in ('simple_contract', 'contract', 'multi'):
        p = {'name': a['name'], 'nodes': a['nodes'], 'price': args.get('price'),
             'extra_costs': param_json(args.get('extra_costs', 0.), tz),
             'min_cap': param_json(args.get('min_cap', 0.), tz), 'max_cap': param_json(args.get('max_cap', 0.), tz),
             'min_take': takes_json(args.get('min_take'), tz) if kind != 'simple_contract' else [],
             'max_take': takes_json(args.get('max_take'), tz) if kind != 'simple_contract' else []}
    else:
        p = {'name': a['name'], 'nodes': a['nodes'], 'costs_const': fs(args.get('costs_const', 0.)),
             'costs_key': args.get('costs_time_series'), 'min_cap': fs(args.get('min_cap', 0.)), 'max_cap': fs(args.get('max_cap', 0.)),
             'efficiency': fs(args.get('efficiency', 1.)),
             'min_take': takes_json(args.get('min_take'), tz) if kind == 'ext_transport' else [],
             'max_take': takes_json(args.get('max_take'), tz) if kind == 'ext_transport' else []}
    j = {'kind': kind, 'params': p, 'start': spec['start'], 'stop': spec['stop'], 'df': spec['df']}
    if kind == 'multi':
        j['factors'] = [fs(v) for v in args.get('factors_commodities', [1, 1])]
    return j


def request(case, impl_result=None):
    r = impl_result if impl_result is not None else run_impl(case)
    tz = case['grid'].get('tz')
    return {'op': 'split_build', 'grid': r['grid'], 'cuts': r['cuts'], 'prices': prices_json(case['prices']),
            'unitSec': unit_sec(case['grid'].get('unit', 'h')), 'skip': list(case.get('skip', [])),
            'assets': [asset_json(a, s, tz) for a, s in zip(case['assets'], r['specs'])]}


def _cmp_side(tag, impl_side, model_side, tol):
    out = []
    if 'error' in impl_side or 'error' in model_side:
        ie, me = impl_side.get('error'), model_side.get('error')
        if ie is None or me is None or ERR_MAP.get(me) != ie:
            out.append('%s: error class: model %r (expects impl %r) vs impl %r %s' % (tag, me, ERR_MAP.get(me), ie, impl_side.get('text', '')))
    return out


def _pow2(n):
    return n > 0 and (n & (n - 1)) == 0


def is_exact(case, req):
    """every intermediate value of the implementation is exactly representable: dyadic data, no discounting, step lengths
    and take durations that are powers of two of the main time unit"""
    if not case.get('exact'):
        return False
    if not all(_pow2(Fraction(s).denominator) and _pow2(Fraction(s).numerator) for s in req['grid']['dt']):
        return False
    u = req['unitSec']
    for a in req['assets']:
        if any(Fraction(s) != 1 for s in a['df']):
            return False
        for k in ('min_take', 'max_take'):
            for s, e, v in a['params'].get(k, []):
                if e > s:
                    d = Fraction(e - s, u)
                    if not (_pow2(d.numerator) and _pow2(d.denominator)):
                        return False
    return True


def compare(case, impl_result, model_result, req=None):
    if 'err' in model_result:
        return ['driver rejected the request: %s' % model_result['err']]
    m = model_result['ok']
    req = req or request(case, impl_result)
    tol = 0 if is_exact(case, req) else TOL
    out = []
    out += _cmp_side('unsplit', impl_result['unsplit'], m['unsplit'], tol)
    out += _cmp_side('split', impl_result['split'], m['split'], tol)
    if 'problem' in impl_result['unsplit'] and 'problem' in m['unsplit']:
        out += ['unsplit: ' + d for d in cmp_problem('unsplit', m['unsplit']['problem'], impl_result['unsplit']['problem'], tol)]
    if 'intervals' in impl_result['split'] and 'intervals' in m['split']:
        a, b = m['split']['intervals'], impl_result['split']['intervals']
        if len(a) != len(b):
            out.append('split: %d interval problems (model) vs %d (impl)' % (len(a), len(b)))
        else:
            for i, (x, y) in enumerate(zip(a, b)):
                out += ['interval %d: %s' % (i, d) for d in cmp_problem('interval', x, y, tol)]
                d = cmp_rows('interval %d rows (in order)' % i, x['rows'], y['rows'], tol, ordered=True)
                if d:
                    out.append(d)
                d = cmp_mapping_ordered(x['mapping'], y['mapping'], tol)
                if d:
                    out.append('interval %d: %s' % (i, d))
        # the original steps of the intervals: recover them from the impl's joint mapping
        sop = impl_result.get('_sop')
        if sop is not None and 'perm' in m and '_op' in impl_result and not out:
            perm = perm_from_mappings({'op': sop}, {'op': impl_result['_op']})
            if perm is not None and [int(i) for i in perm] != [int(i) for i in m['perm']]:
                out.append('perm: model %s vs read off the mappings %s' % (m['perm'][:12], perm[:12]))
    return ['[%s] %s' % ('exact' if tol == 0 else 'tol', d) for d in out]


def compare_grids(impl_result, drv):
    """the interval grids of the real code against `Grid.interval` / `intervalSteps` (driver op `interval_grid`)"""
    out = []
    for k, ig in enumerate(impl_result.get('interval_grids', [])):
        ans = drv.ask({'op': 'interval_grid', 'grid': impl_result['ref_df'], 'a': ig['a'], 'b': ig['b']})
        if 'ok' not in ans:
            out.append('interval grid %d: driver rejected the request: %s' % (k, ans.get('err')))
            continue
        mg = ans['ok']
        for f in ('pts', 'idx', 'dt', 'Dt', 'df'):
            if mg['grid'][f] != ig['grid'][f]:
                out.append('interval grid %d: %s %s (model) vs %s (impl)' % (k, f, mg['grid'][f][:6], ig['grid'][f][:6]))
        if mg['steps'] != ig['steps']:
            out.append('interval grid %d: tmp_I %s (model) vs %s (impl)' % (k, mg['steps'][:8], ig['steps'][:8]))
    return out


def oracle(case, impl_result, model_result=None, drv=None):
    """hypotheses of the theorem decided true by the model => the witness holds on the REAL problems
    (needs the model answer and a driver; without them nothing is claimed)"""
    viol = []
    if model_result is None or drv is None:
        return viol
    m = model_result.get('ok', {})
    if m.get('hyps') and '_op' in impl_result and len(impl_result['_op'].c) > 0 and '_sop' not in impl_result:
        viol.append({'oracle': 'split_witness_builders', 'detail': 'hypotheses hold and the unsplit set-up succeeds with variables, the split set-up raises: %s' % impl_result['split'].get('text'),
                     'facts': {'stream': case['stream']}})
    if not m.get('hyps') or '_op' not in impl_result or '_sop' not in impl_result or 'perm' not in m:
        return viol
    req = {'op': 'split_witness', 'problem': problem_json(impl_result['_op']),
           'intervals': [problem_json(o) for o in impl_result['_sop'].ops], 'perm': m['perm']}
    ans = drv.ask(req)
    impl_result['_witness_checked'] = True
    if 'ok' not in ans or not ans['ok'].get('witness'):
        viol.append({'oracle': 'split_witness_builders', 'detail': 'hypotheses hold, witness on the real problems false: %s' % (ans.get('ok', ans).get('reason') if isinstance(ans.get('ok', ans), dict) else ans),
                     'facts': {'stream': case['stream']}})
    if not m.get('witness'):
        viol.append({'oracle': 'split_witness_builders_model', 'detail': 'hypotheses hold, witness on the model problems false: %s' % m.get('reason'),
                     'facts': {'stream': case['stream']}})
    return viol


# ------------------------------------------------------------------------------------------ self test
SCRATCH_MAIN = """import EAO.Driver.Core
import EAO.Driver.Split
import EAO.Driver.SplitBuild
open Lean EAO EAO.Driver

def handlers : List (String → Json → Option (Except String Json)) :=
  [handleCore, handleSplit, handleSplitBuild]

def handle (j : Json) : Except String Json := do
  let op ← field j "op" Json.getStr?
  match handlers.findSome? (fun h => h op j) with
  | some r => r
  | none => throw s!"unknown op {op}"

partial def loop (h : IO.FS.Stream) (out : IO.FS.Stream) : IO Unit := do
  let line ← h.getLine
  if line.isEmpty then return ()
  let resp := match Json.parse line with
    | .error e => Json.mkObj [("err", Json.str s!"bad-request: {e}")]
    | .ok j => match handle j with
      | .ok r => Json.mkObj [("ok", r)]
      | .error e => Json.mkObj [("err", Json.str s!"bad-request: {e}")]
  out.putStrLn resp.compress
  out.flush
  loop h out

def main : IO Unit := do loop (← IO.getStdin) (← IO.getStdout)
"""


class ScratchDriver:
    """development driver: interprets a scratch Main.lean with the handlers `handleSplit` and `handleSplitBuild` (before
    the handler is linked into eaodrv; needs `lake build EAO.Driver.SplitBuild`), or runs a compiled driver binary"""

    def __init__(self, main=None):
        import subprocess
        import tempfile
        import os
        from ..lean import LEAN_DIR
        if main is None:
            self._tmp = tempfile.mkdtemp(prefix='splitbuild_drv_')
            main = os.path.join(self._tmp, 'Main.lean')
            with open(main, 'w') as f:
                f.write(SCRATCH_MAIN)
        cmd = [main] if not main.endswith('.lean') else ['lake', 'env', 'lean', '--run', main]
        self.p = subprocess.Popen(cmd, cwd=LEAN_DIR, stdin=subprocess.PIPE, stdout=subprocess.PIPE, text=True, bufsize=1)

    def ask(self, req):
        self.p.stdin.write(json.dumps(req) + '\n')
        self.p.stdin.flush()
        line = self.p.stdout.readline()
        if not line:
            raise RuntimeError('driver died')
        return json.loads(line)

    def close(self):
        try:
            self.p.stdin.close()
            self.p.wait(timeout=5)
        except Exception:
            self.p.kill()
        if getattr(self, '_tmp', None):
            import shutil
            shutil.rmtree(self._tmp, ignore_errors=True)


def selftest(n, seed, drv, verbose=False, stream=None):
    rnd = random.Random(seed)
    counts = {'cases': 0, 'unsplit_ok': 0, 'split_ok': 0, 'both_error': 0, 'witness_true': 0, 'witness_false': 0,
              'hyps_true': 0, 'hyps_false': 0, 'harness_errors': 0, 'intervals': 0, 'interval_grids': 0, 'exact': 0,
              'hyps_true_witness_real_checked': 0}
    feats, dis, viol = {}, [], []
    for i in range(n):
        case = gen_case(random.Random(rnd.getrandbits(48)), stream=stream)
        try:
            r = run_impl(case)
            req = request(case, r)
            mres = drv.ask(req)
            d = compare(case, r, mres, req) + compare_grids(r, drv)
            v = oracle(case, r, mres, drv)
            counts['interval_grids'] += len(r.get('interval_grids', []))
        except Exception as e:
            counts['harness_errors'] += 1
            dis.append({'case': case, 'detail': 'harness error %s' % traceback.format_exc()[-800:]})
            continue
        counts['cases'] += 1
        counts['unsplit_ok'] += int('problem' in r['unsplit'])
        counts['split_ok'] += int('intervals' in r['split'])
        counts['both_error'] += int('error' in r['unsplit'] and 'error' in r['split'])
        counts['intervals'] += len(r['split'].get('intervals', []))
        counts['exact'] += int(is_exact(case, req))
        counts['hyps_true_witness_real_checked'] += int(bool(r.get('_witness_checked')))
        m = mres.get('ok', {})
        if 'witness' in m:
            counts['witness_true' if m['witness'] else 'witness_false'] += 1
        if 'hyps' in m:
            counts['hyps_true' if m['hyps'] else 'hyps_false'] += 1
        f = 'stream:' + case['stream']
        feats[f] = feats.get(f, 0) + 1
        for x in d:
            dis.append({'case': case, 'detail': x})
            if verbose:
                print('DISAGREE', x[:300])
        for x in v:
            x['case'] = case
            viol.append(x)
            if verbose:
                print('VIOLATION', x['detail'][:300])
    return {'counts': counts, 'features': feats, 'disagreements': dis, 'violations': viol}


if __name__ == '__main__':
    import sys
    n = int(sys.argv[1]) if len(sys.argv) > 1 else 100
    seed = int(sys.argv[2]) if len(sys.argv) > 2 else 0
    stream = sys.argv[3] if len(sys.argv) > 3 else None
    drv = ScratchDriver()
    try:
        r = selftest(n, seed, drv, verbose=True, stream=stream)
    finally:
        drv.close()
    print(json.dumps(r['counts']), json.dumps(r['features']))
    print('disagreements', len(r['disagreements']), 'violations', len(r['violations']))
    for d in r['disagreements'][:6]:
        print('--', d['detail'][:600])
        print('   ', json.dumps(d['case'])[:1800])
    for v in r['violations'][:6]:
        print('**', v['oracle'], v['detail'][:600])
        print('   ', json.dumps(v.get('case'))[:1800])
