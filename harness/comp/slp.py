"""Component correspondence + oracles for C17: two-stage stochastic program (`make_slp`), cost samples
(`Portfolio.create_cost_samples`), robust target of `OptimProblem.optimize`, SLP division in `io.extract_output`.

case = {'scn': portfolio scenario, 'sf': iso string of start_future (naive local time of the grid),
        'sf_kind': placement label, 'samples': [ {price key: [floats]} ], 'family': generator family}

Driver ops used: `slp`, `slp_readout`, `robust_value` (EAO/Driver/Slp.lean).
"""
import copy
import random
import sys
import warnings
from fractions import Fraction

import numpy as np
import pandas as pd

import eaopack as eao
from eaopack.stoch_lin_prog import make_slp

from .. import gen, scen, impl, pf
from ..impl import Quiet, problem_json, err_class
from ..lean import fs
from .common import instant

# asset kinds with exactly one mapping row per variable / with two rows per variable
KINDS_SINGLE = ['simple', 'contract', 'storage', 'storage', 'scaled1']
KINDS_MULTI = ['simple', 'contract', 'storage', 'transport', 'transport', 'ext_transport', 'storage2', 'multi', 'scaled']
KINDS_ANY = ['simple', 'contract', 'transport', 'ext_transport', 'storage', 'storage2', 'multi', 'orderbook', 'scaled',
             'structured', 'plant', 'chp']
SF_KINDS = ['first', 'before', 'last', 'in_last', 'end', 'after', 'mid', 'mid', 'mid', 'offgrid', 'offgrid', 'second']
# sampled series that enter the cost vector: the `price` of an asset ('p..') and the further cost parameters that may be given as
# key into the price dict: extra_costs ('ec..'), Transport costs_time_series ('tc..'), CHP/Plant start_costs ('sc..') and
# running_costs ('rc..').  (Storage cost_in / cost_out / cost_store are numbers only.)
AUX_KEY_PREFIX = ('ec', 'tc', 'sc', 'rc')
COST_KEY_PREFIX = ('p',) + AUX_KEY_PREFIX
# sample modes in which all samples share the present part of every sampled series (the premise of the statement)
HOW_SHARED_PRESENT = ('perturb', 'identical', 'aux_only', 'price_only', 'variants', 'zero_aux')
# kinds of the family 'keyed' (cost parameters other than `price` given as keys)
KINDS_KEYED = ['simple', 'simple', 'contract', 'contract', 'multi', 'transport', 'ext_transport', 'plant_lp', 'plant_lp', 'storage', 'scaled']
KINDS_KEYED_MIP = KINDS_KEYED + ['plant', 'plant', 'chp', 'chp']
warnings.filterwarnings('ignore', category=FutureWarning)


# ------------------------------------------------------------------ registry texts of the C17 package
# (harness/props/c17.py holds the registered list; these are the up-to-date names and readings — it may import them)
_P17 = 'EAO.Properties.C17'
THEOREMS_C17 = [
    (_P17, 'EAO.C17.makeSlp_ok_iff', 'exact success condition of make_slp (non-empty future, future labels in range, bounds and samples of the right length); variables without mapping row are fine'),
    (_P17, 'EAO.C17.makeSlp_error', 'every failure is an index error'),
    (_P17, 'EAO.C17.makeSlp_eq', 'shape of the SLP problem: cost (straddling present entries = mean over own + sample costs, future entries / (S+1), sample blocks), bounds, rows, mapping'),
    (_P17, 'EAO.C17.slp_n', 'n_slp = n + S * n_future (bounds)'),
    (_P17, "EAO.C17.slp_n'", 'n_slp = n + S * n_future (cost vector)'),
    (_P17, 'EAO.C17.slpStraddle_disjoint', 'a straddling variable (present, with a mapping row at a future step) is a present variable'),
    (_P17, 'EAO.C17.value_split', 'value = present part + future part'),
    (_P17, 'EAO.C17.presentValue_split', 'present part = non-straddling present part + straddling part'),
    (_P17, 'EAO.C17.slp_structure', 'a point of the SLP problem is (x_present, x_future^0 .. x_future^S): it is feasible iff every recombined (x_present, x_future^s) is feasible for the original problem; its value is value of the non-straddling present variables (own costs) + mean over scenarios of (value of the straddling present variables + value_future^s). Present-stage decisions are common to all scenarios by construction'),
    (_P17, 'EAO.C17.slp_value_mean', 'if the samples share the costs of the present variables that are NOT straddling (SharePresentNS) the SLP value is the mean of the full scenario values of the recombined points'),
    (_P17, 'EAO.C17.sharePresentNS_of_sharePresent', 'sharing the whole present part of the costs implies SharePresentNS'),
    (_P17, 'EAO.C17.slp_mapping_faithful', 'the mapping of the SLP problem keeps the original rows and gives every copy the label of its new variable; first rows and boolean variables are the original ones plus the copies'),
    (_P17, 'EAO.C17.slp_dispatch_mean', 'the dispatch reported for an SLP result = mean over scenarios of the dispatch of the recombined points: present variables count once (also where they reach into the future), future variables are averaged'),
    (_P17, 'EAO.C17.slp_dispatch_balance', 'hence the reported SLP dispatch balances at every node and step where every recombined point does'),
    (_P17, 'EAO.C17.slp_le_wait_and_see', 'abstract two-stage lemma: SLP value <= mean of per-scenario upper bounds'),
    (_P17, 'EAO.C17.ev_le_slp', 'abstract: fixing the first stage to any decision that admits recourse in every scenario gives an SLP-feasible point; its mean value is <= every upper bound of the SLP value'),
    (_P17, 'EAO.C17.slp_eq_det_of_equal', 'abstract: all scenarios equal => SLP optimum = deterministic optimum'),
    (_P17, 'EAO.C17.slp_le_wait_and_see_problem', 'instance for makeSlp under SharePresentNS: SLP value of a feasible point <= mean of upper bounds of the per-scenario problems (each with its own full cost vector)'),
    (_P17, 'EAO.C17.slp_glue', 'points w_0..w_S of the original problem (one per scenario, rows with columns < n) that agree on the present variables glue to one point of the SLP: feasible if every w_s is, and under SharePresentNS its SLP value is the mean of the scenario values of the w_s'),
    (_P17, 'EAO.C17.ev_le_slp_problem', 'instance of ev_le_slp for makeSlp: the expected value of fixing the present to ANY common decision that admits recourse in every scenario (mean_s scenValue_s(w_s)) is attained by a feasible SLP point, hence <= every upper bound of the SLP value (EEV_k <= V_slp)'),
    (_P17, 'EAO.C17.slp_eq_det_of_equal_problem', 'instance for makeSlp: all samples equal to the own costs => SLP value <= every upper bound of the deterministic value'),
    (_P17, 'EAO.C17.robust_bounds', 'worst case of any feasible x <= smallest per-scenario upper bound; the maximiser of the worst case dominates the worst case of every feasible point'),
    (_P17, 'EAO.C17.robust_bounds_problem', 'instance for the robust target (robustObjective)'),
    (_P17, 'EAO.C17.robust_reported_value', 'if the problem\'s own cost vector is among the samples the worst case is at most the reported value'),
    ('EAO.Properties.C03', 'EAO.C03.robust_epigraph', 'the epigraph value handed to the solver is the minimum over the samples of -c_s.x'),
]
PARTIAL_C17 = []   # the former TARGET ev_le_slp_problem (concrete instance of ev_le_slp for makeSlp) is proved


# ------------------------------------------------------------------ generator
def _scaled_single(rnd, g, prices, T, name, node):
    bk = rnd.choice(['simple', 'storage', 'contract'])
    if bk == 'simple':
        base = gen.gen_simple_contract(rnd, g, prices, T, name + '_b', node)
    elif bk == 'contract':
        base = gen.gen_contract(rnd, g, prices, T, name + '_b', node)
    else:
        base = gen.gen_storage(rnd, g, prices, T, name + '_b', [node], False, False)
    sargs = {'min_scale': rnd.choice([0.0, 0.0, 0.5]), 'max_scale': rnd.choice([1.0, 2.0, 4.0]),
             'norm_scale': rnd.choice([1.0, 2.0, 0.5]), 'fix_costs': gen.q8(rnd, 0, 1)}
    return {'type': 'ScaledAsset', 'name': name, 'base': base, 'args': sargs}


def gen_straddle_case(rnd):
    """a priced asset on a coarser frequency whose block starts in the present and extends into the future: its (present-stage)
    variable has a cost that depends on future prices"""
    import pandas as pd
    grids = [g for g in gen.GRIDS if g[0] == 'h' and g[1] == 'h']
    s = gen.gen_portfolio(rnd, kinds=['simple'], tmax=8, tmin=4, tz_prob=0.0, allow_mip=False, max_assets=2, nodes_max=1, allow_freq=False,
                          allow_periodic=False, allow_wacc=False, grids=grids, allow_struct=False, allow_blocks=False)
    g = s['grid']
    T = len(g['_pts']) - 1
    for a in s['assets']:
        a['args'].pop('start', None)
        a['args'].pop('end', None)
    blk = gen.gen_simple_contract(rnd, g, s['prices'], T, 'blk', s['nodes'][0])
    blk['args'].pop('start', None)
    blk['args'].pop('end', None)
    mult = rnd.choice([2, 2, 4]) if T >= 4 else 2
    blk['args']['freq'] = '%dh' % mult
    blk['args']['min_cap'], blk['args']['max_cap'] = -gen.q8(rnd, 0.5, 3), gen.q8(rnd, 0.5, 3)
    if not isinstance(blk['args'].get('price'), str):
        blk['args']['price'] = gen.price_key(rnd, s['prices'], T)
    blk['args'].pop('extra_costs', None)
    s['assets'].append(blk)
    b0 = rnd.randrange(0, max(1, T // mult)) * mult
    m = min(T - 1, b0 + rnd.randint(1, mult - 1))
    sf = gen.P(g, m)
    nS = rnd.choice([1, 1, 2, 3])
    samples = []
    for _ in range(nS):
        ps = {}
        for key, vals in s['prices'].items():
            v = list(vals)
            if key.startswith(COST_KEY_PREFIX):
                for t in range(m, len(v)):
                    v[t] = v[t] + gen.q8(rnd, -8, 8)
            ps[key] = v
        samples.append(ps)
    return {'scn': s, 'sf': gen.iso(sf), 'sf_kind': 'straddle', 'samples': samples, 'family': 'straddle', 'how': 'perturb'}


def key_costs(rnd, s, prob):
    """widening of a generated portfolio: cost parameters other than `price` become KEYS into the price dict (and are then part of
    what the samples vary): extra_costs of the contract types and plants, costs_time_series of the transports, start_costs /
    running_costs of plants that have them.  All series are strictly positive, see `positive_aux`."""
    g = s['grid']
    T = len(g['_pts']) - 1
    prices = s['prices']
    inner = set(id(b) for a in s['assets'] for b in a.get('inner', []))

    def new(prefix, lo, hi):
        k = '%s%d' % (prefix, len(prices))
        prices[k] = [gen.q8(rnd, lo, hi) for _ in range(T)]
        return k
    for a in scen.all_asset_specs(s):
        t, args = a['type'], a.get('args', {})
        if t in ('SimpleContract', 'Contract', 'MultiCommodityContract', 'Plant', 'CHPAsset', 'CHPAsset_with_min_load_costs'):
            if not isinstance(args.get('extra_costs'), str) and rnd.random() < prob:
                args['extra_costs'] = new('ec', 0.125, 3)
        if t in ('Transport', 'ExtendedTransport') and id(a) not in inner:   # (gen.py keeps the transport inside a structured asset free of it)
            if args.get('costs_time_series') is None and rnd.random() < prob:
                args['costs_time_series'] = new('tc', 0.125, 2)
        if t in ('Plant', 'CHPAsset', 'CHPAsset_with_min_load_costs'):
            if 'start_costs' in args and not isinstance(args['start_costs'], str) and rnd.random() < prob:
                args['start_costs'] = new('sc', 0.5, 4)
            if 'running_costs' in args and not isinstance(args['running_costs'], str) and rnd.random() < prob:
                args['running_costs'] = new('rc', 0.125, 1)
    return s


def positive_aux(s):
    """TODO(restriction, reported): SimpleContract.setup_optim_problem (eaopack/assets.py:762) uses ONE variable per step when the
    extra_costs series is zero on the whole window of the asset and TWO otherwise (CHPAsset, assets.py:1496, drops the start variables
    when the start_costs series is all zero): a sample in which such a series vanishes gives a cost vector of another length than
    the problem, and make_slp / the robust target raise (IndexError / ValueError).  The streams keep every such series strictly
    positive in the problem and in all samples."""
    for k, v in s['prices'].items():
        if k.startswith(AUX_KEY_PREFIX):
            s['prices'][k] = [x if x > 0 else 0.125 for x in v]


def gen_samples(rnd, prices, nS, how, first_f):
    """nS samples of the sampled series.
    perturb / perturb_all: every cost series is perturbed independently in every sample (future part / everywhere);
    aux_only:   the `price` series are those of the problem, the OTHER cost series (extra_costs, transport costs, start / running
                costs given as keys) differ in the future;   price_only: the other way round;
    variants:   every series has a small pool of future variants (the problem's own curve and one or two others), every sample
                picks one per series: samples share some curves and differ in others, in all combinations."""
    def perturbed(key, v, lo):
        v = list(v)
        for t in range(lo, len(v)):
            v[t] = v[t] + gen.q8(rnd, -8, 8)
            if not key.startswith('p'):
                v[t] = abs(v[t]) + (0.125 if how in ('aux_only', 'price_only', 'variants') or v[t] == 0 else 0.0)
        return v
    pools = {}
    if how == 'variants':
        for key, vals in prices.items():
            if key.startswith(COST_KEY_PREFIX):
                pools[key] = [list(vals)] + [perturbed(key, vals, first_f) for _ in range(rnd.choice([1, 1, 2]))]
    samples = []
    for _ in range(nS):
        ps = {}
        for key, vals in prices.items():
            v = list(vals)
            if key.startswith(COST_KEY_PREFIX):
                isp = key.startswith('p')
                if how in ('perturb', 'perturb_all'):
                    v = perturbed(key, vals, 0 if how == 'perturb_all' else first_f)
                elif (how == 'aux_only' and not isp) or (how == 'price_only' and isp):
                    v = perturbed(key, vals, first_f)
                elif how == 'variants':
                    v = list(rnd.choice(pools[key]))
            ps[key] = v
        samples.append(ps)
    return samples


OTHER_ZONES = ['UTC', 'Asia/Tokyo', 'US/Pacific', 'Europe/London']


def gen_linked_portfolio(rnd):
    """a LinkedAsset (eaopack.portfolio) in the portfolio: two wrapped assets at a power and a heat node - a CHP with `on` variables
    (asset 2, variable bool_on) and a second unit (asset 1, variable disp at the power node) that may only dispatch once the CHP has
    been on for time_back (and must stop time_forward before the CHP goes off).  All wrapped assets live on the whole horizon
    (differing windows of wrapped assets are a separate matter).  Mixed integer: evaluated as the other streams do for MIP plants."""
    grids = [g for g in gen.GRIDS if (g[0], g[1]) in (('h', 'h'), ('d', 'd'), ('2h', 'h'), ('4h', 'h'))]
    g = gen.gen_grid(rnd, tmin=3, tmax=6, tz_prob=0.1, grids=grids)
    T = len(g['_pts']) - 1
    step_u = {'h': 1, 'd': 1, '2h': 2, '4h': 4}[g['freq']]     # one step in the main time unit
    prices = {}
    n1, n2 = 'N1', 'N2'
    assets = [{'type': 'SimpleContract', 'name': 'mkt1', 'nodes': [n1], 'args': {'min_cap': -40.0, 'max_cap': 40.0, 'price': gen.price_key(rnd, prices, T)}}]
    heat = {'type': 'SimpleContract', 'name': 'heat2', 'nodes': [n2], 'args': {'min_cap': -gen.q8(rnd, 1, 8), 'max_cap': 0.0, 'price': gen.price_key(rnd, prices, T)}}
    if rnd.random() < 0.3:
        heat['args']['min_cap'] = heat['args']['max_cap'] = -gen.q8(rnd, 0.5, 2)    # a heat demand that must be met
        assets.append({'type': 'SimpleContract', 'name': 'boiler3', 'nodes': [n2], 'args': {'min_cap': 0.0, 'max_cap': 10.0, 'price': gen.price_key(rnd, prices, T, lo=10, hi=30)}})
    assets.append(heat)
    a2 = gen.gen_plant(rnd, g, prices, T, 'lk_a', [n1, n2], chp=True, allow_mip=True)
    a2['args'].setdefault('min_cap', gen.q8(rnd, 0.5, 2))      # `on` variables exist
    kind1 = rnd.choice(['chp', 'chp', 'plant', 'simple'])
    if kind1 == 'chp':
        a1 = gen.gen_plant(rnd, g, prices, T, 'lk_b', [n1, n2], chp=True, allow_mip=rnd.random() < 0.5)
    elif kind1 == 'plant':
        a1 = gen.gen_plant(rnd, g, prices, T, 'lk_b', [n1], chp=False, allow_mip=rnd.random() < 0.5)
    else:   # a supply contract (one variable `disp` per step)
        a1 = {'type': 'SimpleContract', 'name': 'lk_b', 'nodes': [n1], 'args': {'min_cap': 0.0, 'max_cap': gen.q8(rnd, 1, 6), 'price': gen.price_key(rnd, prices, T)}}
    largs = {'asset1_variable': ['lk_b', 'disp', n1], 'asset2_variable': ['lk_a', 'bool_on', None],
             'time_back': rnd.choice([0, 1, 1, 2]) * step_u}
    if rnd.random() < 0.3:
        largs['time_forward'] = rnd.choice([1, 2]) * step_u
    if rnd.random() < 0.3:
        largs['asset2_time_already_running'] = float(rnd.choice([0, 1, 3]) * step_u)
    assets.append({'type': 'LinkedAsset', 'name': 'linked', 'nodes': [n1, n2], 'inner': [a2, a1], 'args': largs})
    if rnd.random() < 0.4:
        assets.append(gen.gen_simple_contract(rnd, g, prices, T, 'sc%d' % (len(assets) + 1), rnd.choice([n1, n2])))
    return {'grid': g, 'nodes': [n1, n2], 'prices': prices, 'assets': assets}


def gen_zero_aux_case(rnd):
    """PROBE (known finding F-17m, see positive_aux): a sampled extra_costs (SimpleContract / Contract) or start_costs (CHPAsset)
    series that is identically zero in some scenarios and not in others.  All scenarios share the present part of every series
    (the series in question is zero there); in the future it is positive in some scenarios and zero in at least one."""
    grids = [g for g in gen.GRIDS if (g[0], g[1]) in (('h', 'h'), ('d', 'd'), ('4h', 'h'))]
    g = gen.gen_grid(rnd, tmin=3, tmax=6, tz_prob=0.0, grids=grids)
    T = len(g['_pts']) - 1
    prices = {}
    n1, n2 = 'N1', 'N2'
    assets = [{'type': 'SimpleContract', 'name': 'mkt1', 'nodes': [n1], 'args': {'min_cap': -40.0, 'max_cap': 40.0, 'price': gen.price_key(rnd, prices, T)}}]
    what = rnd.choice(['extra_costs', 'extra_costs', 'start_costs'])
    nodes = [n1]
    if what == 'extra_costs':
        a = {'type': rnd.choice(['SimpleContract', 'Contract']), 'name': 'zc2', 'nodes': [n1],
             'args': {'min_cap': -gen.q8(rnd, 0.5, 4), 'max_cap': gen.q8(rnd, 0.5, 4), 'price': gen.price_key(rnd, prices, T)}}
        if a['type'] == 'Contract' and rnd.random() < 0.6:
            a['args']['max_take'] = gen.take_dict(rnd, g, 2, 30)
        key = 'ec%d' % len(prices)
    else:
        nodes = [n1, n2]
        assets.append({'type': 'SimpleContract', 'name': 'heat2', 'nodes': [n2], 'args': {'min_cap': -gen.q8(rnd, 1, 8), 'max_cap': 0.0, 'price': gen.price_key(rnd, prices, T)}})
        a = {'type': 'CHPAsset', 'name': 'zchp3', 'nodes': [n1, n2],
             'args': {'min_cap': gen.q8(rnd, 0.5, 2), 'max_cap': gen.q8(rnd, 2, 8), 'price': gen.price_key(rnd, prices, T)}}
        if rnd.random() < 0.4:
            a['args']['running_costs'] = gen.q8(rnd, 0.125, 1)
        key = 'sc%d' % len(prices)
    m = rnd.randint(1, T - 1)                                   # first future step
    prices[key] = [0.0] * T
    a['args'][what] = key
    assets.append(a)
    s = {'grid': g, 'nodes': nodes, 'prices': prices, 'assets': assets}
    nS = rnd.choice([1, 2, 2, 3])
    zero = [rnd.random() < 0.5 for _ in range(nS + 1)]          # scenario 0 = the problem itself
    if all(zero) or not any(zero):
        zero[rnd.randrange(nS + 1)] = not zero[0]
    fut = lambda z: [0.0] * m + [0.0 if z else gen.q8(rnd, 0.25, 4) for _ in range(m, T)]
    prices[key] = fut(zero[0])
    samples = gen_samples(rnd, prices, nS, 'perturb', m)
    for ps, z in zip(samples, zero[1:]):
        ps[key] = fut(z)
    return {'scn': s, 'sf': gen.iso(gen.P(g, m)), 'sf_kind': 'mid', 'samples': samples, 'family': 'zero_aux', 'how': 'zero_aux', 'sf_form': 'naive'}


def gen_case(rnd):
    r = rnd.random()
    if r < 0.07:
        return gen_straddle_case(rnd)
    if r < 0.082:
        return gen_zero_aux_case(rnd)
    family = 'linked' if r < 0.125 else ('single' if r < 0.37 else ('multi' if r < 0.6 else ('any' if r < 0.75 else 'keyed')))
    grids = [g for g in gen.GRIDS if g[0] in ('h', '2h', '4h', 'd', '30min')]
    if family == 'linked':
        s = gen_linked_portfolio(rnd)
        if rnd.random() < 0.6:
            key_costs(rnd, s, 0.5)
    elif family == 'keyed':
        # cost parameters other than `price` given as keys; mostly LP (the whole chain is evaluated), some with on/start variables
        mip = rnd.random() < 0.2
        s = gen.gen_portfolio(rnd, kinds=KINDS_KEYED_MIP if mip else KINDS_KEYED, tmax=7, tz_prob=0.1, allow_mip=mip, max_assets=3,
                              nodes_max=3 if mip else 2, allow_freq=rnd.random() < 0.15, allow_periodic=False, allow_wacc=rnd.random() < 0.3,
                              grids=grids, allow_struct=False, allow_blocks=False)
        key_costs(rnd, s, 0.7)
    elif family == 'single':
        kinds = [k for k in KINDS_SINGLE if k != 'scaled1']
        s = gen.gen_portfolio(rnd, kinds=kinds, tmax=7, tz_prob=0.12, allow_mip=False, max_assets=3, nodes_max=2,
                              allow_freq=False, allow_periodic=False, allow_wacc=rnd.random() < 0.3, grids=grids,
                              allow_struct=False, allow_blocks=False)
        if rnd.random() < 0.35:   # a scaled asset over a one-row-per-variable base: its `scale` variable sits at step 0
            g = s['grid']
            T = len(g['_pts']) - 1
            s['assets'].append(_scaled_single(rnd, g, s['prices'], T, 'sca%d' % (len(s['assets']) + 1), rnd.choice(s['nodes'])))
    elif family == 'multi':
        s = gen.gen_portfolio(rnd, kinds=KINDS_MULTI, tmax=7, tz_prob=0.12, allow_mip=False, max_assets=3, nodes_max=3,
                              allow_freq=rnd.random() < 0.3, allow_periodic=rnd.random() < 0.3, allow_wacc=rnd.random() < 0.3,
                              grids=grids, allow_struct=False, allow_blocks=False)
    else:
        s = gen.gen_portfolio(rnd, kinds=KINDS_ANY, tmax=7, tz_prob=0.15, allow_mip=True, max_assets=4, nodes_max=3, grids=grids)
    if family not in ('keyed', 'linked') and rnd.random() < 0.2:
        key_costs(rnd, s, 0.4)
    positive_aux(s)
    g = s['grid']
    T = len(g['_pts']) - 1
    step = pd.Timedelta(seconds=g['step_s'])
    k = rnd.choice(SF_KINDS)
    if family != 'any' and k in ('end', 'after', 'in_last') and rnd.random() < 0.6:
        k = 'mid'
    m = rnd.randint(1, max(1, T - 1))
    sf = {'first': gen.P(g, 0), 'before': gen.P(g, -2), 'last': gen.P(g, T - 1), 'in_last': gen.P(g, T - 1) + step / 2,
          'end': gen.P(g, T), 'after': gen.P(g, T + 2), 'mid': gen.P(g, m), 'second': gen.P(g, min(1, T - 1)),
          'offgrid': gen.P(g, m - 1) + step / 2}[k]
    if not gen.ok_local(sf, g):
        sf, k = gen.P(g, 0), 'first'
    if family in ('keyed', 'linked'):
        nS = rnd.choice([1, 2, 2, 2, 3, 3, 4])
        how = rnd.choice(['aux_only', 'aux_only', 'price_only', 'variants', 'variants', 'variants', 'perturb', 'perturb_all'])
    else:
        nS = rnd.choice([0, 1, 1, 1, 2, 2, 3, 3, 4])
        how = rnd.choice(['perturb', 'perturb', 'perturb', 'perturb', 'perturb_all', 'perturb_all', 'identical', 'identical', 'variants', 'aux_only'])
    pts = [pd.Timestamp(p) for p in g['_pts'][:-1]]
    first_f = next((i for i, p in enumerate(pts) if p >= sf), len(pts))
    samples = gen_samples(rnd, s['prices'], nS, how, first_f)
    case = {'scn': s, 'sf': gen.iso(sf), 'sf_kind': k, 'samples': samples, 'family': family, 'how': how}
    # the form in which start_future is handed to make_slp (all forms of one instant must give the same problem):
    # zone-aware grid: Timestamp in the zone of the grid / naive datetime (refers to the zone of the grid) / naive date (midnight) /
    # Timestamp of the same instant in another zone;  naive grid: datetime / Timestamp / date
    if g.get('tz') is not None:
        case['sf_form'] = rnd.choice(['aware', 'naive', 'naive', 'naive_date', 'other_zone'])
        case['sf_zone'] = rnd.choice([z for z in OTHER_ZONES if z != g['tz']])
    else:
        case['sf_form'] = rnd.choice(['naive', 'naive', 'ts', 'naive_date'])
    return case


def cases(n, seed):
    rnd = random.Random(seed * 104729 + 17)
    for i in range(n):
        yield 'slp%d' % i, gen_case(random.Random(rnd.getrandbits(48)))


# ------------------------------------------------------------------ implementation side
def sf_forms(case):
    """the forms of start_future that denote the instant of the case"""
    tz = case['scn']['grid'].get('tz')
    sf = pd.Timestamp(case['sf'])
    forms = ['aware', 'naive', 'other_zone'] if tz is not None else ['naive', 'ts']
    if sf == sf.normalize():
        forms.append('naive_date')
    return forms


def _start_future(case, tg, form=None):
    """start_future of the case in the given form (default: the form drawn with the case).  A naive date / datetime refers to the
    zone of the grid (since 6f56425, F-17l; before, make_slp raised TypeError for it on a zone-aware grid)."""
    sf = pd.Timestamp(case['sf'])     # naive local time of the grid
    tz = case['scn']['grid'].get('tz')
    form = form or case.get('sf_form') or ('aware' if tz is not None else 'naive')
    if form == 'naive_date' and sf == sf.normalize():
        return sf.date()
    if form == 'ts':
        return sf
    if form in ('naive', 'naive_date') or tz is None:
        return sf.to_pydatetime()
    sf = sf.tz_localize(tz)
    if form == 'other_zone':
        return sf.tz_convert(case.get('sf_zone') or 'UTC')
    return sf


def first_rows(mapping):
    return mapping[~mapping.index.duplicated(keep='first')]


def slp_col_of(op):
    cols = [c for c in op.mapping.columns if 'slp_step' in c]
    return cols[0] if cols else None


def run_impl(case):
    """returns dict: base (json), pts/end/sf instants, c_samples, and either slp (json) + slp column, or error class"""
    out = {'stage': None}
    try:
        rec = pf.setup_mono(case['scn'])
    except Exception as e:
        out['stage'] = 'setup'
        out['setup_error'] = err_class(e)
        return out
    op, portf, tg = rec['op'], rec['portf'], rec['tg']
    out['rec'] = rec
    tz = case['scn']['grid'].get('tz')
    out['base'] = problem_json(op)
    out['pts'] = [instant(p, tz) for p in tg.timepoints]
    out['end'] = instant(tg.end, tz)
    sf = _start_future(case, tg)
    out['sf_obj'] = sf
    out['sf'] = instant(sf, tz)
    samples = [{k: np.asarray(v, dtype=float) for k, v in ps.items()} for ps in case['samples']]
    out['samples_np'] = samples
    try:
        with Quiet():
            cs = portf.create_cost_samples(price_samples=copy.deepcopy(samples), timegrid=tg)
        if any(isinstance(v, eao.optimization.OptimProblem) for c in cs for v in np.atleast_1d(c)):
            out['stage'] = 'cost_samples'
            out['cost_samples_error'] = 'optimproblem-in-cost-vector'
            return out
        out['c_samples'] = [np.asarray(c, dtype=float) for c in cs]
    except Exception as e:
        out['stage'] = 'cost_samples'
        out['cost_samples_error'] = err_class(e)
        return out
    try:
        with Quiet():
            ops = make_slp(copy.deepcopy(op), portf, tg, sf, copy.deepcopy(samples))
        out['op_slp'] = ops
        out['slp'] = problem_json(ops)
        col = slp_col_of(ops)
        out['slp_col'] = col
        out['slp_column'] = [None if impl.isnan(v) else int(v) for v in ops.mapping[col].values]
    except Exception as e:
        out['error'] = err_class(e)
        out['error_text'] = '%s: %s' % (type(e).__name__, str(e)[:120])
    # the same instant in the other forms of start_future (zone-aware grids; a naive grid now and then)
    out['sf_form'] = case.get('sf_form') or ('aware' if tz is not None else 'naive')
    out['sf_other'] = []
    if tz is not None or (len(out['pts']) + len(samples)) % 4 == 0:
        for form in sf_forms(case):
            if form == out['sf_form']:
                continue
            sf2 = _start_future(case, tg, form)
            try:
                with Quiet():
                    ops2 = make_slp(copy.deepcopy(op), portf, tg, sf2, copy.deepcopy(samples))
                if 'error' in out:
                    d = 'builds a problem'
                else:
                    j2 = problem_json(ops2)
                    bad = [k for k in out['slp'] if j2.get(k) != out['slp'][k]] + (['slp column name'] if slp_col_of(ops2) != out['slp_col'] else [])
                    d = None if not bad else 'gives a problem that differs in %s' % bad
            except Exception as e:
                d = None if out.get('error') == err_class(e) else 'raises %s: %s' % (type(e).__name__, str(e)[:100])
            out['sf_other'].append((form, repr(sf2), d))
    return out


def request(case, ir):
    return {'op': 'slp', 'problem': {k: ir['base'][k] for k in ('c', 'l', 'u', 'rows', 'mapping', 'nodal') if k in ir['base']},
            'samples': [[fs(v) for v in c] for c in ir['c_samples']],
            'pts': ir['pts'], 'end': ir['end'], 'start_future': ir['sf']}


def compare(case, ir, mr):
    """ir = run_impl result, mr = driver answer (the value of 'ok')"""
    dis = []
    if 'error' in ir:
        if 'error' not in mr:
            dis.append('make_slp raised %s (%s) but the model builds a problem' % (ir['error'], ir.get('error_text')))
        elif mr['error'] != ir['error']:
            dis.append('error class: %s (model) vs %s (impl: %s)' % (mr['error'], ir['error'], ir.get('error_text')))
        return dis
    if 'error' in mr:
        return ['model rejects with %s but make_slp succeeds' % mr['error']]
    nS = len(ir['c_samples'])
    # exact unless the implementation divides by a non power of two or sums sample costs of straddling variables in floating point
    tolc = 0 if ((nS + 1) in (1, 2, 4, 8) and not any(mr.get('straddle', []))) else 1e-12
    m, i = mr['problem'], ir['slp']
    d = pf.cmp_vec('slp.c', m['c'], i['c'], tolc)
    if d:
        dis.append(d)
    dis += pf.cmp_problem('slp', m, i, 0, aspects=('l', 'u', 'mapping', 'nodal'))
    d = pf.cmp_rows('slp.rows(ordered)', m['rows'], i['rows'], 0, ordered=True)
    if d:
        dis.append(d)
    if [r['var'] for r in m['mapping']] != [r['var'] for r in i['mapping']]:
        dis.append('slp.mapping: labels %s (model) vs %s (impl)' % ([r['var'] for r in m['mapping']][:20], [r['var'] for r in i['mapping']][:20]))
    if mr['slp'] != ir['slp_column']:
        dis.append('slp column: %s (model) vs %s (impl)' % (mr['slp'][:30], ir['slp_column'][:30]))
    if mr['futureSteps']:
        want = 'slp_step_%d' % mr['futureSteps'][0]
        if ir['slp_col'] != want:
            dis.append('slp column name: %s (model) vs %s (impl)' % (want, ir['slp_col']))
    return dis


# ------------------------------------------------------------------ oracles on the real code
def _scale(op):
    b = np.maximum(np.abs(op.l), np.abs(op.u))
    return max(1.0, float(np.abs(op.c * b).sum()))


def _solve(op, **kw):
    try:
        with Quiet():
            r = op.optimize(**kw)
    except Exception as e:
        return 'error:' + type(e).__name__
    return r


def _with_cost(op, c, l=None, u=None):
    q = copy.deepcopy(op)
    q.c = np.asarray(c, dtype=float).copy()
    if l is not None:
        q.l = l.copy()
        q.u = u.copy()
    return q


def future_mask(ir):
    """variables of the base problem that belong to the future: first mapping row at or after start_future"""
    op = ir['rec']['op']
    fr = first_rows(op.mapping)
    first_f = next((k for k, p in enumerate(ir['pts']) if p >= ir['sf']), len(ir['pts']))
    lab = {int(i): bool(t >= first_f) for i, t in zip(fr.index, fr['time_step'].values)}
    n = len(op.c)
    by_label = np.array([lab.get(j, False) for j in range(n)], dtype=bool)
    # since commit c776509 make_slp builds the mask over all variables from the labels; variables without row are present
    return by_label, by_label, first_f, set(range(n)) - set(lab)


def structure_facts(ir):
    """violations about which variables make_slp duplicates (independent of any solver)"""
    v = []
    op = ir['rec']['op']
    by_label, by_pos, first_f, rowless = future_mask(ir)
    multi = bool(op.mapping.index.duplicated().any())
    info = {'rowless': sorted(rowless), 'multi_row': multi, 'first_future': first_f, 'n': len(op.c)}
    for form, what, d in ir.get('sf_other', []):
        if d is not None:
            v.append({'oracle': 'slp_start_future_forms', 'detail': 'start_future given as %s (%s) %s; given as %s (%s, the same instant) make_slp %s' % (
                form, what, d, ir['sf_form'], repr(ir['sf_obj']), ('raises ' + ir['error_text']) if 'error' in ir else 'builds the problem the model describes'),
                      'facts': {'kind': 'sf_form', 'form': form, 'main_form': ir['sf_form'], 'tz': ir['rec']['scn']['grid'].get('tz') is not None}})
    if 'error' in ir:
        if ir['error'] == 'index' and first_f >= len(ir['pts']) and ir['sf'] < ir['end']:
            v.append({'oracle': 'slp_builds', 'detail': 'make_slp raises %s: start_future lies strictly inside the last step, the future grid is empty (assertion start_future < end passes)' % ir['error_text'],
                      'facts': {'kind': 'empty_future'}})
        elif ir['error'] == 'index' and any(len(c) != len(op.c) for c in ir['c_samples']):
            za = zero_aux_series(ir['rec']['scn'], ir['samples_np'])
            v.append({'oracle': 'cost_samples', 'detail': 'make_slp raises %s: costs_only cost vectors have lengths %s but the problem has %d variables%s' % (
                ir['error_text'], [len(c) for c in ir['c_samples']], len(op.c),
                '' if not za else '; the sampled %s series %s of asset %s is identically zero in scenarios %s and not in the others (0 = the problem itself): the asset has another number of variables there' % za[0]),
                      'facts': {'kind': 'zero_aux_series' if za else 'cost_vector_length', 'parameter': za[0][0] if za else None, 'mip': bool(pf.is_mip(op)),
                                'periodic': any('periodicity' in a.get('args', {}) or 'periodicity' in a.get('base', {}).get('args', {}) for a in ir['rec']['scn']['assets'])}})
        elif ir['error'] == 'assert' and ir['sf'] >= ir['end']:
            pass   # documented rejection
        else:
            v.append({'oracle': 'slp_builds', 'detail': 'make_slp raises %s (variables without mapping row: %s)' % (ir['error_text'], sorted(rowless)[:6]),
                      'facts': {'kind': 'other_error', 'class': ir['error']}})
        return v, info
    # the SLP has the original variables plus nS copies of the future ones, with tiled bounds
    ops = ir['op_slp']
    nS, nf, n = len(ir['c_samples']), int(by_label.sum()), len(op.c)
    if len(ops.c) != n + nS * nf or len(ops.l) != len(ops.c) or len(ops.u) != len(ops.c) or ops.A.shape != ((nS + 1) * op.A.shape[0], len(ops.c)):
        v.append({'oracle': 'slp_future_vars', 'detail': 'SLP has %d variables / matrix %s; expected %d + %d * %d future variables and %d rows' % (
            len(ops.c), ops.A.shape, n, nS, nf, (nS + 1) * op.A.shape[0]), 'facts': {'kind': 'shape'}})
    elif nS and not (np.array_equal(ops.l[n:], np.tile(op.l[by_label], nS)) and np.array_equal(ops.u[n:], np.tile(op.u[by_label], nS))):
        v.append({'oracle': 'slp_future_vars', 'detail': 'bounds of the copies are not the bounds of the future variables', 'facts': {'kind': 'bounds'}})
    # every mapping label is a variable; the copy rows point at the copies
    lab = ops.mapping.index.values.astype(np.int64)
    if len(lab) and (lab.min() < 0 or lab.max() >= len(ops.c)):
        v.append({'oracle': 'slp_mapping_faithful', 'detail': 'mapping label %d outside the %d variables of the SLP' % (int(lab.max()), len(ops.c)), 'facts': {'kind': 'label_range'}})
    return v, info


def zero_aux_series(scn, samples):
    """[(parameter, key, asset, scenarios in which the series is identically zero)] for every extra_costs / start_costs given as key
    whose series is identically zero in some scenarios (0 = the problem's own prices, k = sample k-1) and not in others"""
    out = []
    for a in scen.all_asset_specs(scn):
        for par in ('extra_costs', 'start_costs'):
            key = a.get('args', {}).get(par)
            if isinstance(key, str) and key in scn['prices']:
                z = [not np.any(np.asarray(ser, dtype=float) != 0) for ser in [scn['prices'][key]] + [ps[key] for ps in samples if key in ps]]
                if any(z) and not all(z):
                    out.append((par, key, a['name'], [i for i, b in enumerate(z) if b]))
    return out


def cost_sample_check(ir):
    """`create_cost_samples` (costs_only=True) must give the cost vector of the full set-up with the same prices: every sample is
    set up as a problem of its own (`Portfolio.setup_optim_problem(sample)`), independently of the other samples.
    Returns (violations, [c of the separately set-up problem of sample k, or None])."""
    v, fulls = [], []
    rec = ir['rec']
    for k, (ps, cs) in enumerate(zip(ir['samples_np'], ir['c_samples'])):
        try:
            with Quiet():
                full = rec['portf'].setup_optim_problem(copy.deepcopy(ps), rec['tg'])
        except Exception as e:
            v.append({'oracle': 'cost_samples', 'detail': 'sample %d: full set-up raises %s' % (k, type(e).__name__), 'facts': {'kind': 'cost_samples_setup'}})
            fulls.append(None)
            continue
        fulls.append(np.asarray(full.c, dtype=float).copy())
        if len(full.c) != len(cs) or not np.allclose(full.c, cs, rtol=1e-12, atol=1e-12):
            bad = [int(j) for j in np.where(~np.isclose(full.c, cs, rtol=1e-12, atol=1e-12))[0][:4]] if len(full.c) == len(cs) else []
            same_price = [k2 for k2 in range(k) if all(np.array_equal(ps[q], ir['samples_np'][k2][q]) for q in ps if q.startswith('p'))]
            v.append({'oracle': 'cost_samples', 'detail': 'sample %d: costs_only vector differs from c of the separately set-up problem of the sample (lengths %d / %d; first entries %s: %s vs %s; earlier samples that have all `price` series in common with it: %s)' % (
                k, len(cs), len(full.c), bad, [float(cs[j]) for j in bad], [float(full.c[j]) for j in bad], same_price),
                      'facts': {'kind': 'cost_samples_differ'}})
    return v, fulls


def embed(mask, n, s):
    """index map base variable -> SLP variable for scenario s (0 = original future, i+1 = sample i); independent of the code"""
    nf = int(mask.sum())
    rank = np.cumsum(mask) - mask
    out = np.arange(n)
    if s > 0:
        out = np.where(mask, n + (s - 1) * nf + rank, out)
    return out


def oracle(case, ir, drv=None, max_k=3):
    """C17 inequalities on the real code.  Returns (violations, observed dict)."""
    viol, obs = [], {}
    v, info = structure_facts(ir)
    viol += v
    obs.update(info)
    if 'error' in ir:
        return viol, obs
    v, c_full = cost_sample_check(ir)
    viol += v
    rec = ir['rec']
    op, portf, tg = rec['op'], rec['portf'], rec['tg']
    ops = ir['op_slp']
    by_label, by_pos, first_f, rowless = future_mask(ir)
    n = len(op.c)
    nS = len(ir['c_samples'])
    lp = not pf.is_mip(op)
    obs['lp'] = lp
    if not lp:
        return viol, obs
    mask = by_pos
    scale = _scale(op)
    tol = 1e-7 * scale
    # scenario cost vectors: present part of the problem's own c, future part of the sample
    cs = [op.c.copy()] + [np.where(mask, c, op.c) for c in ir['c_samples']]
    res_slp = _solve(copy.deepcopy(ops))
    if isinstance(res_slp, str):
        obs['slp_status'] = res_slp
        base = _solve(copy.deepcopy(op))
        if not isinstance(base, str):
            viol.append({'oracle': 'slp_solvable', 'detail': 'base problem solves (value %.6g) but the SLP does not: %s' % (base.value, res_slp), 'facts': {'kind': 'slp_unsolved'}})
        return viol, obs
    V_slp = float(res_slp.value)
    obs['V_slp'] = V_slp
    # ---- value of the SLP point recomputed from its parts (slp_structure): non-straddling present variables with the problem's own
    #      cost, straddling present variables (present, but with a mapping row at a future step; since commit 20639b0) and future
    #      variables with the cost of the scenario, mean over the scenarios
    fut_steps0 = set(int(t) for t in tg.I[first_f:]) if first_f < tg.T else set()
    strad0 = np.zeros(n, dtype=bool)
    for j in set(int(i) for i in op.mapping.index[op.mapping['time_step'].isin(list(fut_steps0))]):
        if 0 <= j < n and not mask[j]:
            strad0[j] = True
    cs_struct = [op.c.copy()] + [np.where(mask | strad0, c, op.c) for c in ir['c_samples']]
    xs = [res_slp.x[embed(mask, n, s)] for s in range(nS + 1)]
    recomb = float(np.mean([-np.dot(c, x) for c, x in zip(cs_struct, xs)]))
    if abs(recomb - V_slp) > tol:
        viol.append({'oracle': 'slp_value_mean', 'detail': 'SLP value %.8g but mean over scenarios of the recombined values is %.8g' % (V_slp, recomb), 'facts': {'kind': 'value_mean'}})
    for s, x in enumerate(xs):
        w, what = pf.feasibility_violation(op, x)
        if w > 1e-5:
            viol.append({'oracle': 'slp_recombined_feasible', 'detail': 'scenario %d: (x_present, x_future^%d) violates %s of the base problem by %.3g' % (s, s, what, w), 'facts': {'kind': 'recombined_infeasible'}})
            break
    # ---- the scenarios of the STATEMENT: every scenario with its own full cost vector.  When the samples share the present
    #      prices this differs from `cs` only for present-stage variables whose cost depends on future prices: variables of an
    #      asset on a coarser frequency whose block starts in the present and extends into the future
    fut_steps = set(int(t) for t in tg.I[first_f:]) if first_f < tg.T else set()
    m_all = op.mapping
    strad = sorted(set(int(i) for i in m_all.index[m_all['time_step'].isin(list(fut_steps))]) - set(np.where(mask)[0].tolist()))
    strad_diff = bool(strad) and any(abs(float(c[j]) - float(op.c[j])) > 1e-12 for c in ir['c_samples'] for j in strad)
    obs['straddling_present_vars'] = len(strad)
    facts_s = {'straddling_cost_differs': strad_diff}
    # scenario cost vectors when the samples do NOT share the present prices (outside the premise of the statement): the scenario
    # as make_slp reads it - own cost for future and straddling variables, the problem's cost for the other present variables
    own = mask.copy()
    own[strad] = True
    # the scenarios themselves are the separately set-up problems of the samples (`c_full`; the vector create_cost_samples gives for
    # a sample is compared with it above and is what make_slp / the robust target are fed with)
    c_true = [cf if (cf is not None and len(cf) == n) else np.asarray(c, dtype=float) for cf, c in zip(c_full, ir['c_samples'])]
    obs['cost_samples_are_scenario_costs'] = bool(all(len(a) == len(b) and np.allclose(a, b, rtol=1e-12, atol=1e-12) for a, b in zip(c_true, ir['c_samples'])))
    cs_read = [op.c.copy()] + [np.where(own, c, op.c) for c in c_true]
    if case.get('how') in HOW_SHARED_PRESENT:
        cs = [op.c.copy()] + [c.copy() for c in c_true]
        pres_other = [j for j in np.where(~mask)[0] if j not in set(strad)]
        if any(np.abs(c[pres_other] - op.c[pres_other]).max(initial=0.0) > 1e-9 * scale for c in cs[1:]):
            obs['present_costs_differ_although_present_prices_shared'] = True
            cs = cs_read
    else:
        cs = cs_read
    # ---- per-scenario optima, wait-and-see bound
    det = []
    for c in cs:
        r = _solve(_with_cost(op, c))
        det.append(r)
    if any(isinstance(r, str) for r in det):
        obs['det_status'] = [r if isinstance(r, str) else 'ok' for r in det]
        return viol, obs
    V = [float(r.value) for r in det]
    WS = float(np.mean(V))
    obs.update({'V': V, 'WS': WS})
    if V_slp > WS + 2 * tol:
        viol.append({'oracle': 'slp_le_wait_and_see', 'detail': 'SLP optimum %.8g exceeds the mean of the per-scenario optima %.8g (tolerance %.2g)' % (V_slp, WS, 2 * tol), 'facts': dict(facts_s, kind='ws')})
    distinct = any(not np.allclose(c, cs[0]) for c in cs[1:])
    obs['scenarios_differ'] = distinct
    if not distinct and abs(V_slp - V[0]) > 2 * tol:
        viol.append({'oracle': 'slp_eq_det_of_equal', 'detail': 'all scenarios coincide but SLP optimum %.8g differs from the deterministic optimum %.8g' % (V_slp, V[0]), 'facts': dict(facts_s, kind='equal_scenarios')})
    # ---- expected value of fixing the present to scenario k's decision
    eev = []
    for k in list(range(nS + 1))[:max_k]:
        xk = det[k].x
        vals = []
        for c in cs:
            l, u = op.l.copy(), op.u.copy()
            l[~mask] = xk[~mask]
            u[~mask] = xk[~mask]
            r = _solve(_with_cost(op, c, l, u))
            if isinstance(r, str):   # numerical: retry with a hair of slack around the fixed values
                l[~mask] = np.maximum(op.l[~mask], xk[~mask] - 1e-7)
                u[~mask] = np.minimum(op.u[~mask], xk[~mask] + 1e-7)
                r = _solve(_with_cost(op, c, l, u))
            vals.append(None if isinstance(r, str) else float(r.value))
        if any(x is None for x in vals):
            eev.append(None)   # no recourse for some scenario (possible: the decision of scenario k need not admit recourse numerically)
            continue
        e = float(np.mean(vals))
        eev.append(e)
        if e > V_slp + 2 * tol:
            viol.append({'oracle': 'ev_le_slp', 'detail': 'fixing the present to the optimum of scenario %d gives mean value %.8g > SLP optimum %.8g (tolerance %.2g)' % (k, e, V_slp, 2 * tol), 'facts': dict(facts_s, kind='eev', k=k)})
    obs['EEV'] = eev
    # the same lower bound computed the way a user of the package would: the present fixed through fix_time_window
    # (index mask of the present steps, values of the scenario-0 optimum), one problem per scenario with its own prices
    try:
        if case.get('how') in HOW_SHARED_PRESENT and first_f > 0 and eev and eev[0] is not None:
            win = np.zeros(tg.T, dtype=bool)
            win[:first_f] = True
            vals = []
            for s_i in range(nS + 1):
                pr = rec['prices'] if s_i == 0 else {k: np.asarray(v, dtype=float) for k, v in case['samples'][s_i - 1].items()}
                with Quiet():
                    opf = portf.setup_optim_problem(pr, tg, fix_time_window={'I': win.copy(), 'x': np.array(det[0].x, dtype=float)})
                rf = _solve(opf)
                vals.append(None if isinstance(rf, str) else float(rf.value))
            if all(v is not None for v in vals):
                e_lib = float(np.mean(vals))
                obs['EEV_via_fix_time_window'] = e_lib
                if not len(rowless) and abs(e_lib - eev[0]) > 2 * tol + 1e-6 * scale:
                    viol.append({'oracle': 'ev_le_slp', 'detail': 'fixing the present steps to the optimum of scenario 0 through fix_time_window gives mean value %.8g, fixing the present VARIABLES (all of which have a mapping row at a present step) by bounds gives %.8g' % (
                        e_lib, eev[0]), 'facts': dict(facts_s, kind='eev_fix_time_window_differs')})
                elif e_lib > V_slp + 2 * tol + 1e-6 * scale:
                    viol.append({'oracle': 'ev_le_slp', 'detail': 'fixing the present steps to the optimum of scenario 0 through fix_time_window gives mean value %.8g > SLP optimum %.8g (own bounds on the present variables: %.8g)' % (
                        e_lib, V_slp, eev[0]), 'facts': dict(facts_s, kind='eev_fix_time_window')})
    except Exception as e:
        obs['EEV_via_fix_time_window'] = 'error: %s' % type(e).__name__
    obs['chain_strict'] = bool(eev and eev[0] is not None and (V_slp - eev[0] > 10 * tol or WS - V_slp > 10 * tol))
    # ---- read-out of the SLP result (also with several mapping rows per variable and row-less variables)
    multi = info['multi_row']
    try:
        with Quiet():
            out = eao.io.extract_output(portf, ops, res_slp, rec['prices'])
        obs['readout'] = 'ok'
    except Exception as e:
        out = None
        obs['readout'] = type(e).__name__
        viol.append({'oracle': 'slp_readout', 'detail': 'extract_output on the SLP result raises %s: %s (mapping has %d rows, %d distinct labels, %d variables)' % (
            type(e).__name__, str(e)[:80], len(ops.mapping), ops.mapping.index.nunique(), len(ops.c)), 'facts': {'kind': 'slp_readout_error', 'multi_row': multi}})
    if out is not None:
        disp = out['dispatch']
        cols = impl.disp_cols(portf)
        m0 = op.mapping
        T = tg.T
        # a PRESENT variable (first row in the present) may have a further mapping row on a future step (order or coarse
        # step straddling start_future): its contribution is common to all scenarios and must NOT be divided (F-17h, repaired in 43d96c3)
        obs['straddling_variable'] = bool(any((not mask[int(j)]) and int(t) >= first_f for j, t in zip(m0.index, m0['time_step'].values)))
        # (a) DCF table sums to the value
        tot = float(np.nansum(out['DCF'].values))
        if abs(tot - V_slp) > 2 * tol:
            viol.append({'oracle': 'slp_dcf_total', 'detail': 'SLP value %.8g but the DCF table sums to %.8g' % (V_slp, tot), 'facts': {'kind': 'dcf_total', 'multi_row': multi, 'rowless': bool(rowless)}})
        # (b) dispatch balances at every node (present steps: common decision; future steps: mean of balanced scenarios)
        dsc = max(1.0, float(np.abs(disp.values).max()) if disp.size else 1.0)
        for nd in portf.nodes:
            cs_ = [c for (a, nn), c in cols.items() if nn == nd]
            if len(set(cs_)) != len(cs_) or any(c not in disp.columns for c in cs_):
                continue
            bal = np.sum([disp[c].values.astype(float) for c in cs_], axis=0)
            bad = np.where(np.abs(bal) > 2e-6 * dsc)[0]
            if len(bad):
                t = int(bad[0])
                viol.append({'oracle': 'slp_dispatch_balance', 'detail': 'node %s step %d (%s): SLP dispatch table sums to %.6g' % (nd, t, 'future' if t >= first_f else 'present', bal[t]),
                             'facts': {'kind': 'dispatch_balance', 'future': bool(t >= first_f), 'multi_row': multi}})
                break
        # (c) dispatch table = present decision / mean over the scenarios of the future decisions
        for (a, nd), col in cols.items():
            if list(cols.values()).count(col) > 1 or col not in disp.columns:
                continue
            want = np.zeros(T)
            sel = m0[(m0['asset'] == a) & (m0['type'] == 'd') & (m0['node'] == nd)]
            for j, r in zip(sel.index, sel.to_dict('records')):
                f = r.get('disp_factor', 1.0)
                f = 1.0 if impl.isnan(f) else f
                t = int(r['time_step'])
                if mask[j]:
                    want[t] += f * float(np.mean([x[j] for x in xs]))
                else:
                    want[t] += f * float(res_slp.x[j])
            got = disp[col].values.astype(float)
            bad = np.where(np.abs(got - want) > 1e-6 * max(1.0, float(np.abs(want).max())))[0]
            if len(bad):
                t = int(bad[0])
                viol.append({'oracle': 'slp_dispatch_mean', 'detail': 'dispatch %s step %d (%s): table says %.8g, expected %.8g (present decision / mean over the %d scenarios)' % (
                    col, t, 'future' if t >= first_f else 'present', got[t], want[t], nS + 1), 'facts': {'kind': 'dispatch_mean', 'future': bool(t >= first_f), 'multi_row': multi}})
                break
    if out is not None and drv is not None:
        viol += [{'oracle': 'corr', 'detail': d, 'facts': {'kind': 'readout_corr'}} for d in corr_readout(ir, res_slp, out, drv)]
    # ---- robust target
    #      the way a user does it: the robust target is fed with the problem's own c and the vectors of create_cost_samples (`cr_fed`);
    #      the worst case of a solution is taken over the scenarios themselves (`cr`: the separately set-up problems)
    cr_fed = [op.c.copy()] + [np.asarray(c, dtype=float) for c in ir['c_samples']]
    cr = [op.c.copy()] + [c.copy() for c in c_true]
    rr = _solve(copy.deepcopy(op), target='robust', samples=[c.copy() for c in cr_fed])
    if isinstance(rr, str):
        obs['robust_status'] = rr
        return viol, obs
    worst = lambda x: float(min(-np.dot(c, x) for c in cr))
    w_r = worst(rr.x)
    w_fed = float(min(-np.dot(c, rr.x) for c in cr_fed))
    obs['robust_worst'] = w_r
    fw, what = pf.feasibility_violation(op, rr.x)
    if fw > 1e-5:
        viol.append({'oracle': 'robust_feasible', 'detail': 'robust solution violates %s by %.3g' % (what, fw), 'facts': {'kind': 'robust_infeasible'}})
    detr = [det[0]] + [_solve(_with_cost(op, c)) for c in cr[1:]]
    if not any(isinstance(r, str) for r in detr):
        for k, r in enumerate(detr):
            if w_r < worst(r.x) - 2 * tol:
                viol.append({'oracle': 'robust_ge_single', 'detail': 'worst case of the robust solution %.8g is below the worst case %.8g of the optimum of scenario %d' % (w_r, worst(r.x), k), 'facts': {'kind': 'robust_lower', 'k': k}})
        ub = min(float(r.value) for r in detr)
        obs['robust_ub'] = ub
        if w_r > ub + 2 * tol:
            viol.append({'oracle': 'robust_le_min_opt', 'detail': 'worst case of the robust solution %.8g exceeds the smallest per-scenario optimum %.8g' % (w_r, ub), 'facts': {'kind': 'robust_upper'}})
        obs['robust_strict'] = bool(ub - w_r > 10 * tol or any(w_r - worst(r.x) > 10 * tol for r in detr))
    own = float(-np.dot(op.c, rr.x))
    obs['robust_reported'] = float(rr.value)
    obs['robust_reported_is_worst'] = bool(abs(float(rr.value) - w_r) <= 2 * tol)
    if abs(float(rr.value) - own) > 2 * tol:
        viol.append({'oracle': 'robust_reported_value', 'detail': 'results.value %.8g of the robust target is not -c.x = %.8g with the problem\'s own c' % (rr.value, own), 'facts': {'kind': 'robust_value'}})
    if drv is not None:
        m = drv.ok({'op': 'robust_value', 'samples': [[fs(v) for v in c] for c in cr_fed], 'x': [fs(v) for v in rr.x], 'c': [fs(v) for v in op.c]})
        if not pf.feq(Fraction(m['min']), Fraction(w_fed), 1e-9) or not pf.feq(Fraction(m['reported']), Fraction(float(rr.value)), 1e-9):
            viol.append({'oracle': 'corr', 'detail': 'robust objective: model min %s / reported %s vs impl %.10g / %.10g' % (
                float(Fraction(m['min'])), float(Fraction(m['reported'])), w_fed, rr.value), 'facts': {'kind': 'robust_corr'}})
    return viol, obs


def corr_readout(ir, res, out, drv):
    """model of the SLP part of extract_output vs the real dispatch table"""
    ops = ir['op_slp']
    portf = ir['rec']['portf']
    T = ir['rec']['tg'].T
    cols = impl.disp_cols(portf)
    cells, where = [], []
    for (a, nd), col in cols.items():
        if list(cols.values()).count(col) > 1 or col not in out['dispatch'].columns:
            continue
        for t in range(T):
            cells.append([a, nd, t])
            where.append((col, t))
    m = drv.ok({'op': 'slp_readout', 'mapping': ir['slp']['mapping'], 'slp': ir['slp_column'], 'x': [fs(v) for v in res.x], 'cells': cells})
    dis = []
    if m['index_error']:
        dis.append('readout: model says a mapping label lies outside x but extract_output did not raise')
    for (col, t), v in zip(where, m['dispatch']):
        got = float(out['dispatch'][col].values[t])
        if not pf.feq(Fraction(v), Fraction(got), 1e-9):
            dis.append('readout: dispatch %s step %d: %s (model) vs %s (impl)' % (col, t, float(Fraction(v)), got))
            break
    return dis


# ------------------------------------------------------------------ one case, self test
def aux_differs_price_equal(case):
    """some asset has the same `price` series in two of the samples while another sampled series that enters its costs differs"""
    for a in scen.all_asset_specs(case['scn']):
        args = a.get('args', {})
        p = args.get('price')
        aux = [v for k, v in args.items() if k in ('extra_costs', 'start_costs', 'running_costs', 'costs_time_series') and isinstance(v, str)]
        if not aux:
            continue
        ss = case['samples']
        for i in range(len(ss)):
            for j in range(i):
                if (not isinstance(p, str) or ss[i].get(p) == ss[j].get(p)) and any(ss[i].get(q) != ss[j].get(q) for q in aux):
                    return True
    return False


def run_case(case, drv, with_oracle=True):
    r = {'evaluated': 1, 'nontrivial': False, 'features': [], 'disagreements': [], 'violations': []}
    f = r['features']
    f += ['family:' + case['family'], 'sf:' + case['sf_kind'], 'nS:%d' % len(case['samples']), 'how:' + case['how']]
    tzg = case['scn']['grid'].get('tz')
    f.append('sf_form:%s/%s' % ('tz-grid' if tzg is not None else 'naive-grid', case.get('sf_form') or ('aware' if tzg is not None else 'naive')))
    for a in case['scn']['assets']:
        f.append('asset:' + a['type'] + ('/' + a['base']['type'] if 'base' in a else ''))
    if aux_differs_price_equal(case):
        f.append('aux-differs-price-equal')
    ir = run_impl(case)
    if ir['stage'] == 'setup':
        f.append('setup-error:' + ir['setup_error'])
        return r
    if ir['stage'] == 'cost_samples':
        f.append('cost-samples-error:' + ir['cost_samples_error'])
        inactive = [a.name for a in ir['rec']['portf'].assets if len(ir['rec']['captured'][a.name].c) == 0]
        r['violations'].append({'oracle': 'cost_samples', 'detail': 'create_cost_samples fails (%s) although the full set-up works; assets without variables (window outside the horizon): %s' % (
            ir['cost_samples_error'], inactive), 'facts': {'kind': 'cost_samples_error', 'class': ir['cost_samples_error']}})
        return r
    mr = drv.ok(request(case, ir))
    r['disagreements'] += [{'component': 'make_slp', 'detail': d} for d in compare(case, ir, mr)]
    f.append('impl:' + (ir.get('error') or 'ok'))
    if ir.get('sf_other'):
        f.append('sf-forms-compared')
    if 'error' not in ir:
        f.append('nF:%s' % ('0' if mr.get('nF') == 0 else ('all' if mr.get('nF') == len(ir['base']['c']) else 'some')))
    if with_oracle:
        v, obs = oracle(case, ir, drv)
        for x in v:
            if x['oracle'] == 'corr':
                r['disagreements'].append({'component': x['facts']['kind'], 'detail': x['detail']})
            else:
                r['violations'].append(x)
        r['observed'] = obs
        if obs.get('multi_row'):
            f.append('multi-row')
        if obs.get('rowless'):
            f.append('rowless')
        if 'V_slp' in obs:
            f.append('slp-solved')
        if obs.get('chain_strict'):
            f.append('chain-strict')
        if obs.get('robust_strict'):
            f.append('robust-strict')
        if 'robust_reported_is_worst' in obs:
            f.append('robust-reported-%s-worst-case' % ('is' if obs['robust_reported_is_worst'] else 'is-not'))
        r['nontrivial'] = bool(obs.get('scenarios_differ')) and 'V_slp' in obs
    else:
        r['nontrivial'] = 'error' not in ir and mr.get('nF', 0) not in (0, len(ir['base']['c']))
    return r


def selftest(n, seed, drv, with_oracle=True, verbose=False):
    from collections import Counter
    feats, dis, viol = Counter(), [], []
    cnt = {'cases': 0, 'nontrivial': 0}
    for cid, case in cases(n, seed):
        try:
            r = run_case(case, drv, with_oracle)
        except Exception as e:
            import traceback
            dis.append((cid, 'harness error %s: %s\n%s' % (type(e).__name__, e, traceback.format_exc()[-800:])))
            continue
        cnt['cases'] += 1
        cnt['nontrivial'] += bool(r['nontrivial'])
        feats.update(r['features'])
        for d in r['disagreements']:
            dis.append((cid, d['component'] + ': ' + d['detail']))
        for v in r['violations']:
            viol.append((cid, v))
        if verbose and (r['disagreements'] or r['violations']):
            print(cid, [d['detail'][:160] for d in r['disagreements']], [(v['oracle'], v['facts']) for v in r['violations']], flush=True)
    return {'counts': cnt, 'features': dict(feats), 'disagreements': dis, 'violations': viol}


class ScratchDriver:
    """driver started from a scratch Main.lean through the interpreter (development only)"""

    def __init__(self, main='/tmp/slp/Main.lean'):
        import subprocess
        from ..lean import LEAN_DIR
        self.p = subprocess.Popen(['lake', 'env', 'lean', '--run', main], cwd=LEAN_DIR, stdin=subprocess.PIPE,
                                  stdout=subprocess.PIPE, text=True, bufsize=1)

    def ask(self, req):
        import json
        self.p.stdin.write(json.dumps(req) + '\n')
        self.p.stdin.flush()
        line = self.p.stdout.readline()
        if not line:
            raise RuntimeError('driver died')
        return json.loads(line)

    def ok(self, req):
        r = self.ask(req)
        if 'ok' not in r:
            raise RuntimeError('driver error: %s' % r.get('err'))
        return r['ok']

    def close(self):
        try:
            self.p.stdin.close()
            self.p.wait(timeout=5)
        except Exception:
            self.p.kill()


if __name__ == '__main__':
    import argparse
    import json
    from collections import Counter
    ap = argparse.ArgumentParser()
    ap.add_argument('-n', type=int, default=100)
    ap.add_argument('--seed', type=int, default=1)
    ap.add_argument('--scratch', default=None)
    ap.add_argument('--no-oracle', action='store_true')
    ap.add_argument('-v', action='store_true')
    a = ap.parse_args()
    if a.scratch:
        drv = ScratchDriver(a.scratch)
    else:
        from ..lean import Driver
        drv = Driver()
    res = selftest(a.n, a.seed, drv, with_oracle=not a.no_oracle, verbose=a.v)
    drv.close()
    print(json.dumps(res['counts']))
    print(json.dumps(dict(sorted(res['features'].items())), indent=0)[:6000])
    print('disagreements:', len(res['disagreements']))
    for cid, d in res['disagreements'][:25]:
        print('  ', cid, d[:400])
    vc = Counter((v['oracle'], json.dumps(v['facts'], sort_keys=True)) for _, v in res['violations'])
    print('violations:', len(res['violations']))
    for k, c in vc.most_common():
        print('  ', c, k)
    shown = set()
    for cid, v in res['violations']:
        key = (v['oracle'], v['facts'].get('kind'))
        if key not in shown:
            shown.add(key)
            print('  e.g.', cid, v['oracle'], v['detail'][:300])
