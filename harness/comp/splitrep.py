"""C14 - stream 'repeat': intervals that look alike in PART of their data and differ in the rest.

A split optimisation cuts the horizon into intervals and solves one problem per interval.  With price curves drawn at random
(or sin/cos over the whole horizon) no two intervals share anything, so nothing is learnt about what happens when two interval
problems agree in some of their data (cost vector, bounds, restriction matrix, right-hand sides, restriction types) and differ in
the rest - recurring daily price profiles / typical days, flat prices, no prices at all, together with take quantities per day,
capacities, efficiencies, fuel factors that are the interval's own.  This module generates that region as a family:

* the horizon is m intervals of k steps (plus, in some cases, a shorter last one);
* the data of the portfolio fall into three categories: COST data (prices, extra costs, transport / start / running costs),
  BOUND data (minimum / maximum capacities) and RESTRICTION data (take quantities per period, fuel efficiency, fuel consumption
  when on / per start, conversion factors, heat share, minimum-load threshold);  per case every category is either REPEATING
  (the series of the first interval tiled over the horizon, or flat; interval dicts replaced by a scalar; the same take quantity
  in every interval) or the INTERVAL'S OWN (a series drawn per step or constant within each interval and different between them;
  a take quantity per interval) - mostly: costs and bounds repeat, restriction data are the interval's own;
* contracts, extended transports, multi-commodity contracts and plants / CHPs get take periods PER INTERVAL (the interval itself,
  or the same sub-window of every interval), so that they do not couple the intervals; in some cases the periods drawn by the
  generic generator (spanning intervals) are kept;
* scaled assets carry the capacities of their base asset into the restriction matrix, plants with 'on' variables their minimum /
  maximum capacity, plants with a fuel node their efficiency and fuel factors (through the nodal restrictions), storages their
  level restrictions.

What is demanded of the split result is C14's own statement, by the oracles of props/c14.py plus two references computed here:
`own_interval_optima` (every interval problem set up and solved ON ITS OWN, on a fresh portfolio and an interval grid derived from
the whole grid, independent of the objects the split set-up made) and `within_interval_violation` (the concatenated split solution
against every bound and every row of the UNSPLIT problem that touches variables of one interval only - "feasible for what does
not couple the intervals").
"""
import copy
import random

import numpy as np
import pandas as pd

from .. import gen, scen

COST_PARAMS = ('price', 'extra_costs', 'costs_time_series', 'start_costs', 'running_costs', 'min_load_costs')
BOUND_PARAMS = ('min_cap', 'max_cap')
RESTR_PARAMS = ('fuel_efficiency', 'consumption_if_on', 'start_fuel', 'conversion_factor_power_heat', 'max_share_heat', 'min_load_threshhold')
CATEGORY = dict([(p, 'cost') for p in COST_PARAMS] + [(p, 'bound') for p in BOUND_PARAMS] + [(p, 'restr') for p in RESTR_PARAMS])
CONTRACT_TYPES = ('Contract', 'MultiCommodityContract')
PLANT_TYPES = ('Plant', 'CHPAsset', 'CHPAsset_with_min_load_costs')
KEYED_CAP_TYPES = ('SimpleContract', 'Contract', 'MultiCommodityContract')

# which categories repeat from interval to interval (the others are the interval's own)
MODES = ([{'cost': True, 'bound': True, 'restr': False}] * 7 + [{'cost': True, 'bound': False, 'restr': True}] * 2
         + [{'cost': False, 'bound': True, 'restr': True}] * 2 + [{'cost': True, 'bound': False, 'restr': False}] * 2
         + [{'cost': True, 'bound': True, 'restr': True}])


def interval_string(rnd, g, k):
    tot = g['step_s'] * k
    if tot % 86400 == 0 and g.get('tz') is None and rnd.random() < 0.5:
        return 'd' if tot == 86400 else '%dd' % (tot // 86400)
    return ('%dmin' % (tot // 60)) if tot % 3600 else ('%dh' % (tot // 3600))


def _num(v):
    return isinstance(v, (int, float)) and not isinstance(v, bool)


def _tile(vals, k, form):
    if form == 'flat':
        return [vals[0]] * len(vals)
    return [vals[i % k] for i in range(len(vals))]


def _per_interval(vals, k):
    return [vals[(i // k) * k] for i in range(len(vals))]


def take_periods(rnd, g, k, T, form):
    """[(first step, step after the last)] of one take period per interval: the interval itself ('aligned') or the same sub-window
    of every interval ('inner'); a period of the last, shorter interval may reach beyond the horizon (pro rata in both problems)"""
    a, b = 0, k
    if form == 'inner' and k >= 2:
        a = rnd.randint(0, k - 1)
        b = rnd.randint(a + 1, k)
    return [(c + a, c + b) for c in range(0, T, k) if c + a < T]


def take_values(rnd, periods, lo, hi, own, kind):
    """quantities of a max_take ('max') / min_take ('min') over the periods for an asset with capacities lo <= 0 <= hi resp. 0 <= lo <= hi
    (quantities in units of the sum of the dispatch): the interval's own, or the same in every interval"""
    def one(n):
        if kind == 'max':
            return gen.q8(rnd, 0, max(0.125, n * hi)) if hi > 0 else 0.0
        if lo < 0:
            return gen.q8(rnd, n * lo, 0)
        return gen.q8(rnd, 0, max(0.0, n * hi / 4))
    n0 = periods[0][1] - periods[0][0]
    if not own:
        return [one(n0)] * len(periods)
    vals = [one(e - s) for s, e in periods]
    if len(vals) > 2 and rnd.random() < 0.3:
        i, j = rnd.sample(range(len(vals)), 2)      # two intervals that do pose the same problem
        vals[j] = vals[i]
    return vals


def take_dicts(rnd, g, k, T, form, lo, hi, own):
    """(max_take, min_take) per interval, min <= max in every period; either may be None"""
    per = take_periods(rnd, g, k, T, form)
    pts = [(gen.P(g, s), gen.P(g, e)) for s, e in per]
    if not per or not all(gen.ok_local(s, g) and gen.ok_local(e, g) for s, e in pts):
        return None, None
    r = rnd.random()
    want_max, want_min = r < 0.85, (r >= 0.85 or rnd.random() < 0.35)
    if hi <= 0:
        want_max, want_min = False, True
    mx = take_values(rnd, per, lo, hi, own, 'max') if want_max else None
    mn = take_values(rnd, per, lo, hi, own, 'min') if want_min else None
    if mx is not None and mn is not None:
        mn = [min(a_, b_) for a_, b_ in zip(mn, mx)]

    def d(vals):
        return None if vals is None else {'start': [gen.dtv(s) for s, _ in pts], 'end': [gen.dtv(e) for _, e in pts], 'values': list(vals)}
    return d(mx), d(mn)


def _cap_of(args, par, default):
    v = args.get(par)
    if _num(v):
        return float(v)
    if isinstance(v, dict) and v.get('values'):
        return float(v['values'][0])
    return default


def repeat_data(rnd, s, k, mode, drop_windows=True, take_form='aligned'):
    """re-expresses the data of scenario `s` (intervals of k steps) along `mode` (category -> repeats?); returns notes"""
    g = s['grid']
    prices = s['prices']
    T = len(next(iter(prices.values()))) if prices else scen.make_grid(g).T
    notes = []
    roles = {}
    flat = rnd.random() < 0.15
    for a in scen.all_asset_specs(s):
        args = a.get('args', {})
        if drop_windows and a['type'] not in ('OrderBook',):
            args.pop('start', None)
            args.pop('end', None)
        # interval dicts -> scalar where the category repeats
        for par, cat in CATEGORY.items():
            v = args.get(par)
            if isinstance(v, str):
                roles.setdefault(v, set()).add(cat)
            elif isinstance(v, dict) and 'values' in v and mode[cat]:
                args[par] = float(v['values'][0])
        # capacities of the interval's own: the scalar capacities times a factor per interval (one series per asset: min <= max stays)
        if not mode['bound'] and a['type'] in KEYED_CAP_TYPES and _num(args.get('min_cap')) and _num(args.get('max_cap')) and rnd.random() < 0.7:
            f = [rnd.choice([0.5, 0.75, 1.0, 1.25, 1.5]) for _ in range(T // k + 1)]
            k1, k2 = 'capr%d' % len(prices), 'capr%d' % (len(prices) + 1)
            prices[k1] = [args['min_cap'] * f[i // k] for i in range(T)]
            prices[k2] = [args['max_cap'] * f[i // k] for i in range(T)]
            roles[k1] = roles[k2] = {'bound'}
            args['min_cap'], args['max_cap'] = k1, k2
            notes.append('own-capacities')
        # take periods per interval
        if a['type'] in CONTRACT_TYPES + ('ExtendedTransport',) + PLANT_TYPES and take_form != 'keep':
            had = 'max_take' in args or 'min_take' in args
            if a['type'] in PLANT_TYPES:
                lo, hi = 0.0, _cap_of(args, 'max_cap', 4.0)
                want = had or rnd.random() < 0.3
            elif a['type'] == 'ExtendedTransport':
                lo, hi = _cap_of(args, 'min_cap', 0.0), _cap_of(args, 'max_cap', 0.0)
                want = had or rnd.random() < 0.5
            else:
                lo, hi = _cap_of(args, 'min_cap', -3.0), _cap_of(args, 'max_cap', 3.0)
                want = had or rnd.random() < 0.6
            args.pop('max_take', None)
            args.pop('min_take', None)
            if want and not (lo == hi) and not (lo > 0 and a['type'] not in PLANT_TYPES):
                mx, mn = take_dicts(rnd, g, k, T, take_form, lo, hi, own=not mode['restr'])
                if a['type'] in PLANT_TYPES:
                    mn = None          # a forced quantity with minimum load / minimum times is mostly infeasible
                if mx is not None:
                    args['max_take'] = mx
                if mn is not None:
                    args['min_take'] = mn
                if mx is not None or mn is not None:
                    notes.append('takes-per-interval:' + a['type'])
    for key in list(prices):
        cats = roles.get(key, {'cost'})
        if key.startswith('capr'):
            continue
        if any(mode[c] for c in cats):
            prices[key] = _tile(prices[key], k, 'flat' if flat else 'tile')
        elif rnd.random() < 0.4:
            prices[key] = _per_interval(prices[key], k)
    if flat:
        notes.append('flat')
    return notes


FAMILIES = ['takes'] * 5 + ['plants'] * 2 + ['plants_mip'] * 2 + ['storage'] * 2 + ['mixed'] * 3


def gen_case(rnd):
    """one scenario of the stream; scn['sem'] names the oracles of props/c14.py that apply ('uncoupled': nothing couples the
    intervals, 'storage': storages with start = end level are the only coupling, 'takes': take periods spanning intervals are,
    'any': anything)"""
    from . import split as SP
    k = rnd.choice([2, 2, 3, 3, 4, 4, 5, 6])
    m = rnd.choice([2, 3, 3, 4, 4, 5])
    while k * m > 20:
        m -= 1
    tail = rnd.randint(1, k - 1) if (k > 1 and rnd.random() < 0.3) else 0
    T = k * m + tail
    fam = rnd.choice(FAMILIES)
    mode = dict(rnd.choice(MODES))
    take_form = rnd.choice(['aligned'] * 5 + ['inner'] * 4 + ['keep'])
    kw = dict(tmin=T, tmax=T, tz_prob=0.1, allow_periodic=False, allow_freq=False, allow_wacc=False, allow_blocks=False)
    if fam == 'takes':
        s = gen.gen_portfolio(rnd, kinds=['contract', 'contract', 'contract', 'ext_transport', 'multi', 'simple'], allow_mip=False, **kw)
        sem = 'uncoupled'
    elif fam == 'plants':
        s = gen.gen_portfolio(rnd, kinds=['simple', 'contract', 'plant_lp', 'transport'], allow_mip=False, max_assets=3, **kw)
        SP.add_fuel_plants(rnd, s, coupled=False)
        s['fuel_plants'] = True
        sem = 'uncoupled'
    elif fam == 'plants_mip':
        s = gen.gen_portfolio(rnd, kinds=['simple', 'contract', 'plant', 'chp'], allow_mip=True, max_assets=2, **kw)
        SP.add_fuel_plants(rnd, s, coupled=True)
        s['fuel_plants'] = True
        sem = 'any'
    elif fam == 'storage':
        s = gen.gen_portfolio(rnd, kinds=['contract', 'contract', 'storage_se', 'ext_transport', 'simple'], allow_mip=False, **kw)
        sem = 'storage'
        if take_form == 'keep':
            take_form = 'aligned'
    else:
        s = gen.gen_portfolio(rnd, kinds=['scaled', 'scaled', 'structured', 'contract', 'multi', 'storage', 'orderbook', 'plant', 'ext_transport'],
                              allow_mip=rnd.random() < 0.4, max_assets=3, **kw)
        sem = 'any'
    g = s['grid']
    T = g['T_nominal']
    if T < 2 * k:
        k = max(1, T // 2)
    if take_form == 'keep' and sem == 'uncoupled':
        sem = 'takes'
    notes = repeat_data(rnd, s, k, mode, drop_windows=rnd.random() < 0.8, take_form=take_form)
    s['stream'] = 'repeat'
    s['sem'] = sem
    s['family'] = fam
    s['interval'] = interval_string(rnd, g, k)
    s['interval_steps'] = k
    s['repeat'] = {'mode': '+'.join(c for c in ('cost', 'bound', 'restr') if mode[c]) or 'none', 'takes': take_form, 'notes': sorted(set(notes))}
    s['frame'] = rnd.choice(['to_grid', 'frame'])
    return s


def stream(seed, n):
    rnd = random.Random(seed * 7919 + 1412)
    for i in range(n):
        r = random.Random(rnd.getrandbits(48))
        yield 'rep%d' % i, gen_case(r)


# ------------------------------------------------------------------ what the interval problems share / do not share
def alike_features(ops):
    """for pairs of interval problems of the same size: which of (cost vector, bounds, restriction types, matrix, right-hand sides)
    they share while differing in another - e.g. 'c+lu+types' = same costs, bounds and restriction types, other matrix or right-hand side"""
    import scipy.sparse as sp

    def sig(o):
        A = None if o.A is None else sp.csr_matrix(o.A)
        return {'c': np.asarray(o.c, dtype=float).tobytes(), 'lu': np.asarray(o.l, dtype=float).tobytes() + np.asarray(o.u, dtype=float).tobytes(),
                'types': str(o.cType), 'A': None if A is None else (A.shape, A.indptr.tobytes(), A.indices.tobytes(), np.asarray(A.data, dtype=float).tobytes()),
                'b': None if o.b is None else np.asarray(o.b, dtype=float).tobytes(), 'n': len(o.c)}
    sg = [sig(o) for o in ops]
    out = set()
    for i in range(len(sg)):
        for j in range(i + 1, len(sg)):
            if sg[i]['n'] != sg[j]['n']:
                continue
            same = [q for q in ('c', 'lu', 'types', 'A', 'b') if sg[i][q] == sg[j][q]]
            if len(same) == 5:
                out.add('alike:identical')
            elif same:
                out.add('alike:' + '+'.join(same))
    return sorted(out)


# ------------------------------------------------------------------ reference: every interval on its own
def own_interval_optima(scn, interval, solve):
    """[(first original step, number of steps, optimum or None)] of the interval problems, each set up ON ITS OWN: fresh objects, the
    interval grid derived from the whole grid (original cumulative times, steps re-based to 0..), the data of the interval's steps
    as arrays, `Portfolio.setup_optim_problem`, `solve(problem)` - nothing of the split set-up or of SplitOptimProblem is used.
    Intervals without any variable are left out (the split optimisation has nothing to solve there)."""
    import eaopack as eao
    from ..impl import Quiet
    portf, tg, prices, _ = scen.build(scn)
    cuts = pd.date_range(start=tg.start, end=tg.end, freq=interval, tz=tg.tz)
    cuts = cuts.append(pd.to_datetime([tg.end]))
    if cuts[0] != pd.Timestamp(tg.start):
        cuts = cuts.insert(0, tg.start)
    out = []
    for s_, e_ in zip(cuts[:-1], cuts[1:]):
        tgi = eao.Timegrid(s_, e_, tg.freq, main_time_unit=tg.main_time_unit, ref_timegrid=tg)
        if tgi.T == 0:
            continue
        I0 = np.asarray(tgi.I).copy()
        tgi.I = np.arange(tgi.T)
        pi = {key: np.asarray(v, dtype=float)[I0] for key, v in prices.items()}
        with Quiet():
            op = portf.setup_optim_problem(pi, tgi)
        if len(op.c) == 0:
            continue
        r = solve(op)
        out.append((int(I0[0]), int(tgi.T), None if isinstance(r, str) else float(r.value)))
    return out


# ------------------------------------------------------------------ feasible for what does not couple the intervals
def within_interval_violation(rec, rs, x):
    """largest violation, by the transported concatenated split solution `x`, of the bounds of the unsplit problem and of those of its
    rows whose variables all belong to ONE interval (a row over variables of two intervals couples them and is left out);
    returns (violation relative to the size of x, description, number of rows checked, number of rows left out)"""
    import scipy.sparse as sp
    from . import split as SP
    op = rec['op']
    perm = SP.perm_from_mappings(rs, rec)
    if perm is None:
        return None
    iv_of = np.zeros(len(op.c), dtype=int)
    off = 0
    for q, o in enumerate(rs['op'].ops):
        for j in range(off, off + len(o.c)):
            iv_of[perm[j]] = q
        off += len(o.c)
    worst, what = 0.0, None
    sc = max(1.0, float(np.abs(x).max()) if len(x) else 1.0)
    for arr, nm in ((op.l - x, 'lower bound'), (x - op.u, 'upper bound')):
        if len(arr):
            i = int(np.argmax(arr))
            if arr[i] > worst:
                worst, what = float(arr[i]), '%s of variable %d' % (nm, i)
    checked = skipped = 0
    if op.A is not None and op.A.shape[0] > 0:
        A = sp.csr_matrix(op.A)
        b = np.asarray(op.b, dtype=float)
        ax = A @ x
        for i, kd in enumerate(op.cType):
            cols = A.indices[A.indptr[i]:A.indptr[i + 1]]
            cols = cols[A.data[A.indptr[i]:A.indptr[i + 1]] != 0]
            if len(set(iv_of[cols])) > 1:
                skipped += 1
                continue
            checked += 1
            v = ax[i] - b[i] if kd == 'U' else (b[i] - ax[i] if kd == 'L' else abs(ax[i] - b[i]))
            v = v / max(1.0, abs(b[i]), float(np.abs(A[i].data).max()) if A[i].nnz else 1.0)
            if v > worst:
                worst, what = float(v), 'row %d of type %s (variables of interval %d only)' % (i, kd, int(iv_of[cols[0]]) if len(cols) else -1)
    return worst / sc, what, checked, skipped
