"""C08: portfolios in which a StructuredAsset carries a window of its own.

The structure hands its [start, end) down to everything it wraps, so every wrapped asset - also one that has no start/end
parameter of its own, the order book - is active only inside the structure's window (clipped to the horizon).  The generator
draws the wrapped portfolio from all asset kinds (order book, simple contract, contract with takes, storage, plant, CHP,
transport, extended transport, multi-commodity contract, scaled asset), at the external node(s) of the structure and at an internal node,
places the structure's window in every way relative to the horizon, and places the ORDERS of wrapped order books in every way
relative to the horizon AND the window (inside, straddling either end of the window, inside the horizon but entirely outside
the window, outside the horizon) at prices that make them worth executing against the market of the node.

`flatten_by_hand` is the independent reading of the window: the same portfolio with the window removed from the structure and
applied by date arithmetic to what it wraps (own windows intersected, orders cut to the window, orders without a part inside
dropped).  Scenario format: harness.scen.
"""
import copy

import pandas as pd

from .. import gen

WINDOWS = ['inside', 'inside', 'inside', 'start_only', 'end_only', 'straddle_start', 'straddle_end', 'offgrid',
           'covering', 'equal', 'before', 'after']
INNER_KINDS = ['orderbook', 'orderbook', 'orderbook_int', 'simple', 'simple_int', 'contract', 'storage', 'storage_int',
               'plant', 'chp', 'transport', 'ext_transport', 'multi']
OWN_WINDOWS = ['inside', 'start_only', 'end_only', 'straddle_end', 'straddle_start', 'covering', 'offgrid']
# a wrapped ScaledAsset: the structure's window (and the scaled asset's own start/end) reaches the BASE asset (before the repair
# F-08f it only shortened the period the fixed costs are charged for: StructuredAsset(start=06:00, end=18:00) around
# ScaledAsset(SimpleContract 0..1 MW at 10) next to a market at 30 on 2021-01-01 00:00-24:00, 2h steps, was dispatched 4 MWh in all
# 12 steps, value 957.6 instead of 478.8).  False: do not draw it.
ALLOW_SCALED_INNER = True


def _price_band(prices, key):
    v = prices[key]
    return min(v), max(v)


def gen_orders(rnd, g, lo, hi, n=None, attractive=0.75):
    """orders placed anywhere relative to the horizon (start index -3 .. T+1, end index up to T+4, some between grid points);
    `lo`/`hi`: price band of the market the orders compete with - an attractive buy order is cheaper than `lo`, an attractive
    sell order dearer than `hi`"""
    T = g['T_nominal']
    step = pd.Timedelta(seconds=g['step_s'])
    n = n or rnd.randint(1, 5)
    ss, ee, cc, pp = [], [], [], []
    for _ in range(n):
        i = rnd.randint(-3, T + 1)
        j = rnd.randint(i + 1, T + 4)
        s, e = gen.P(g, i), gen.P(g, j)
        r = rnd.random()
        if r < 0.12:
            s = s + step / 2
        elif r < 0.24 and j > i + 1:
            e = e - step / 4
        if not (gen.ok_local(s, g) and gen.ok_local(e, g)) or not s < e:
            s, e = gen.P(g, 0), gen.P(g, T)
        buy = rnd.random() < 0.5
        if rnd.random() < attractive:
            price = lo - gen.q8(rnd, 0.5, 4) if buy else hi + gen.q8(rnd, 0.5, 4)
        else:
            price = gen.q8(rnd, lo - 2, hi + 2)
        ss.append(gen.dtv(s))
        ee.append(gen.dtv(e))
        cc.append((1 if buy else -1) * gen.q8(rnd, 0.25, 4))
        pp.append(price)
    return {'start': ss, 'end': ee, 'capa': cc, 'price': pp}


def gen_struct_window_case(rnd, tmax=9, allow_mip=True):
    """markets at one or two nodes, up to two free-standing assets, and ONE StructuredAsset with a window around 1-4 assets"""
    g = gen.gen_grid(rnd, tmin=3, tmax=tmax, tz_prob=0.12)
    T = gen.real_T(g)
    prices = {}
    ext = ['N1'] if rnd.random() < 0.5 else ['N1', 'N2']
    assets = []
    band = {}
    for k, n in enumerate(ext):
        key = 'p%d' % len(prices)
        prices[key] = [gen.q8(rnd, 4, 20) for _ in range(T)]
        band[n] = _price_band(prices, key)
        a = {'type': 'SimpleContract', 'name': 'mkt%d' % (k + 1), 'nodes': [n], 'args': {'min_cap': -40.0, 'max_cap': 40.0, 'price': key}}
        if rnd.random() < 0.25:
            a['args']['extra_costs'] = gen.q8(rnd, 0.125, 0.5)
        assets.append(a)
    for k in range(rnd.choice([0, 0, 1, 2])):
        n = rnd.choice(ext)
        kind = rnd.choice(['simple', 'storage', 'contract', 'orderbook'])
        nm = 'free%d' % (k + 1)
        if kind == 'simple':
            a = gen.gen_simple_contract(rnd, g, prices, T, nm, n)
        elif kind == 'contract':
            a = gen.gen_contract(rnd, g, prices, T, nm, n)
        elif kind == 'storage':
            a = gen.gen_storage(rnd, g, prices, T, nm, [n], False, False)
        else:
            a = {'type': 'OrderBook', 'name': nm, 'nodes': [n], 'args': {'orders': gen_orders(rnd, g, *band[n], attractive=0.5)}}
        if a['type'] != 'OrderBook' and rnd.random() < 0.3:
            gen.put_window(a['args'], gen.window(rnd, g))
        assets.append(a)
    # ---- the structure
    nm = 'sa'
    internal = nm + '_i1'
    inner, used_int = [], False
    kinds = [rnd.choice(INNER_KINDS + (['scaled'] if ALLOW_SCALED_INNER else [])) for _ in range(rnd.randint(1, 4))]
    if rnd.random() < 0.7 and not any(k.startswith('orderbook') for k in kinds):
        kinds[rnd.randrange(len(kinds))] = rnd.choice(['orderbook', 'orderbook', 'orderbook_int'])
    for k, kind in enumerate(kinds):
        n = rnd.choice(ext)
        other = [x for x in ext if x != n]
        second = other[0] if (other and rnd.random() < 0.5) else internal
        inm = '%s_%s%d' % (nm, kind.split('_')[0][:3], k + 1)
        if kind in ('orderbook', 'orderbook_int'):
            at = n if kind == 'orderbook' else internal
            a = {'type': 'OrderBook', 'name': inm, 'nodes': [at], 'args': {'orders': gen_orders(rnd, g, *band[n])}}
            if allow_mip and rnd.random() < 0.2:
                a['args']['full_exec'] = True
            if rnd.random() < 0.15:
                a['args']['wacc'] = rnd.choice([0.05, 0.1, 0.5])
        elif kind in ('simple', 'simple_int'):
            a = gen.gen_simple_contract(rnd, g, prices, T, inm, n if kind == 'simple' else internal)
        elif kind == 'contract':
            a = gen.gen_contract(rnd, g, prices, T, inm, rnd.choice([n, internal]))
        elif kind in ('storage', 'storage_int'):
            a = gen.gen_storage(rnd, g, prices, T, inm, [n if kind == 'storage' else internal], allow_mip, True)
        elif kind == 'plant':
            a = gen.gen_plant(rnd, g, prices, T, inm, [n] if rnd.random() < 0.6 else [n, second], chp=False, allow_mip=allow_mip)
        elif kind == 'chp':
            a = gen.gen_plant(rnd, g, prices, T, inm, [n, second], chp=True, allow_mip=allow_mip)
        elif kind in ('transport', 'ext_transport'):
            pair = [n, second] if rnd.random() < 0.5 else [second, n]
            a = gen.gen_transport(rnd, g, prices, T, inm, pair[0], pair[1], ext=(kind == 'ext_transport'))
        elif kind == 'scaled':
            base = gen.gen_storage(rnd, g, prices, T, inm + '_b', [n], False, False) if rnd.random() < 0.5 else gen.gen_simple_contract(rnd, g, prices, T, inm + '_b', n)
            a = {'type': 'ScaledAsset', 'name': inm, 'base': base, 'nodes': [n],
                 'args': {'min_scale': 0.0, 'max_scale': rnd.choice([1.0, 2.0]), 'norm_scale': 1.0, 'fix_costs': gen.q8(rnd, 0, 1)}}
            for tgt in (a['args'], base['args']):   # own window of the scaled asset and / or of its base
                if rnd.random() < 0.3:
                    tgt.pop('start', None)
                    tgt.pop('end', None)
                    gen.put_window(tgt, gen.window(rnd, g, kinds=OWN_WINDOWS))
        else:
            a = gen.gen_multi(rnd, g, prices, T, inm, [n, second])
        if a['type'] not in ('OrderBook', 'ScaledAsset'):
            if rnd.random() < 0.3:
                a['args'].pop('start', None)
                a['args'].pop('end', None)
                gen.put_window(a['args'], gen.window(rnd, g, kinds=OWN_WINDOWS))
            if rnd.random() < 0.12:
                a['args']['wacc'] = rnd.choice([0.05, 0.1, 0.5])
        used_int = used_int or internal in a['nodes']
        inner.append(a)
    if used_int:
        # the internal node is tied to the outside by transports (both directions with some probability)
        n = rnd.choice(ext)
        for k, pair in enumerate([[internal, n], [n, internal]]):
            if k == 0 or rnd.random() < 0.85:
                tr = gen.gen_transport(rnd, g, prices, T, '%s_link%d' % (nm, k + 1), pair[0], pair[1])
                tr['args'].update({'min_cap': 0.0, 'max_cap': gen.q8(rnd, 3, 8)})
                inner.insert(rnd.randint(0, len(inner)), tr)
    nodes_used = [x for x in ext if any(x in a['nodes'] for a in inner)] or [ext[0]]
    sa = {'type': 'StructuredAsset', 'name': nm, 'nodes': nodes_used, 'inner': inner, 'args': {}, 'inner_nodes': [internal] if used_int else []}
    w = gen.window(rnd, g, kinds=WINDOWS)
    kind_w = gen.put_window(sa['args'], w)
    assets.insert(rnd.randint(0, len(assets)), sa)
    return {'grid': g, 'nodes': ext + ([internal] if used_int else []), 'prices': prices, 'assets': assets, 'window_kind': kind_w}


# ------------------------------------------------------------------------------------------ the window applied by hand
def _inst(v, tz):
    """a scenario date ({'$dt': iso}, naive local time of the grid's zone) as a comparable Timestamp"""
    t = pd.Timestamp(v['$dt'])
    return t.tz_localize(tz) if tz else t


def flatten_by_hand(scn):
    """the scenario with the window of every StructuredAsset applied by hand (see module text); returns (scenario, facts) with
    facts = {'orders': total, 'cut': orders shortened, 'dropped': orders without a part inside the window, 'narrowed': wrapped
    assets whose window became smaller}"""
    tz = scn['grid'].get('tz')
    out = copy.deepcopy(scn)
    facts = {'orders': 0, 'cut': 0, 'dropped': 0, 'narrowed': 0}
    keep = []
    for a in out['assets']:
        if a['type'] != 'StructuredAsset' or not ('start' in a['args'] or 'end' in a['args']):
            keep.append(a)
            continue
        ws, we = a['args'].pop('start', None), a['args'].pop('end', None)
        inner = []
        for b in a['inner']:
            if b['type'] == 'OrderBook':
                o = b['args']['orders']
                new = {k: [] for k in ('start', 'end', 'capa', 'price')}
                for s, e, c, p in zip(o['start'], o['end'], o['capa'], o['price']):
                    facts['orders'] += 1
                    s2 = s if (ws is None or _inst(s, tz) >= _inst(ws, tz)) else ws
                    e2 = e if (we is None or _inst(e, tz) <= _inst(we, tz)) else we
                    if not _inst(s2, tz) < _inst(e2, tz):
                        facts['dropped'] += 1
                        continue
                    if s2 is not s or e2 is not e:
                        facts['cut'] += 1
                    for k, v in (('start', s2), ('end', e2), ('capa', c), ('price', p)):
                        new[k].append(v)
                if not new['start']:
                    continue
                b['args']['orders'] = new
            else:
                # (a wrapped ScaledAsset: the window goes to the scaled asset - the period of its fixed costs - and, through it,
                #  to its base, which is active in the intersection of all three windows)
                levels = [b['args']]
                if b['type'] == 'ScaledAsset':
                    own = (b['args'].get('start'), b['args'].get('end'))
                    levels.append(b['base']['args'])
                for lv, args in enumerate(levels):
                    for lo, hi in ([(ws, we)] if lv == 0 else [(ws, we), own]):
                        s, e = args.get('start'), args.get('end')
                        if lo is not None and (s is None or _inst(s, tz) < _inst(lo, tz)):
                            args['start'] = lo
                            facts['narrowed'] += 1
                        if hi is not None and (e is None or _inst(e, tz) > _inst(hi, tz)):
                            args['end'] = hi
                            facts['narrowed'] += 1
            inner.append(b)
        if inner:
            a['inner'] = inner
            keep.append(a)
    out['assets'] = keep
    return out, facts
