"""C08: generators and oracles of the streams swin (a StructuredAsset with a window of its own, below), hext (every window inside
the horizon; the horizon extended before / after: second part of the file) and take (proration of take periods for contracts
with one and two variables per step: third part).

Stream swin: portfolios in which a StructuredAsset carries a window of its own.

The structure hands its [start, end) down to everything it wraps, so every wrapped asset - also one that has no start/end
parameter of its own, the order book - is active only inside the structure's window (clipped to the horizon).  The generator
draws the wrapped portfolio from all asset kinds (order book, simple contract, contract with takes, storage, plant, CHP,
transport, extended transport, multi-commodity contract, scaled asset), at the external node(s) of the structure and at an internal node,
places the structure's window in every way relative to the horizon, and places the ORDERS of wrapped order books in every way
relative to the horizon AND the window (inside, straddling either end of the window, inside the horizon but entirely outside
the window, outside the horizon) at prices that make them worth executing against the market of the node.

`flatten_by_hand` is the independent reading of the window: the same portfolio with the window removed from the structure and
applied by date arithmetic to what it wraps (own windows intersected, orders cut to the window, orders without a part inside
dropped).  Scenario format: harness.scen.
"""
import copy

import pandas as pd

from .. import gen

WINDOWS = ['inside', 'inside', 'inside', 'start_only', 'end_only', 'straddle_start', 'straddle_end', 'offgrid',
           'covering', 'equal', 'before', 'after']
INNER_KINDS = ['orderbook', 'orderbook', 'orderbook_int', 'simple', 'simple_int', 'contract', 'storage', 'storage_int',
               'plant', 'chp', 'transport', 'ext_transport', 'multi']
OWN_WINDOWS = ['inside', 'start_only', 'end_only', 'straddle_end', 'straddle_start', 'covering', 'offgrid']
# a wrapped ScaledAsset: the structure's window (and the scaled asset's own start/end) reaches the BASE asset (before the repair
# F-08f it only shortened the period the fixed costs are charged for: StructuredAsset(start=06:00, end=18:00) around
# ScaledAsset(SimpleContract 0..1 MW at 10) next to a market at 30 on 2021-01-01 00:00-24:00, 2h steps, was dispatched 4 MWh in all
# 12 steps, value 957.6 instead of 478.8).  False: do not draw it.
ALLOW_SCALED_INNER = True


def _price_band(prices, key):
    v = prices[key]
    return min(v), max(v)


def gen_orders(rnd, g, lo, hi, n=None, attractive=0.75):
    """orders placed anywhere relative to the horizon (start index -3 .. T+1, end index up to T+4, some between grid points);
    `lo`/`hi`: price band of the market the orders compete with - an attractive buy order is cheaper than `lo`, an attractive
    sell order dearer than `hi`"""
    T = g['T_nominal']
    step = pd.Timedelta(seconds=g['step_s'])
    n = n or rnd.randint(1, 5)
    ss, ee, cc, pp = [], [], [], []
    for _ in range(n):
        i = rnd.randint(-3, T + 1)
        j = rnd.randint(i + 1, T + 4)
        s, e = gen.P(g, i), gen.P(g, j)
        r = rnd.random()
        if r < 0.12:
            s = s + step / 2
        elif r < 0.24 and j > i + 1:
            e = e - step / 4
        if not (gen.ok_local(s, g) and gen.ok_local(e, g)) or not s < e:
            s, e = gen.P(g, 0), gen.P(g, T)
        buy = rnd.random() < 0.5
        if rnd.random() < attractive:
            price = lo - gen.q8(rnd, 0.5, 4) if buy else hi + gen.q8(rnd, 0.5, 4)
        else:
            price = gen.q8(rnd, lo - 2, hi + 2)
        ss.append(gen.dtv(s))
        ee.append(gen.dtv(e))
        cc.append((1 if buy else -1) * gen.q8(rnd, 0.25, 4))
        pp.append(price)
    return {'start': ss, 'end': ee, 'capa': cc, 'price': pp}


def gen_struct_window_case(rnd, tmax=9, allow_mip=True):
    """markets at one or two nodes, up to two free-standing assets, and ONE StructuredAsset with a window around 1-4 assets"""
    g = gen.gen_grid(rnd, tmin=3, tmax=tmax, tz_prob=0.12)
    T = gen.real_T(g)
    prices = {}
    ext = ['N1'] if rnd.random() < 0.5 else ['N1', 'N2']
    assets = []
    band = {}
    for k, n in enumerate(ext):
        key = 'p%d' % len(prices)
        prices[key] = [gen.q8(rnd, 4, 20) for _ in range(T)]
        band[n] = _price_band(prices, key)
        a = {'type': 'SimpleContract', 'name': 'mkt%d' % (k + 1), 'nodes': [n], 'args': {'min_cap': -40.0, 'max_cap': 40.0, 'price': key}}
        if rnd.random() < 0.25:
            a['args']['extra_costs'] = gen.q8(rnd, 0.125, 0.5)
        assets.append(a)
    for k in range(rnd.choice([0, 0, 1, 2])):
        n = rnd.choice(ext)
        kind = rnd.choice(['simple', 'storage', 'contract', 'orderbook'])
        nm = 'free%d' % (k + 1)
        if kind == 'simple':
            a = gen.gen_simple_contract(rnd, g, prices, T, nm, n)
        elif kind == 'contract':
            a = gen.gen_contract(rnd, g, prices, T, nm, n)
        elif kind == 'storage':
            a = gen.gen_storage(rnd, g, prices, T, nm, [n], False, False)
        else:
            a = {'type': 'OrderBook', 'name': nm, 'nodes': [n], 'args': {'orders': gen_orders(rnd, g, *band[n], attractive=0.5)}}
        if a['type'] != 'OrderBook' and rnd.random() < 0.3:
            gen.put_window(a['args'], gen.window(rnd, g))
        assets.append(a)
    # ---- the structure
    nm = 'sa'
    internal = nm + '_i1'
    inner, used_int = [], False
    kinds = [rnd.choice(INNER_KINDS + (['scaled'] if ALLOW_SCALED_INNER else [])) for _ in range(rnd.randint(1, 4))]
    if rnd.random() < 0.7 and not any(k.startswith('orderbook') for k in kinds):
        kinds[rnd.randrange(len(kinds))] = rnd.choice(['orderbook', 'orderbook', 'orderbook_int'])
    for k, kind in enumerate(kinds):
        n = rnd.choice(ext)
        other = [x for x in ext if x != n]
        second = other[0] if (other and rnd.random() < 0.5) else internal
        inm = '%s_%s%d' % (nm, kind.split('_')[0][:3], k + 1)
        if kind in ('orderbook', 'orderbook_int'):
            at = n if kind == 'orderbook' else internal
            a = {'type': 'OrderBook', 'name': inm, 'nodes': [at], 'args': {'orders': gen_orders(rnd, g, *band[n])}}
            if allow_mip and rnd.random() < 0.2:
                a['args']['full_exec'] = True
            if rnd.random() < 0.15:
                a['args']['wacc'] = rnd.choice([0.05, 0.1, 0.5])
        elif kind in ('simple', 'simple_int'):
            a = gen.gen_simple_contract(rnd, g, prices, T, inm, n if kind == 'simple' else internal)
        elif kind == 'contract':
            a = gen.gen_contract(rnd, g, prices, T, inm, rnd.choice([n, internal]))
        elif kind in ('storage', 'storage_int'):
            a = gen.gen_storage(rnd, g, prices, T, inm, [n if kind == 'storage' else internal], allow_mip, True)
        elif kind == 'plant':
            a = gen.gen_plant(rnd, g, prices, T, inm, [n] if rnd.random() < 0.6 else [n, second], chp=False, allow_mip=allow_mip)
        elif kind == 'chp':
            a = gen.gen_plant(rnd, g, prices, T, inm, [n, second], chp=True, allow_mip=allow_mip)
        elif kind in ('transport', 'ext_transport'):
            pair = [n, second] if rnd.random() < 0.5 else [second, n]
            a = gen.gen_transport(rnd, g, prices, T, inm, pair[0], pair[1], ext=(kind == 'ext_transport'))
        elif kind == 'scaled':
            base = gen.gen_storage(rnd, g, prices, T, inm + '_b', [n], False, False) if rnd.random() < 0.5 else gen.gen_simple_contract(rnd, g, prices, T, inm + '_b', n)
            a = {'type': 'ScaledAsset', 'name': inm, 'base': base, 'nodes': [n],
                 'args': {'min_scale': 0.0, 'max_scale': rnd.choice([1.0, 2.0]), 'norm_scale': 1.0, 'fix_costs': gen.q8(rnd, 0, 1)}}
            for tgt in (a['args'], base['args']):   # own window of the scaled asset and / or of its base
                if rnd.random() < 0.3:
                    tgt.pop('start', None)
                    tgt.pop('end', None)
                    gen.put_window(tgt, gen.window(rnd, g, kinds=OWN_WINDOWS))
        else:
            a = gen.gen_multi(rnd, g, prices, T, inm, [n, second])
        if a['type'] not in ('OrderBook', 'ScaledAsset'):
            if rnd.random() < 0.3:
                a['args'].pop('start', None)
                a['args'].pop('end', None)
                gen.put_window(a['args'], gen.window(rnd, g, kinds=OWN_WINDOWS))
            if rnd.random() < 0.12:
                a['args']['wacc'] = rnd.choice([0.05, 0.1, 0.5])
        used_int = used_int or internal in a['nodes']
        inner.append(a)
    if used_int:
        # the internal node is tied to the outside by transports (both directions with some probability)
        n = rnd.choice(ext)
        for k, pair in enumerate([[internal, n], [n, internal]]):
            if k == 0 or rnd.random() < 0.85:
                tr = gen.gen_transport(rnd, g, prices, T, '%s_link%d' % (nm, k + 1), pair[0], pair[1])
                tr['args'].update({'min_cap': 0.0, 'max_cap': gen.q8(rnd, 3, 8)})
                inner.insert(rnd.randint(0, len(inner)), tr)
    nodes_used = [x for x in ext if any(x in a['nodes'] for a in inner)] or [ext[0]]
    sa = {'type': 'StructuredAsset', 'name': nm, 'nodes': nodes_used, 'inner': inner, 'args': {}, 'inner_nodes': [internal] if used_int else []}
    w = gen.window(rnd, g, kinds=WINDOWS)
    kind_w = gen.put_window(sa['args'], w)
    assets.insert(rnd.randint(0, len(assets)), sa)
    return {'grid': g, 'nodes': ext + ([internal] if used_int else []), 'prices': prices, 'assets': assets, 'window_kind': kind_w}


# ------------------------------------------------------------------------------------------ the window applied by hand
def _inst(v, tz):
    """a scenario date ({'$dt': iso}, naive local time of the grid's zone) as a comparable Timestamp"""
    t = pd.Timestamp(v['$dt'])
    return t.tz_localize(tz) if tz else t


def flatten_by_hand(scn):
    """the scenario with the window of every StructuredAsset applied by hand (see module text); returns (scenario, facts) with
    facts = {'orders': total, 'cut': orders shortened, 'dropped': orders without a part inside the window, 'narrowed': wrapped
    assets whose window became smaller}"""
    tz = scn['grid'].get('tz')
    out = copy.deepcopy(scn)
    facts = {'orders': 0, 'cut': 0, 'dropped': 0, 'narrowed': 0}
    keep = []
    for a in out['assets']:
        if a['type'] != 'StructuredAsset' or not ('start' in a['args'] or 'end' in a['args']):
            keep.append(a)
            continue
        ws, we = a['args'].pop('start', None), a['args'].pop('end', None)
        inner = []
        for b in a['inner']:
            if b['type'] == 'OrderBook':
                o = b['args']['orders']
                new = {k: [] for k in ('start', 'end', 'capa', 'price')}
                for s, e, c, p in zip(o['start'], o['end'], o['capa'], o['price']):
                    facts['orders'] += 1
                    s2 = s if (ws is None or _inst(s, tz) >= _inst(ws, tz)) else ws
                    e2 = e if (we is None or _inst(e, tz) <= _inst(we, tz)) else we
                    if not _inst(s2, tz) < _inst(e2, tz):
                        facts['dropped'] += 1
                        continue
                    if s2 is not s or e2 is not e:
                        facts['cut'] += 1
                    for k, v in (('start', s2), ('end', e2), ('capa', c), ('price', p)):
                        new[k].append(v)
                if not new['start']:
                    continue
                b['args']['orders'] = new
            else:
                # (a wrapped ScaledAsset: the window goes to the scaled asset - the period of its fixed costs - and, through it,
                #  to its base, which is active in the intersection of all three windows)
                levels = [b['args']]
                if b['type'] == 'ScaledAsset':
                    own = (b['args'].get('start'), b['args'].get('end'))
                    levels.append(b['base']['args'])
                for lv, args in enumerate(levels):
                    for lo, hi in ([(ws, we)] if lv == 0 else [(ws, we), own]):
                        s, e = args.get('start'), args.get('end')
                        if lo is not None and (s is None or _inst(s, tz) < _inst(lo, tz)):
                            args['start'] = lo
                            facts['narrowed'] += 1
                        if hi is not None and (e is None or _inst(e, tz) > _inst(hi, tz)):
                            args['end'] = hi
                            facts['narrowed'] += 1
            inner.append(b)
        if inner:
            a['inner'] = inner
            keep.append(a)
    out['assets'] = keep
    return out, facts


# ====================================================================================== stream 'hext': the horizon extended
# "Only what lies inside the horizon and inside an asset's window matters": when EVERY asset has an explicit window [start, end)
# inside the horizon H, nothing can happen in the part of a longer horizon H' = H extended by k steps before and / or m steps
# after, so the same portfolio on H and on H' has the same optimum, the same solutions (a solution on H, put asset by asset
# into the problem on H', is feasible and optimal there, and the other way round), and no dispatch in H' \ H.
# The generator draws what is anchored somewhere in time: storages optimised in time blocks (`block_size` as multiples of the
# step from '2h' to '3d', a week, sizes that are no multiple of the step), whose own start is offset from the start of H' by
# anything, not just multiples of the block; plants / CHP with minimum run and down times and a history; contracts, transports
# and multi-commodity contracts with take periods anywhere; assets with a coarser frequency (window on whole coarse steps);
# scaled assets; order books with all orders inside H; markets.
BLOCKS = ['2h', '3h', '4h', '6h', '8h', '12h', 'd', '36h', '2d', '3d', 'W', '90min', '45min', '5h']
HEXT_KINDS = ['storage_block'] * 5 + ['storage', 'storage', 'plant', 'plant', 'chp', 'contract', 'contract', 'ext_transport', 'transport', 'multi',
                                      'simple', 'coarse', 'coarse', 'scaled', 'orderbook']
# the start side of the extension (k > 0 steps before H).  False: only extend after the end.
ALLOW_HEXT_BEFORE = True


def _freq_str(seconds):
    return ('%dmin' % (seconds // 60)) if seconds % 3600 else ('%dh' % (seconds // 3600))


def _block_sizes(g, nsteps):
    """block sizes (pandas frequency strings) holding at least 2 steps and at most about half of a window of nsteps steps"""
    step = g['step_s']
    out = []
    for b in BLOCKS:
        try:
            sec = int(pd.Timedelta(b).total_seconds())
        except Exception:
            sec = int(pd.Timedelta(1, b).total_seconds())
        if sec >= 2 * step and 2 * sec <= nsteps * step + step:
            out.append(b)
    return out


def extended_grid(g, k, m):
    """the grid of g extended by k steps before and m steps after (same zone, frequency and unit), or None if the extended
    grid does not hold the points of g at positions k .. k+T (clock changes, dates that do not exist in the zone)"""
    T = g['T_nominal']
    s, e = gen.P(g, -k), gen.P(g, T + m)
    if not (gen.ok_local(s, g) and gen.ok_local(e, g)):
        return None
    g2 = {k_: v for k_, v in g.items() if k_ != '_pts'}
    g2['start'], g2['end'] = gen.iso(s), gen.iso(e)
    try:
        gen.fix_grid(g2)
    except Exception:
        return None
    if g2['_pts'][k:k + T + 1] != g['_pts'] or len(g2['_pts']) != T + 1 + k + m:
        return None
    return g2


def gen_hext_case(rnd, tmax=24, allow_mip=True):
    g = gen.gen_grid(rnd, tmin=4, tmax=tmax, tz_prob=0.1)
    T = g['T_nominal']
    step = pd.Timedelta(seconds=g['step_s'])
    prices = {}
    ext = ['N1'] if rnd.random() < 0.5 else ['N1', 'N2']
    assets = []

    def win(a=None, b=None):
        return {'start': gen.dtv(gen.P(g, 0 if a is None else a)), 'end': gen.dtv(gen.P(g, T if b is None else b))}

    def local(a, b):
        # (dates that exist exactly once in the grid's zone)
        return gen.ok_local(gen.P(g, a), g) and gen.ok_local(gen.P(g, b), g)

    def draw_window(min_len=2):
        if rnd.random() < 0.25 or T <= min_len:
            return 0, T
        a = rnd.randint(0, T - min_len)
        b = rnd.randint(a + min_len, T)
        return (a, b) if local(a, b) else (0, T)
    for k, n in enumerate(ext):
        key = 'p%d' % len(prices)
        prices[key] = [gen.q8(rnd, 2, 20) for _ in range(T)]
        a = {'type': 'SimpleContract', 'name': 'mkt%d' % (k + 1), 'nodes': [n], 'args': {'min_cap': -40.0, 'max_cap': 40.0, 'price': key}}
        if rnd.random() < 0.25:
            a['args']['extra_costs'] = gen.q8(rnd, 0.125, 0.5)
        a['args'].update(win(*((None, None) if rnd.random() < 0.8 else draw_window())))
        assets.append(a)
    kinds = [rnd.choice(HEXT_KINDS) for _ in range(rnd.randint(1, 3))]
    info = []
    for k, kind in enumerate(kinds):
        n = rnd.choice(ext)
        other = [x for x in ext if x != n]
        nm = '%s%d' % (kind.split('_')[0][:3], k + 1)
        if kind in ('ext_transport', 'transport', 'multi', 'chp') and not other:
            kind = rnd.choice(['storage_block', 'contract', 'plant'])
        if kind in ('plant', 'chp') and (not allow_mip or T > 14):
            kind = 'storage_block'
        a_, b_ = draw_window()
        if kind == 'storage_block':
            a = gen.gen_storage(rnd, g, prices, T, nm, [n], False, False)
            bs = _block_sizes(g, b_ - a_)
            if not bs:
                a_, b_ = 0, T
                bs = _block_sizes(g, T)
            if bs:
                a['args']['block_size'] = rnd.choice(bs)
            if rnd.random() < 0.6:
                a['args']['end_level'] = a['args']['start_level'] = a['args'].get('start_level', 0.0)
        elif kind == 'storage':
            a = gen.gen_storage(rnd, g, prices, T, nm, [n] if (not other or rnd.random() < 0.7) else [n, other[0]], allow_mip and T <= 14, False)
        elif kind == 'plant':
            a = gen.gen_plant(rnd, g, prices, T, nm, [n] if (not other or rnd.random() < 0.6) else [n, other[0]], chp=False, allow_mip=True)
        elif kind == 'chp':
            a = gen.gen_plant(rnd, g, prices, T, nm, [n, other[0]], chp=True, allow_mip=True)
        elif kind == 'contract':
            a = gen.gen_contract(rnd, g, prices, T, nm, n)
        elif kind in ('transport', 'ext_transport'):
            pair = [n, other[0]] if rnd.random() < 0.5 else [other[0], n]
            a = gen.gen_transport(rnd, g, prices, T, nm, pair[0], pair[1], ext=(kind == 'ext_transport'))
        elif kind == 'multi':
            a = gen.gen_multi(rnd, g, prices, T, nm, [n, other[0]])
        elif kind == 'simple':
            a = gen.gen_simple_contract(rnd, g, prices, T, nm, n)
        elif kind == 'coarse':
            ck = rnd.choice(['simple', 'contract', 'storage'])
            a = (gen.gen_simple_contract(rnd, g, prices, T, nm, n) if ck == 'simple' else gen.gen_contract(rnd, g, prices, T, nm, n) if ck == 'contract'
                 else gen.gen_storage(rnd, g, prices, T, nm, [n], False, False))
            mult = rnd.choice([2, 2, 3, 4])
            if T >= mult:
                a_ = rnd.randint(0, T - mult)
                b_ = a_ + mult * rnd.randint(1, (T - a_) // mult)      # whole coarse steps, counted from the asset's own start
                if local(a_, b_):
                    a['args']['freq'] = _freq_str(int(step.total_seconds()) * mult)
                else:
                    a_, b_ = 0, T
        elif kind == 'scaled':
            base = gen.gen_storage(rnd, g, prices, T, nm + '_b', [n], False, False) if rnd.random() < 0.5 else gen.gen_simple_contract(rnd, g, prices, T, nm + '_b', n)
            a = {'type': 'ScaledAsset', 'name': nm, 'base': base, 'nodes': [n],
                 'args': {'min_scale': 0.0, 'max_scale': rnd.choice([1.0, 2.0]), 'norm_scale': 1.0, 'fix_costs': gen.q8(rnd, 0, 1)}}
        else:
            # all orders inside H (some between grid points)
            oo = {'start': [], 'end': [], 'capa': [], 'price': []}
            for _ in range(rnd.randint(1, 4)):
                i = rnd.randint(0, T - 1)
                j = rnd.randint(i + 1, T)
                if not local(i, j):
                    i, j = 0, T
                s, e = gen.P(g, i), gen.P(g, j)
                if rnd.random() < 0.15 and gen.ok_local(s + step / 2, g):
                    s = s + step / 2
                oo['start'].append(gen.dtv(s))
                oo['end'].append(gen.dtv(e))
                oo['capa'].append(rnd.choice([-1, 1]) * gen.q8(rnd, 0.25, 4))
                oo['price'].append(gen.q8(rnd, 0, 22))
            a = {'type': 'OrderBook', 'name': nm, 'nodes': [n], 'args': {'orders': oo}}
        if a['type'] != 'OrderBook':
            w = win(a_, b_)
            if a['type'] == 'ScaledAsset':
                # the window sits on the scaled asset itself (the period its fixed costs are charged for) and possibly on the base too
                for tgt in rnd.choice([[a['args']], [a['base']['args'], a['args']]]):
                    tgt.update(w)
            else:
                a['args'].update(w)
        info.append('%s:%s' % (kind, a['args'].get('block_size') or a['args'].get('freq') or ''))
        assets.insert(rnd.randint(0, len(assets)), a)
    # ---- the extension
    g2 = None
    for _ in range(6):
        k_b = rnd.choice([0, 1, 1, 2, 3, 4, 5]) if ALLOW_HEXT_BEFORE else 0
        m_a = rnd.choice([0, 0, 1, 2, 3, 4])
        if k_b == 0 and m_a == 0:
            continue
        g2 = extended_grid(g, k_b, m_a)
        if g2 is not None:
            break
    if g2 is None:
        k_b = m_a = 0
        g2 = dict(g)
    if k_b == 0 and rnd.random() < 0.3:
        # discounting counts from the start of the horizon: only where that stays
        for a in assets:
            if a['type'] != 'OrderBook' and rnd.random() < 0.5:
                a['args']['wacc'] = rnd.choice([0.05, 0.1, 0.5])
                if a['type'] == 'ScaledAsset':
                    a['base']['args']['wacc'] = a['args']['wacc']
    prices2 = {}
    for key, v in prices.items():
        lo, hi = min(v), max(v)
        prices2[key] = [gen.q8(rnd, lo, hi) for _ in range(k_b)] + list(v) + [gen.q8(rnd, lo, hi) for _ in range(m_a)]
    return {'grid': g, 'nodes': ext, 'prices': prices, 'assets': assets,
            'ext': {'before': k_b, 'after': m_a, 'grid': g2, 'prices': prices2, 'kinds': info}}


def run_hext(scn, r, check_windows):
    """fills the result record r of props/c08.run_case; check_windows = the window oracle (c) of props/c08.py"""
    from .. import pf, impl
    import numpy as np
    feats = r['features']
    e = scn['ext']
    k_b, m_a = e['before'], e['after']
    base = {k: v for k, v in scn.items() if k != 'ext'}
    wide = dict(base, grid=e['grid'], prices=e['prices'])
    types = sorted(set(a['type'] + ('/block' if 'block_size' in a.get('args', {}) else '') + ('/freq' if 'freq' in a.get('args', {}) else '') for a in base['assets']))
    facts = {'stream': 'hext', 'before': k_b, 'after': m_a, 'asset_types': types, 'blocks': any('/block' in t for t in types)}
    def short(a):
        w = a['args'] if 'start' in a.get('args', {}) else a.get('base', {}).get('args', {})
        opt = ', '.join('%s=%s' % (k_, a['args'][k_]) for k_ in ('block_size', 'freq', 'min_runtime', 'wacc') if k_ in a.get('args', {}))
        return '%s %s%s' % (a['type'], ('(%s) ' % opt) if opt else '', ('%s .. %s' % (w['start']['$dt'][5:16], w['end']['$dt'][5:16])) if 'start' in w else 'orders inside')
    how = 'the horizon %s .. %s (%s) extended by %d steps before and %d after (%s .. %s); every asset has its window inside the shorter one [%s]' % (
        base['grid']['start'], base['grid']['end'], base['grid']['freq'], k_b, m_a, e['grid']['start'], e['grid']['end'], '; '.join(short(a) for a in base['assets']))

    def viol(msg, **f):
        r['violations'].append({'oracle': 'horizon_and_windows', 'detail': msg, 'facts': dict(facts, **f)})
    feats += ['hext:before=%d' % min(k_b, 3), 'hext:after=%d' % min(m_a, 3)] + ['hext-kind:' + x.split(':')[0] for x in e['kinds']]
    for x in e['kinds']:
        if x.startswith('storage_block:') and x.split(':')[1]:
            feats.append('hext-block:' + x.split(':')[1])
    if k_b == 0 and m_a == 0:
        feats.append('hext-none')
        return

    def run(s_):
        try:
            rec_ = pf.setup_mono(s_)
            pf.solve_rec(rec_)
            return rec_, None
        except Exception as e_:
            return None, e_
    r0, e0 = run(base)
    r1, e1 = run(wide)
    r['evaluated'] += 1
    if e0 is not None or e1 is not None:
        if (e0 is None) != (e1 is None):
            viol('%s: set-up / optimisation / read-out %s on the shorter horizon and %s on the longer one' % (
                how, 'works' if e0 is None else 'raises %s (%s)' % (type(e0).__name__, str(e0)[:100]),
                'works' if e1 is None else 'raises %s (%s)' % (type(e1).__name__, str(e1)[:100])), what='hext_raises')
        else:
            feats.append('setup-error:' + impl.err_class(e0))
        return
    a_, b_ = r0['res'], r1['res']
    if isinstance(a_, str) or isinstance(b_, str):
        if isinstance(a_, str) != isinstance(b_, str):
            viol('%s: optimisation %s on the shorter horizon, %s on the longer one' % (how, a_ if isinstance(a_, str) else 'successful', b_ if isinstance(b_, str) else 'successful'),
                 what='hext_status')
        else:
            feats.append('unsolved')
        return
    V0, V1 = float(a_.value), float(b_.value)
    tol = 2e-6 * max(1.0, abs(V0))
    r['observed'] = {'value': V0, 'value_extended': V1}
    r['nontrivial'] = True
    # nothing outside the windows (hence nothing outside the shorter horizon)
    check_windows(wide, r1, viol, feats)
    if abs(V0 - V1) > tol:
        viol('%s: optimum %.9g on the shorter horizon, %.9g on the longer one' % (how, V0, V1), what='hext_value')
        return
    # the solutions carry over, asset by asset, in both directions
    bl0, bl1 = pf.asset_blocks(r0), pf.asset_blocks(r1)
    if any(bl0[a.name][0][1] - bl0[a.name][0][0] != bl1[a.name][0][1] - bl1[a.name][0][0] for a in r0['portf'].assets):
        feats.append('hext-sizes-differ')       # (no statement of C08: the values were compared)
        return
    for src, dst, bs, bd, Vd, txt in ((r0, r1, bl0, bl1, V1, 'the solution on the shorter horizon is not an optimal solution on the longer one'),
                                      (r1, r0, bl1, bl0, V0, 'the solution on the longer horizon is not an optimal solution on the shorter one')):
        x = np.zeros(len(dst['op'].c))
        for a in src['portf'].assets:
            lo, hi = bs[a.name][0]
            lo1, hi1 = bd[a.name][0]
            x[lo1:hi1] = src['res'].x[lo:hi]
        worst, wh = pf.feasibility_violation(dst['op'], x)
        val = -float(np.dot(dst['op'].c, x))
        if worst > 1e-5 or abs(val - Vd) > tol:
            viol('%s: %s (violates %s by %.3g, value %.9g vs %.9g)' % (how, txt, wh, worst, val, Vd), what='hext_dispatch')
            break


# ====================================================================================== stream 'take': proration of take periods
# "a take period partly outside the horizon is prorated by the covered duration": the bound that applies inside is
# V * (covered duration) / (e - s), whatever the number of variables the asset uses per step.  Focus assets: Contract and
# MultiCommodityContract with ONE variable per step and with TWO (extra costs - scalar, interval data or series - together with
# capacities of both signs), ExtendedTransport, Plant and CHPAsset; own windows in all grid-aligned placements; one to three
# max_take / min_take periods anywhere relative to horizon and window.
# Oracles (`run_take`): (A) the right-hand sides of the take rows of the asset's own problem against date arithmetic (the
# existing oracle `take_prorated` of comp/contract.py, which draws one-variable contracts only); (B) end to end: in the optimum
# of the asset next to markets, what is taken inside the covered part of every period respects the prorated bound.
TAKE_KINDS = ['contract', 'contract2', 'contract2', 'multi', 'multi2', 'ext_transport', 'plant', 'chp']
TAKE_WINDOWS = ['none', 'none', 'inside', 'start_only', 'end_only', 'straddle_start', 'straddle_end', 'covering', 'equal']


def _take_periods(rnd, g, n, lo, hi):
    T = g['T_nominal']
    ss, ee, vv = [], [], []
    for _ in range(n):
        how = rnd.choice(['inside', 'straddle_start', 'straddle_end', 'covering', 'any', 'any', 'outside'])
        a = rnd.randint(0, max(0, T - 1))
        b = rnd.randint(a + 1, T)
        if how == 'inside':
            i, j = a, b
        elif how == 'straddle_start':
            i, j = -rnd.randint(1, 5), b
        elif how == 'straddle_end':
            i, j = a, T + rnd.randint(1, 5)
        elif how == 'covering':
            i, j = -rnd.randint(0, 4), T + rnd.randint(0, 4)
        elif how == 'outside':
            i, j = (T + rnd.randint(0, 2), T + rnd.randint(3, 6)) if rnd.random() < 0.5 else (-rnd.randint(3, 6), -rnd.randint(0, 2))
        else:
            i = rnd.randint(-4, T)
            j = rnd.randint(i + 1, T + 4)
        s, e = gen.P(g, i), gen.P(g, j)
        if not (gen.ok_local(s, g) and gen.ok_local(e, g)):
            s, e = gen.P(g, 0), gen.P(g, T)
        ss.append(gen.dtv(s))
        ee.append(gen.dtv(e))
        vv.append(gen.q8(rnd, lo, hi))
    return {'start': ss, 'end': ee, 'values': vv}


def gen_take_case(rnd, tmax=10):
    g = gen.gen_grid(rnd, tmin=2, tmax=tmax, tz_prob=0.15)
    T = g['T_nominal']
    prices = {}
    kind = rnd.choice(TAKE_KINDS)
    nm = 'tk'
    nodes = ['N1'] if kind in ('contract', 'contract2') or (kind == 'plant' and rnd.random() < 0.6) else ['N1', 'N2']
    if kind in ('contract', 'contract2'):
        a = gen.gen_contract(rnd, g, prices, T, nm, 'N1')
    elif kind in ('multi', 'multi2'):
        a = gen.gen_contract(rnd, g, prices, T, nm, 'N1')
        a['type'] = 'MultiCommodityContract'
        a['nodes'] = list(nodes)
        a['args']['factors_commodities'] = [rnd.choice([1.0, 0.5, 2.0, 0.25]), rnd.choice([1.0, 0.5, -1.0, 2.0, -0.5])]
    elif kind == 'ext_transport':
        a = gen.gen_transport(rnd, g, prices, T, nm, 'N1', 'N2', ext=True)
        a['args']['min_cap'], a['args']['max_cap'] = 0.0, gen.q8(rnd, 0.5, 6)
    else:
        a = gen.gen_plant(rnd, g, prices, T, nm, list(nodes), chp=(kind == 'chp'), allow_mip=rnd.random() < 0.5)
        if a['type'] == 'CHPAsset_with_min_load_costs':
            a['type'] = 'CHPAsset'
            a['args'].pop('min_load_threshhold')
            a['args'].pop('min_load_costs')
    args = a['args']
    if kind in ('contract2', 'multi2'):
        # two variables per step: capacities of both signs (any form) and extra costs (any form)
        if isinstance(args.get('min_cap'), float) and isinstance(args.get('max_cap'), float):
            args['min_cap'], args['max_cap'] = -gen.q8(rnd, 0.5, 6), gen.q8(rnd, 0.5, 6)
        if not args.get('extra_costs'):
            args['extra_costs'] = gen.q8(rnd, 0.125, 2)
    cap = args['max_cap'] if isinstance(args.get('max_cap'), float) and args['max_cap'] > 0 else 2.0
    for k_ in ('start', 'end', 'min_take', 'max_take'):
        args.pop(k_, None)
    wk = gen.put_window(args, gen.window(rnd, g, kinds=TAKE_WINDOWS))
    # values: about the size of what the capacity allows in a few steps, so that the bounds bind
    big = cap * max(1, T) * (g['step_s'] / float(pd.Timedelta(1, g['unit']).total_seconds()))
    r = rnd.random()
    if r < 0.55:
        args['max_take'] = _take_periods(rnd, g, rnd.randint(1, 3), 0.125, max(0.25, big))
    elif r < 0.75:
        lo_ok = kind in ('contract2', 'multi2') or (isinstance(args.get('min_cap'), float) and args['min_cap'] < 0)
        args['min_take'] = _take_periods(rnd, g, rnd.randint(1, 2), -max(0.25, big / 2) if lo_ok else 0.0, max(0.25, big / 4) if kind != 'ext_transport' else 0.5)
    else:
        args['max_take'] = _take_periods(rnd, g, rnd.randint(1, 2), max(0.25, big / 2), max(0.5, 2 * big))
        args['min_take'] = _take_periods(rnd, g, 1, -max(0.25, big / 2) if kind in ('contract2', 'multi2') else 0.0, max(0.25, big / 4) if kind != 'ext_transport' else 0.25)
    # markets for the end-to-end part: with a premium over the contract's price (taking pays off), a discount (it does not), or any
    assets = [a]
    pk = args.get('price')
    ref = prices.get(pk, [0.0] * T) if pk else [0.0] * T
    mode = rnd.choice(['premium', 'premium', 'discount', 'any'])
    for k, n in enumerate(nodes):
        key = 'm%d' % k
        if mode == 'premium':
            prices[key] = [x + gen.q8(rnd, 2.5, 6) for x in ref]
        elif mode == 'discount':
            prices[key] = [x - gen.q8(rnd, 2.5, 6) for x in ref]
        else:
            prices[key] = [gen.q8(rnd, -2, 20) for _ in range(T)]
        if kind == 'ext_transport':
            # moving from N1 to N2 pays off (premium) or not
            prices[key] = [10.0 + (k if mode != 'discount' else -k) * gen.q8(rnd, 2.5, 6) for _ in range(T)]
        assets.append({'type': 'SimpleContract', 'name': 'mkt%d' % (k + 1), 'nodes': [n], 'args': {'min_cap': -60.0, 'max_cap': 60.0, 'price': key}})
    return {'grid': g, 'nodes': nodes, 'prices': prices, 'assets': assets, 'take': {'asset': nm, 'kind': kind, 'window': wk, 'market': mode}}


def expected_takes(spec, g):
    """by date arithmetic: [(key, index, V, covered seconds, whole seconds, covered steps)] for every take period of the asset
    specification; covered = the steps of the horizon that begin inside the asset's window and inside the period"""
    tz = g.get('tz')
    pts = list(pd.date_range(pd.Timestamp(g['start'], tz=tz), pd.Timestamp(g['end'], tz=tz), freq=g['freq']))      # (instants, as gen.fix_grid)
    T = len(pts) - 1
    args = spec['args']
    ws = _inst(args['start'], tz) if 'start' in args else None
    we = _inst(args['end'], tz) if 'end' in args else None
    active = [t for t in range(T) if (ws is None or pts[t] >= ws) and (we is None or pts[t] < we)]
    out = []
    for key in ('max_take', 'min_take'):
        tk = args.get(key)
        if not tk:
            continue
        for i, (s, e, v) in enumerate(zip(tk['start'], tk['end'], tk['values'])):
            s_, e_ = _inst(s, tz), _inst(e, tz)
            steps = [t for t in active if s_ <= pts[t] < e_]
            cov = sum((pts[t + 1] - pts[t]).total_seconds() for t in steps)
            out.append((key, i, float(v), cov, (e_ - s_).total_seconds(), steps))
    return out


def run_take(scn, r):
    """fills the result record r of props/c08.run_case"""
    from .. import pf, impl, scen
    import numpy as np
    feats = r['features']
    info = scn['take']
    base = {k: v for k, v in scn.items() if k != 'take'}
    spec = [a for a in base['assets'] if a['name'] == info['asset']][0]
    g = base['grid']
    facts = {'stream': 'take', 'asset_type': spec['type'], 'kind': info['kind'], 'window': info['window']}

    def viol(msg, **f):
        r['violations'].append({'oracle': 'take_prorated', 'detail': msg, 'facts': dict(facts, **f)})
    feats += ['take-asset:' + info['kind'], 'take-window:' + str(info['window']), 'take-market:' + info['market']]
    exp = expected_takes(spec, g)
    what = '%s %r (window %s .. %s, extra costs %s, capacities %s .. %s) on the horizon %s .. %s' % (
        spec['type'], spec['name'], spec['args'].get('start', {}).get('$dt'), spec['args'].get('end', {}).get('$dt'),
        'yes' if spec['args'].get('extra_costs') else 'no', str(spec['args'].get('min_cap'))[:20], str(spec['args'].get('max_cap'))[:20], g['start'], g['end'])

    def descr(key, i, v, cov, full):
        tk = spec['args'][key]
        return '%s %s .. %s of %g (%gs of %gs covered)' % (key, tk['start'][i]['$dt'], tk['end'][i]['$dt'], v, cov, full)
    for key, i, v, cov, full, steps in exp:
        feats.append('take-period:%s:%s' % (key, 'none' if cov == 0 else 'all' if cov == full else 'part'))
    # ---- (A) the right-hand sides of the asset's own take rows
    try:
        tg = scen.make_grid(g)
        asset = scen.build_asset(spec, scen.make_nodes(base['nodes']))
        pr = {k: np.asarray(v, dtype=float) for k, v in base['prices'].items()}
        with impl.Quiet():
            op = asset.setup_optim_problem(pr, tg)
    except Exception as e_:
        feats.append('setup-error:' + impl.err_class(e_))
        return
    sign = -1.0 if spec['type'] == 'ExtendedTransport' else 1.0       # (the transport's rows are written for the flow out of its first node)
    rows = [(key, i, v, cov, full) for key, i, v, cov, full, steps in exp if cov > 0]
    nA = 0 if op.A is None else op.A.shape[0]
    own_rows_only = spec['type'] in ('Contract', 'MultiCommodityContract', 'ExtendedTransport')
    if len(op.c):
        two = len(op.c) >= 2 * max(1, sum(1 for _ in set(op.mapping['time_step']))) and own_rows_only
        feats.append('take-vars-per-step:%s' % ('2' if two else '1'))
        facts['two_variables'] = bool(two)
    if (own_rows_only and nA != len(rows)) or nA < len(rows):
        viol('%s: %d take periods cover a step of the horizon inside the window, but the problem has %d take rows' % (what, len(rows), nA), what='take_rows')
    else:
        for k, (key, i, v, cov, full) in enumerate(rows):
            want = sign * v * cov / full
            got = float(op.b[k])
            typ = {('max_take', 1.0): 'U', ('min_take', 1.0): 'L', ('max_take', -1.0): 'L', ('min_take', -1.0): 'U'}[(key, sign)]
            if op.cType[k] != typ or abs(got - want) > 1e-9 * max(1.0, abs(want)):
                viol('%s: %s: restriction %s %.10g, expected %s V*covered/(e-s) = %.10g' % (what, descr(key, i, v, cov, full), op.cType[k], got, typ, want), what='take_rhs')
                break
        if rows:
            r['nontrivial'] = True
            r['evaluated'] += 1
    # ---- (B) end to end: what is taken in the covered part of every period respects the prorated bound
    if spec['type'] not in ('Contract', 'MultiCommodityContract', 'ExtendedTransport'):
        return       # (plants: the take counts power plus the power equivalent of heat; only (A))
    try:
        rec = pf.setup_mono(base)
        pf.solve_rec(rec)
    except Exception as e_:
        feats.append('setup-error:' + impl.err_class(e_))
        return
    if isinstance(rec['res'], str):
        feats.append('unsolved')
        return
    r['evaluated'] += 1
    col = impl.disp_cols(rec['portf'])[(spec['name'], spec['nodes'][0])]
    d = rec['out']['dispatch'][col].values.astype(float)
    if spec['type'] == 'MultiCommodityContract':
        d = d / spec['args']['factors_commodities'][0]
    d = sign * d
    scale = max(1.0, float(np.abs(d).max()))
    for key, i, v, cov, full, steps in exp:
        if cov == 0:
            continue
        bound = v * cov / full
        tot = float(d[steps].sum())
        binding = abs(tot - bound) <= 1e-6 * scale
        feats.append('take-%s:%s' % (key, 'binding' if binding else 'slack'))
        if (key == 'max_take' and tot > bound + 1e-6 * scale * len(steps)) or (key == 'min_take' and tot < bound - 1e-6 * scale * len(steps)):
            viol('%s: %s: in the optimum %.9g is taken in the covered steps %s, the prorated bound is %.9g' % (what, descr(key, i, v, cov, full), tot, steps, bound), what='take_dispatch', key=key)
            break
    r['observed'] = {'value': float(rec['res'].value)}
