"""C08: assets with a COARSER frequency than the grid whose own window reaches beyond the optimisation horizon.

An asset is dispatched only within its own [start, end) window clipped to the horizon; rolling optimisation with an asset that
started in the past (or ends in the far future) is the everyday case.  With `freq` the asset's coarse steps are counted from its
own start, so coarse intervals may lie entirely outside the horizon (they hold no grid point and are skipped) or partly outside
(the interval at the edge keeps the grid points it holds and becomes a shorter coarse step).

Stream (`gen_case`): one or two markets with strongly varying prices, possibly a free-standing asset, and ONE focus asset of a
class that accepts `freq` (simple contract with one or two variables per step, contract with takes, transport, extended
transport, storage, multi-commodity contract; all parameter forms of the generic generators) at a frequency of 2-4 grid steps,
whose window reaches beyond the horizon at the start, at the end or at both ends: by whole coarse steps, by a part of one (also
between grid points), or both; the side that does not reach beyond is open, on one of the asset's own coarse cuts, or on a grid
point (then a remainder may be dropped: known finding F-19b, same in all variants compared here).

Oracles (`run_case`), all statements of C08 about the real code:
 (a) set-up, optimisation and read-out work whenever they work for the same asset WITHOUT freq (whose window is simply clipped);
 (b) the asset's reported dispatch is zero outside its window clipped to the horizon;
 (c) what lies outside the horizon does not matter: the window shrunk to the asset's own coarse cuts that enclose the horizon
     (whole coarse intervals outside dropped; the coarse grid inside is the same) gives the same optimum, and the solution found
     is feasible for, and optimal in, that problem;
 (d) where clipping the window to the horizon itself leaves the coarse grid unchanged (the horizon starts on one of the asset's
     coarse cuts, and the horizon's length from there is a whole number of coarse steps or the window ends inside) the window
     clipped to the horizon gives the same optimum;
 (e) a coarse asset whose window lies ENTIRELY outside the horizon (before / after it, also ending / starting exactly at its edge)
     is inert: set-up, optimisation and read-out work, nothing is dispatched, the optimum is that of the portfolio without it.
Scenario format: harness.scen.
"""
import copy

import numpy as np
import pandas as pd

from .. import gen, pf, impl

# Windows lying ENTIRELY outside the horizon (oracle (e)).  With only the Timegrid part of the repair (coarse intervals without
# reference point skipped) such an asset failed one step later: KeyError 'time_step' in Asset.__extend_mapping_to_minor_grid__
# (empty mapping), IndexError in Storage.fill_level (the empty coarse I was a float array), TypeError in values_to_grid for any
# parameter given as interval data (the points of the empty coarse grid were a float array: finding F-19e); the repair taken
# covers all three.  Witness: hourly 2021-01-10..14, SimpleContract(freq='d', start=2021-01-01, end=2021-01-05).
ALLOW_OUTSIDE = True

KINDS = ['simple', 'simple', 'simple2', 'contract', 'transport', 'ext_transport', 'storage', 'storage', 'multi']
PLACEMENTS = ['start_before', 'start_before', 'end_after', 'end_after', 'both', 'both', 'both']


def _freq_str(seconds):
    return ('%dmin' % (seconds // 60)) if seconds % 3600 else ('%dh' % (seconds // 3600))


def _abs(ts, tz):
    """naive local scenario date -> comparable instant"""
    ts = pd.Timestamp(ts)
    return ts.tz_localize(tz) if tz else ts


def _naive(ts, tz):
    """instant -> naive local date that localises back to the same instant (else None)"""
    if tz is None:
        return ts
    n = ts.tz_localize(None)
    try:
        return n if n.tz_localize(tz) == ts else None
    except Exception:
        return None


def gen_case(rnd, tmax=16):
    g = gen.gen_grid(rnd, tmin=4, tmax=tmax, tz_prob=0.1,
                     grids=[x for x in gen.GRIDS if x[2] <= pd.Timedelta(hours=6)] + [gen.GRIDS[0], gen.GRIDS[0]])
    T = gen.real_T(g)
    tz = g.get('tz')
    step = pd.Timedelta(seconds=g['step_s'])
    mult = rnd.choice([2, 2, 3, 4])
    cf = step * mult
    prices = {}
    ext = ['N1'] if rnd.random() < 0.5 else ['N1', 'N2']
    assets = []
    for k, n in enumerate(ext):
        key = 'p%d' % len(prices)
        prices[key] = [gen.q8(rnd, 2, 20) for _ in range(T)]
        a = {'type': 'SimpleContract', 'name': 'mkt%d' % (k + 1), 'nodes': [n], 'args': {'min_cap': -40.0, 'max_cap': 40.0, 'price': key}}
        if rnd.random() < 0.25:
            a['args']['extra_costs'] = gen.q8(rnd, 0.125, 0.5)
        assets.append(a)
    if rnd.random() < 0.4:
        n = rnd.choice(ext)
        a = gen.gen_storage(rnd, g, prices, T, 'free1', [n], False, False) if rnd.random() < 0.5 else gen.gen_simple_contract(rnd, g, prices, T, 'free1', n)
        if rnd.random() < 0.3:
            gen.put_window(a['args'], gen.window(rnd, g))
        assets.append(a)
    # ---- the focus asset
    kind = rnd.choice(KINDS)
    if kind in ('transport', 'ext_transport', 'multi') and len(ext) < 2:
        kind = rnd.choice(['simple', 'simple2', 'contract', 'storage'])
    n = rnd.choice(ext)
    other = [x for x in ext if x != n]
    nm = 'cw'
    if kind in ('simple', 'simple2'):
        a = gen.gen_simple_contract(rnd, g, prices, T, nm, n)
        if kind == 'simple2':     # two variables per step: both directions and extra costs
            a['args'].update({'min_cap': -gen.q8(rnd, 0.5, 4), 'max_cap': gen.q8(rnd, 0.5, 4), 'extra_costs': gen.q8(rnd, 0.125, 1)})
    elif kind == 'contract':
        a = gen.gen_contract(rnd, g, prices, T, nm, n)
    elif kind in ('transport', 'ext_transport'):
        pair = [n, other[0]] if rnd.random() < 0.5 else [other[0], n]
        a = gen.gen_transport(rnd, g, prices, T, nm, pair[0], pair[1], ext=(kind == 'ext_transport'))
    elif kind == 'storage':
        a = gen.gen_storage(rnd, g, prices, T, nm, [n], False, False)
    else:
        a = gen.gen_multi(rnd, g, prices, T, nm, [n, other[0]])
    args = a['args']
    for k_ in ('start', 'end', 'wacc', 'block_size', 'max_store_duration', 'periodicity', 'periodicity_duration'):
        args.pop(k_, None)
    args['freq'] = _freq_str(int(cf.total_seconds()))
    # ---- its window
    pl = rnd.choice(PLACEMENTS + (['outside_before', 'outside_after', 'outside_after'] if ALLOW_OUTSIDE else []))
    S, E = gen.P(g, 0), gen.P(g, T)

    def beyond():
        """(distance, description): whole coarse steps, part of one (in grid steps, sometimes half a grid step more), or both"""
        whole = rnd.choice([0, 0, 1, 1, 2, 3])
        part = rnd.choice([0, 0] + list(range(1, mult)))
        half = rnd.random() < 0.15
        if whole == 0 and part == 0 and not half:
            whole = 1
        d = whole * cf + part * step + (step / 2 if half else pd.Timedelta(0))
        return d, ('whole' if whole else '') + ('+' if whole and (part or half) else '') + ('part' if (part or half) else '')
    lead = tail = None
    s = e = None
    if pl in ('start_before', 'both'):
        d, lead = beyond()
        s = S - d
    if pl in ('end_after', 'both'):
        d, tail = beyond()
        e = E + d
    if pl == 'start_before':
        r = rnd.random()
        if r < 0.4:
            e = None
        elif r < 0.8:
            # on one of the asset's own coarse cuts strictly inside the horizon (if there is one)
            m_lo = int((S - s) / cf) + 1
            m_hi = int((E - s) / cf)
            e = s + rnd.randint(m_lo, m_hi) * cf if m_hi >= m_lo else None
        else:
            e = gen.P(g, rnd.randint(max(1, T // 2), T))
    if pl == 'end_after':
        r = rnd.random()
        s = None if r < 0.4 else gen.P(g, rnd.randint(0, max(0, T // 2)))
    if pl == 'outside_before':
        d, lead = beyond()
        e = S - d + (cf if rnd.random() < 0.3 else pd.Timedelta(0)) if d > cf else S - rnd.choice([0, 1]) * step
        s = e - rnd.randint(1, 3) * cf - rnd.choice([0, 1]) * step
    if pl == 'outside_after':
        d, tail = beyond()
        s = E + d - cf if d > cf else E + rnd.choice([0, 1]) * step
        e = s + rnd.randint(1, 3) * cf + rnd.choice([0, 1]) * step
    if tz is not None:
        # (instants: the arithmetic above is on naive local times; across a clock change take the date as it is if it exists)
        if (s is not None and not gen.ok_local(s, g)) or (e is not None and not gen.ok_local(e, g)):
            s, e, pl = S - cf, None, 'start_before'
            lead, tail = 'whole', None
    if s is not None:
        args['start'] = gen.dtv(s)
    if e is not None:
        args['end'] = gen.dtv(e)
    assets.insert(rnd.randint(0, len(assets)), a)
    return {'grid': g, 'nodes': ext, 'prices': prices, 'assets': assets,
            'coarse': {'asset': nm, 'kind': kind, 'placement': pl, 'mult': mult, 'cf_s': int(cf.total_seconds()), 'lead': lead, 'tail': tail}}


# ------------------------------------------------------------------------------------------ variants
def _focus(scn):
    return [a for a in scn['assets'] if a['name'] == scn['coarse']['asset']][0]


def enclosing_window(scn, tg):
    """the focus asset's window shrunk to its own coarse cuts that enclose the horizon: (start, end) as naive local dates
    (None = as given), or None if no shrinking is possible / expressible.  The coarse cuts are start, start + cf, ... (instants)."""
    g = scn['grid']
    tz = g.get('tz')
    a = _focus(scn)['args']
    cf = pd.Timedelta(seconds=scn['coarse']['cf_s'])
    pts = [pd.Timestamp(p) for p in tg.timepoints] + [pd.Timestamp(tg.end)]     # (instants of the real grid)
    p0, plast = pts[0], pts[-2]
    if 'start' not in a:
        return None         # cuts are counted from the horizon start: nothing before it
    s = _abs(a['start']['$dt'], tz)
    e = _abs(a['end']['$dt'], tz) if 'end' in a else None
    s2, e2 = s, e
    if s < p0:
        s2 = s + ((p0 - s) // cf) * cf              # the largest cut <= first grid point
    k = (plast - s) // cf + 1                       # index of the smallest cut > last grid point
    ce = s + k * cf
    if ce > plast and (e is None or ce <= e):
        # (without an end the window runs to the end of the horizon: the cut is kept only if it does not lie after it, so that
        #  the cuts up to it are the same)
        hor_end = pts[-1]
        if e is not None or ce <= hor_end:
            e2 = ce
    if s2 == s and e2 == e:
        return None
    ns = _naive(s2, tz)
    ne = _naive(e2, tz) if e2 is not None else None
    if ns is None or (e2 is not None and ne is None):
        return None
    return ns, ne


def clipped_window(scn, tg):
    """the window clipped to the horizon, where that leaves the coarse grid unchanged (see module text, (d)); else None"""
    g = scn['grid']
    tz = g.get('tz')
    a = _focus(scn)['args']
    cf = pd.Timedelta(seconds=scn['coarse']['cf_s'])
    pts = [pd.Timestamp(p) for p in tg.timepoints] + [pd.Timestamp(tg.end)]     # (instants of the real grid)
    S, E = pts[0], pts[-1]
    s = _abs(a['start']['$dt'], tz) if 'start' in a else None
    e = _abs(a['end']['$dt'], tz) if 'end' in a else None
    if (s is None or s >= S) and (e is None or e <= E):
        return None
    s2, e2 = s, e
    if s is not None and s < S:
        if (S - s) % cf != pd.Timedelta(0):
            return None
        s2 = None
    s_eff = S if s2 is None else s2
    if e is not None and e > E:
        if (E - s_eff) % cf != pd.Timedelta(0):
            return None
        e2 = None
    ns = _naive(s2, tz) if s2 is not None else None
    ne = _naive(e2, tz) if e2 is not None else None
    if (s2 is not None and ns is None) or (e2 is not None and ne is None):
        return None
    return ns, ne


def with_window(scn, w):
    out = copy.deepcopy(scn)
    a = _focus(out)['args']
    a.pop('start', None)
    a.pop('end', None)
    if w[0] is not None:
        a['start'] = gen.dtv(w[0])
    if w[1] is not None:
        a['end'] = gen.dtv(w[1])
    return out


def window_mask(tg, tz, args):
    tp = tg.timepoints
    mask = np.ones(tg.T, dtype=bool)
    if 'start' in args:
        mask &= np.asarray(tp >= _abs(args['start']['$dt'], tz))
    if 'end' in args:
        mask &= np.asarray(tp < _abs(args['end']['$dt'], tz))
    return mask


def _run(scn):
    base = {k: v for k, v in scn.items() if k != 'coarse'}
    try:
        rec = pf.setup_mono(base)
        pf.solve_rec(rec)
        return rec, None
    except Exception as e_:
        return None, e_


# ------------------------------------------------------------------------------------------ oracle
def run_case(scn, r):
    """fills the result record r of props/c08.run_case (features, violations, evaluated, nontrivial, observed)"""
    feats = r['features']
    info = scn['coarse']
    spec = _focus(scn)
    tz = scn['grid'].get('tz')
    facts = {'asset_type': spec['type'], 'placement': info['placement'], 'lead': info['lead'], 'tail': info['tail'], 'stream': 'coarse_window'}

    def viol(msg, **f):
        r['violations'].append({'oracle': 'horizon_and_windows', 'detail': msg, 'facts': dict(facts, **f)})
    feats += ['coarse-window:' + info['placement'], 'coarse-asset:' + info['kind'], 'coarse-mult:%d' % info['mult']]
    if info['lead']:
        feats.append('coarse-lead:' + info['lead'])
    if info['tail']:
        feats.append('coarse-tail:' + info['tail'])
    what = 'coarse asset %r (%s, freq %s, window %s .. %s on the horizon %s .. %s)' % (
        spec['name'], spec['type'], spec['args']['freq'], spec['args'].get('start', {}).get('$dt'), spec['args'].get('end', {}).get('$dt'),
        scn['grid']['start'], scn['grid']['end'])
    rec, err = _run(scn)
    r['evaluated'] += 1
    if err is not None:
        # (a) control: the same asset without freq
        ctl = copy.deepcopy(scn)
        _focus(ctl)['args'].pop('freq')
        _, errc = _run(ctl)
        if errc is None:
            viol('%s: set-up / optimisation / read-out raises %s (%s); the same asset without freq (window clipped to the horizon) works' % (
                what, type(err).__name__, str(err)[:120]), what='coarse_window_raises', error=type(err).__name__)
        else:
            feats.append('setup-error:' + impl.err_class(err))
        return
    outside = info['placement'].startswith('outside')
    if isinstance(rec['res'], str):
        feats.append('unsolved')
        return
    V0 = float(rec['res'].value)
    tol = 2e-6 * max(1.0, abs(V0))
    # (b) no dispatch outside the window clipped to the horizon
    disp = rec['out']['dispatch']
    cols = impl.disp_cols(rec['portf'])
    scale = max(1.0, float(np.abs(disp.values).max()) if disp.size else 1.0)
    mask = window_mask(rec['tg'], tz, spec['args'])
    active = False
    for a in rec['portf'].assets:
        if a.name != spec['name']:
            continue
        for n in a.nodes:
            col = cols[(a.name, n.name)]
            if list(cols.values()).count(col) > 1 or col not in disp.columns:
                continue
            v = disp[col].values.astype(float)
            bad = np.where((~mask) & (np.abs(v) > 1e-6 * scale))[0]
            if len(bad):
                viol('%s is dispatched at step %d (%.6g) outside its window' % (what, int(bad[0]), v[bad[0]]), what='outside_window')
                break
            active = active or (mask.any() and float(np.abs(v[mask]).max()) > 1e-6 * scale)
    feats.append('coarse-dispatched' if active else 'coarse-idle')
    r['nontrivial'] = bool(active)
    obs = {'value': V0}

    def same_optimum(tag, w, text):
        var = with_window(scn, w)
        rv, ev = _run(var)
        r['evaluated'] += 1
        feats.append('variant:' + tag)
        if ev is not None:
            viol('%s works, but with the window %s (%s .. %s) it raises %s (%s)' % (what, text, w[0], w[1], type(ev).__name__, str(ev)[:120]), what='coarse_%s_raises' % tag)
            return
        if isinstance(rv['res'], str):
            viol('%s: optimum %.9g, but with the window %s (%s .. %s) the optimisation fails (%s)' % (what, V0, text, w[0], w[1], rv['res']), what='coarse_%s_status' % tag)
            return
        V1 = float(rv['res'].value)
        obs['value_' + tag] = V1
        if abs(V0 - V1) > tol:
            viol('%s: optimum %.9g; with the window %s (%s .. %s) the optimum is %.9g' % (what, V0, text, w[0], w[1], V1), what='coarse_%s_value' % tag)
            return
        # the solution found is feasible for, and optimal in, the variant (same variables when the coarse grid is the same)
        if len(rv['op'].c) == len(rec['op'].c):
            worst, wh = pf.feasibility_violation(rv['op'], rec['res'].x)
            val = -float(np.dot(rv['op'].c, rec['res'].x))
            if worst > 1e-5 or abs(val - V1) > tol:
                viol('%s: its solution is not an optimal solution of the problem with the window %s (%s .. %s): violates %s by %.3g, value %.9g vs %.9g' % (
                    what, text, w[0], w[1], wh, worst, val, V1), what='coarse_%s_dispatch' % tag)
        else:
            feats.append('variant-sizes-differ:' + tag)     # (no statement of C08: the values were compared)
    if outside:
        # (e) inert: the optimum without the asset
        bare = copy.deepcopy(scn)
        bare['assets'] = [a for a in bare['assets'] if a['name'] != spec['name']]
        rb, eb = _run(bare)
        r['evaluated'] += 1
        if eb is None and not isinstance(rb['res'], str) and abs(float(rb['res'].value) - V0) > tol:
            viol('%s lies outside the horizon but changes the optimum from %.9g to %.9g' % (what, float(rb['res'].value), V0), what='coarse_outside_value')
        r['nontrivial'] = True
        r['observed'] = obs
        return
    # (c) window shrunk to the enclosing coarse cuts
    w = enclosing_window(scn, rec['tg'])
    if w is not None:
        same_optimum('enclosing', w, 'shrunk to its own coarse cuts that enclose the horizon')
    # (d) window clipped to the horizon where the coarse grid stays the same
    w = clipped_window(scn, rec['tg'])
    if w is not None:
        same_optimum('clipped', w, 'clipped to the horizon, which starts on one of its coarse cuts')
    r['observed'] = obs


def selftest(n=200, seed=0, tmax=16):
    """stand-alone run of the stream (development): prints violation kinds and the feature histogram"""
    import random
    from collections import Counter
    rnd = random.Random(seed * 7919 + 88)
    feats, kinds, first = Counter(), Counter(), {}
    nontrivial = 0
    for i in range(n):
        scn = gen_case(random.Random(rnd.getrandbits(48)), tmax=tmax)
        r = {'evaluated': 0, 'nontrivial': False, 'features': [], 'disagreements': [], 'violations': []}
        run_case(scn, r)
        feats.update(r['features'])
        nontrivial += bool(r['nontrivial'])
        for v in r['violations']:
            kinds[v['facts']['what']] += 1
            first.setdefault(v['facts']['what'], (i, v['detail']))
    return {'cases': n, 'nontrivial': nontrivial, 'violations': dict(kinds), 'first': first, 'features': dict(feats)}


if __name__ == '__main__':
    import sys
    res = selftest(int(sys.argv[1]) if len(sys.argv) > 1 else 200, int(sys.argv[2]) if len(sys.argv) > 2 else 0)
    print('cases', res['cases'], 'nontrivial', res['nontrivial'], 'violations', res['violations'])
    for k, (i, d) in res['first'].items():
        print('VIO', k, 'case', i, d[:400])
    for k in sorted(res['features']):
        print('  ', k, res['features'][k])
