"""pkg-costs2 - C17: `costs_only=True` for the remaining bases (proof package).

No new model file and no new driver op.  `EAO/Properties/C17Costs2.lean` removes the hypothesis `BasesWF` of
`EAO.C17C.costs_only_is_cost` (bases of scaled assets have as many bounds as costs) by proving the length facts for the CHP chain
and the coarse builders, and adds the `Storage` WITH an own coarse `freq`: its cost-only branch `costsOnlyCoarseStorage` is
defined in `EAO/Lemmas/CostsOnly2.lean` literally after `eaopack/assets.py` 316-400 and proved equal to `c` of
`buildCoarseStorage` (`EAO/Model/CoarseStorage.lean`), whose correspondence with the real code runs in
`harness/comp/coarsestorage.py` (driver op `coarse_storage`).

Executable cross-check (`selftest`): on the cases of `coarsestorage.gen_case` the REAL `Storage(freq=…).setup_optim_problem(…,
costs_only=True)` against (a) `c` of the real full set-up (the statement of `costs_only_is_cost_coarse_storage` on the real code;
where the full set-up fails the cost-only branch may succeed only with the error classes of
`costs_only_coarse_storage_error_side`) and (b), with a driver, `c` of the model's `buildCoarseStorage` - which by the theorem IS
the model's cost-only vector.
"""
import random
import traceback

import numpy as np

from ..impl import Quiet, err_class
from ..lean import fs
from ..pf import cmp_vec
from . import coarsestorage as cs

NAME = 'costsonly2'
TOL = 1e-9

M = 'EAO.Properties.C17Costs2'

THEOREMS_C17_COSTS2 = [
    (M, 'EAO.C17C2.chp_any_bounds_len', 'CHPAsset / Plant with or without ramp profiles on a grid with per-step lists of equal length, over a parent problem with as many lower bounds as costs: the result has as many lower bounds as costs (heat copy, on / start / shutdown booleans included)'),
    (M, 'EAO.C17C2.minload_bounds_len', 'minimum-load costs add one cost and one bound per step: the length fact is kept'),
    (M, 'EAO.C17C2.chp_bounds_len', 'the chain Contract -> CHPAsset / Plant -> minimum-load costs returns problems with as many lower bounds as costs'),
    (M, 'EAO.C17C2.coarse_simple_bounds_len', 'SimpleContract with an own coarse freq (coarse grid with lists of equal length and one minor list per coarse step): as many lower bounds as costs'),
    (M, 'EAO.C17C2.coarse_transport_bounds_len', 'Transport with an own coarse freq: the same'),
    (M, 'EAO.C17C2.coarseOk_of_wellFormed', 'the hypothesis on the coarse grid is part of CoarseGrid.WellFormed (what coarsening a top-level grid gives)'),
    (M, 'EAO.C17C2.basesWF_chp', 'a scaled asset over a CHP asset / plant (any profile, any minimum-load costs): the hypothesis BasesWF of C17C.costs_only_is_cost holds'),
    (M, 'EAO.C17C2.basesWF_coarse', 'a scaled asset over a contract or a transport with an own coarse freq: BasesWF holds'),
    (M, 'EAO.C17C2.build_len_all', 'every problem ANY asset description (CSpec: all builders, wrappers around wrappers) builds on well-formed grids has as many lower bounds as costs'),
    (M, 'EAO.C17C2.buildAll_len_all', 'the same for the list of problems of the assets inside a structured / linked asset'),
    (M, 'EAO.C17C2.basesWF_all', 'BasesWF holds for every description on well-formed grids'),
    (M, 'EAO.C17C2.gridsWF_of_gridsOk', 'the grid hypothesis of C17C.costs_only_is_cost_lp implies the one used here (the new theorems cover the old ones)'),
    (M, 'EAO.C17C2.gridsWFAll_of_gridsOkAll', 'the same for lists of descriptions'),
    (M, 'EAO.C17C2.costs_only_is_cost_all', 'for EVERY asset description without a periodic asset whose cost-only branch is reached, on grids as Timegrid makes them: if the set-up returns problem a the cost-only branch returns a.c - no hypothesis on bases of scaled assets'),
    (M, 'EAO.C17C2.costs_only_fails_only_if_build_fails_all', 'hence a failing cost-only branch means a failing set-up'),
    (M, 'EAO.C17C2.gridsWF_witness', 'the grid hypothesis cannot be dropped: on a coarse grid without discount factors the scaled transport has c = [12] in the full branch and [] in the cost-only branch (len(op.l) vs len(op))'),
    (M, 'EAO.C17C2.portfolio_costs_only_is_cost_all', 'Portfolio.setup_optim_problem(costs_only=True) returns the cost vector of the assembled portfolio problem, for portfolios of any modelled assets, without BasesWF'),
    (M, 'EAO.C17C2.cost_samples_are_problem_costs_all', 'create_cost_samples: the i-th vector is the cost vector of the portfolio problem under the i-th price sample, without BasesWF'),
    (M, 'EAO.C17C2.cost_samples_fit_all', 'the vectors of create_cost_samples satisfy SamplesFit of the SLP theorems when the number of variables is the same under every sample (F-17m), without BasesWF'),
    (M, 'EAO.C17C2.costs_only_is_cost_coarse_storage', 'Storage with an own coarse freq (constructor guards included): whenever the set-up succeeds with problem a, the cost-only branch (plain mean price per coarse step, costs on the coarse grid, one zero per boolean) returns a.c'),
    (M, 'EAO.C17C2.costs_only_is_cost_coarse_storage_G', 'the same from the full grid and the cuts of Asset.set_timegrid (guard freq_a >= freq_p and coarsening in front of both branches)'),
    (M, 'EAO.C17C2.costs_only_coarse_storage_error_side', 'coarse Storage: when the cost-only branch returns a vector the set-up returns a problem with it, or fails with an IndexError (no node, block structure, extension of the mapping to the minor grid) or the NaN assertion of the block structure - nothing else'),
    (M, 'EAO.C17C2.setup_error_shared_coarse_storage', 'coarse Storage: every other error of the set-up is raised by the cost-only branch too, with the same class'),
    (M, 'EAO.C17C2.coarse_storage_bounds_len', 'the coarse storage problem has as many lower bounds as costs (it can be the base of a scaled asset), no hypothesis on the grid'),
    (M, 'EAO.C17C2.costs_only_is_cost_scaled_coarse_storage', 'scaled asset over a coarse storage: the scaled cost-only vector of the storage\'s cost-only vector is c of the scaled problem'),
    (M, 'EAO.C17C2.shape_price_free_coarse_storage', 'coarse Storage: the length of the cost-only vector does not depend on the prices'),
]

THEOREMS = THEOREMS_C17_COSTS2

# error classes the full set-up may fail with while the cost-only branch succeeds (`costs_only_coarse_storage_error_side`)
LATE_ERRORS = ('IndexError', 'KeyError', 'AssertionError')


def gen_case(rnd, malformed=False):
    return cs.gen_case(rnd, malformed=malformed)


def run_impl(case):
    """cost-only vector and full set-up of the real coarse storage: {'costs': [...]|None, 'costs_error', 'c': [...]|None, 'error'}"""
    out = {'costs': None, 'c': None}
    try:
        with Quiet():
            tg, nodes, prices = cs._objects(case)
            asset = cs._storage(case, nodes)
            c = asset.setup_optim_problem(prices, tg, costs_only=True)
        out['costs'] = [float(v) for v in np.asarray(c).ravel()]
    except Exception as e:
        out['costs_error'] = err_class(e)
    try:
        with Quiet():
            tg, nodes, prices = cs._objects(case)
            asset = cs._storage(case, nodes)
            op = asset.setup_optim_problem(prices, tg)
        out['c'] = [float(v) for v in np.asarray(op.c).ravel()]
    except Exception as e:
        out['error'] = err_class(e)
    return out


def oracle(case, r):
    """`costs_only_is_cost_coarse_storage` and its error side on the real code"""
    viol = []
    if r['c'] is not None:
        if r['costs'] is None:
            viol.append({'oracle': 'costs_only_is_cost_coarse_storage', 'detail': 'set-up succeeds, cost-only branch raises %s' % r.get('costs_error'),
                         'facts': {}})
        elif len(r['costs']) != len(r['c']) or any(a != b and not (a != a and b != b) for a, b in zip(r['costs'], r['c'])):
            viol.append({'oracle': 'costs_only_is_cost_coarse_storage', 'detail': 'cost-only vector %r vs c %r' % (r['costs'][:8], r['c'][:8]),
                         'facts': {'n_costs': len(r['costs']), 'n_c': len(r['c'])}})
    elif r['costs'] is not None and r.get('error') not in LATE_ERRORS:
        viol.append({'oracle': 'costs_only_coarse_storage_error_side', 'detail': 'cost-only branch succeeds, set-up raises %s' % r.get('error'),
                     'facts': {}})
    elif r['costs'] is None and r.get('error') != r.get('costs_error') and r.get('error') not in LATE_ERRORS:
        viol.append({'oracle': 'setup_error_shared_coarse_storage', 'detail': 'set-up raises %s, cost-only branch %s' % (r.get('error'), r.get('costs_error')),
                     'facts': {}})
    return viol


def compare(case, r, model_result, req=None):
    """real cost-only vector vs `c` of the model's `buildCoarseStorage` (= the model's cost-only vector by the theorem);
    exact where `coarsestorage.is_exact` says the inputs are dyadic, else relative 1e-9"""
    if 'err' in model_result or r['costs'] is None:
        return []
    m = model_result['ok']
    if 'problem' not in m:
        return []
    d = cmp_vec('costs_only', m['problem']['c'], [fs(v) for v in r['costs']], 0 if (req is not None and cs.is_exact(case, req)) else TOL)
    return [d] if d else []


def selftest(n, seed, drv=None, verbose=False):
    rnd = random.Random(seed)
    counts = {'cases': 0, 'both_ok': 0, 'costs_only_ok_setup_fails': 0, 'both_fail': 0, 'model_compared': 0, 'harness_errors': 0}
    dis, viol = [], []
    for i in range(n):
        case = gen_case(random.Random(rnd.getrandbits(48)), malformed=(i % 5 == 4))
        try:
            r = run_impl(case)
            counts['cases'] += 1
            counts['both_ok'] += int(r['c'] is not None and r['costs'] is not None)
            counts['costs_only_ok_setup_fails'] += int(r['c'] is None and r['costs'] is not None)
            counts['both_fail'] += int(r['c'] is None and r['costs'] is None)
            for v in oracle(case, r):
                v['case'] = case
                viol.append(v)
                if verbose:
                    print('VIOLATION', i, v['oracle'], v['detail'])
            if drv is not None and r['costs'] is not None and r['c'] is not None:
                ir = cs.run_impl(case, solve=False)
                if 'problem' in ir and 'unmodelled' not in ir and 'grid_error' not in ir:
                    req = cs.request(case, ir, fine=False, readout=False)
                    mr = drv.ask(req)
                    counts['model_compared'] += 1
                    for d in compare(case, r, mr, req):
                        dis.append({'case': case, 'detail': d})
                        if verbose:
                            print('DISAGREE', i, d)
        except Exception as e:
            counts['harness_errors'] += 1
            dis.append({'case': case, 'detail': 'harness error %s: %s' % (type(e).__name__, traceback.format_exc()[-600:])})
    return {'counts': counts, 'disagreements': dis, 'violations': viol}
