"""C09, ScaledAsset over a structure whose inner list is permuted (proof package `pkg-scaledperm`).

Lean side: `EAO/Lemmas/ScaledPerm.lean` (namespace `EAO.ScaledPerm`) and `EAO/Properties/C09Scaled.lean` (namespace `EAO.C09S`,
the theorems of `THEOREMS_C09_SCALED`).  No new model, no new driver op: the executable cross-check goes through the EXISTING
op `scaled` (`EAO/Driver/Scaled.lean`) on the structured problems CAPTURED from the real code (`harness/comp/scaled.py` does the
capturing and the plain correspondence).

A case = a structured case of `harness/comp/scaled.py`, a permutation of the list the structured asset wraps and the parameters
of a ScaledAsset put around the structured asset.  Four real set-ups: the structure alone in both orders (block sizes), the
scaled asset over the structure in both orders.

  run_impl   the four real set-ups; the structured problems (bases) and the scaled problems are captured
  request    two requests for the op `scaled` (captured real structured problem of either order as the base)
  compare    model vs real on the permuted variant (the existing correspondence) and `scaled_varperm` on the MODEL's two answers
             (strict: rows as multisets, every row as a multiset of (column, coefficient) pairs; mapping rows as a multiset)
  oracle     `scaled_over_permuted_structure` on the REAL code's two scaled problems (VarPerm along the block permutation that
             fixes the scale variable; rows canonicalised) and, for LP cases, the optimal value of the whole portfolio
"""
import copy
import os
import random
import sys
import traceback
from fractions import Fraction

sys.path.insert(0, os.environ.get('EAO_REPO', '/repo'))

from .. import gen, impl  # noqa: E402
from ..impl import problem_json  # noqa: E402
from . import scaled as SC  # noqa: E402

M = 'EAO.Properties.C09Scaled'
THEOREMS_C09_SCALED = [
    (M, 'EAO.C09S.sgood_iff',
     'the hypotheses on a leaf: C09.WF, C09.Local and MapLocal (EVERY mapping row, of any type, points at a variable of the asset)'),
    (M, 'EAO.C09S.varperm_same_results',
     'VarPerm sigma A B (B = A with the variables renumbered along sigma: cost, bounds permuted, rows and mapping rows renamed as multisets, flags and labels carried): y feasible for B iff y o sigma feasible for A, same cost, same flow at every (node, step)'),
    (M, 'EAO.C09S.varperm_sim', 'the syntactic relation VarPerm implies the semantic correspondence Sim of NestedPerm'),
    (M, 'EAO.C09S.varperm_point',
     'every feasible point of A has a feasible point x\' of B with x\'(sigma j) = x(j), the same cost and the same flows'),
    (M, 'EAO.C09S.varperm_refl', 'VarPerm id A A for problems with bounds of the right length'),
    (M, 'EAO.C09S.varperm_trans', 'renumberings compose'),
    (M, 'EAO.C09S.varperm_symm', 'the inverse renumbering: VarPerm tau B A with tau o sigma = id = sigma o tau'),
    (M, 'EAO.C09S.varperm_good', 'a renumbering of a well-formed, local, map-local problem is one'),
    (M, 'EAO.C09S.structured_inner_perm_syntactic',
     'permuting the wrapped list of a structured asset yields VarPerm along a BLOCK permutation sigma (sigma(offset i + j) = offset\' (pi i) + j, inner\'[pi i] = inner[i]) - strengthens C09N.structured_inner_perm'),
    (M, 'EAO.C09S.structured_inner_perm_of_syntactic',
     'the conclusion of C09N.structured_inner_perm (feasible rearranged point, same cost, flows, blocks) read off the syntactic form'),
    (M, 'EAO.C09S.scaled_varperm',
     'buildScaled p maps VarPerm sigma bases to VarPerm sigma results with the SAME sigma: sigma fixes every index >= n, in particular the scale variable n'),
    (M, 'EAO.C09S.scaled_dispVars', 'the capacity variables (Idisp) of the renumbered base are the renumbered capacity variables (up to order)'),
    (M, 'EAO.C09S.scaled_good', 'the scaled wrapper keeps WF, Local, MapLocal'),
    (M, 'EAO.C09S.scaled_over_permuted_structure',
     'the case C09Nested left open: ScaledAsset over a structure and over the structure with the wrapped list permuted are renumberings of each other, hence Sim (same feasible set up to the map, same cost, same flows)'),
    (M, 'EAO.C09S.structured_good', 'the structured wrapper keeps WF, Local, MapLocal'),
    (M, 'EAO.C09S.structured_varperm',
     'closure under structured: wrapped lists equal up to order and up to a renumbering of every entry (PermRel) give structured assets that are renumberings of each other'),
    (M, 'EAO.C09S.permRel_of_perm', 'a plain permutation of a list of good problems is a PermRel'),
    (M, 'EAO.C09S.portfolio_varperm',
     'the portfolio around: asset lists related by PermRel give assembled problems with the same feasible set up to ONE renumbering of the variables and the same value'),
    (M, 'EAO.C09S.nested_perm_scaled',
     'wrappers in wrappers with scaled nodes, any depth (structural induction over object trees STree = leaf | structured node | scaled node; TPerm = equal up to the order of the wrapped lists at every level): the built problems are related by PermRel, goodness carries over'),
    (M, 'EAO.C09S.nested_perm_scaled_tree',
     'one object tree mixing structured and scaled nodes: the wrapper and the wrapper with all lists below permuted are renumberings of each other (VarPerm), hence Sim'),
    (M, 'EAO.C09S.sim_not_enough_for_scaled',
     'machine-checked witness why the relation has to be syntactic: two base problems that correspond semantically (Sim) whose scaled assets do not (capacity written as a bound vs as a row against an auxiliary variable fixed to 1)'),
]


# ------------------------------------------------------------------ cases
def _target_spec(scn, name):
    return [a for a in scn['assets'] if a['name'] == name][0]


def gen_case(rnd, tmax=8):
    base = SC.gen_structured_case(rnd, tmax)
    base['build'] = 'shared'
    inner = _target_spec(base['scn'], base['target'])['inner']
    idx = list(range(len(inner)))
    if len(idx) >= 2:
        while idx == list(range(len(inner))):
            rnd.shuffle(idx)
    sargs = {'min_scale': rnd.choice([0.0, 0.0, 0.5, 1.0]), 'max_scale': rnd.choice([1.0, 2.0, 4.0, 1.5]),
             'norm_scale': rnd.choice([1.0, 2.0, 0.5, 4.0]), 'fix_costs': gen.q8(rnd, 0, 2)}
    return {'base': base, 'perm': idx, 'sargs': sargs}


def _permuted(struct_case, perm):
    v = copy.deepcopy(struct_case)
    sa = _target_spec(v['scn'], v['target'])
    sa['inner'] = [sa['inner'][i] for i in perm]
    return v


def _scaled(struct_case, sargs):
    v = copy.deepcopy(struct_case)
    scn = v['scn']
    k = [i for i, a in enumerate(scn['assets']) if a['name'] == v['target']][0]
    scn['assets'][k] = {'type': 'ScaledAsset', 'name': 'sc', 'base': scn['assets'][k], 'args': dict(sargs)}
    return {'kind': 'scaled', 'scn': scn, 'target': 'sc', 'base_kind': 'structured', 'build': 'shared'}


def parts(case):
    s0 = case['base']
    s1 = _permuted(s0, case['perm'])
    return {'s0': s0, 's1': s1, 'c0': _scaled(s0, case['sargs']), 'c1': _scaled(s1, case['sargs'])}


def run_impl(case):
    return {k: SC.run_impl(c) for k, c in parts(case).items()}


def request(case, ir):
    p = parts(case)
    return {k: SC.request(p[k], ir[k]) for k in ('c0', 'c1')}


# ------------------------------------------------------------------ VarPerm on two problems (JSON form)
def _F(s):
    return Fraction(s)


def _row(r, sigma, strict):
    if strict:   # RowEq of the lemma file: the coefficient list as a multiset of pairs, nothing merged or dropped
        co = tuple(sorted((sigma[int(j)], _F(v)) for j, v in r['coeffs']))
    else:
        acc = {}
        for j, v in r['coeffs']:
            acc[sigma[int(j)]] = acc.get(sigma[int(j)], 0) + _F(v)
        co = tuple(sorted((j, v) for j, v in acc.items() if v != 0))
    return (r['kind'], _F(r['rhs']), co)


def _map(m, sigma):
    return (sigma[int(m['var'])], m['asset'], m['node'], m['kind'], int(m['step']), _F(m['factor']), bool(m['bool']),
            m['var_name'])


def _close(a, b, tol):
    a, b = _F(a), _F(b)
    return a == b if tol == 0 else abs(float(a) - float(b)) <= tol * max(1.0, abs(float(a)), abs(float(b)))


def block_sigma(sizes0, perm, n):
    """the block permutation of `structured_inner_perm_syntactic`, identity from the end of the blocks on (scale variable)"""
    off0 = [sum(sizes0[:i]) for i in range(len(sizes0))]
    sizes1 = [sizes0[i] for i in perm]
    off1 = {i: sum(sizes1[:k]) for k, i in enumerate(perm)}
    sigma = {}
    for i, sz in enumerate(sizes0):
        for j in range(sz):
            sigma[off0[i] + j] = off1[i] + j
    for j in range(sum(sizes0), n):
        sigma[j] = j
    return sigma


def check_varperm(P0, P1, sigma, tol=0, strict=False):
    """`VarPerm sigma P0 P1`"""
    out = []
    n = len(P0['c'])
    if len(P1['c']) != n or sorted(sigma.values()) != list(range(n)) or len(sigma) != n:
        return ['varperm: %d / %d variables, renumbering of %d' % (n, len(P1['c']), len(sigma))]
    ident = {j: j for j in range(n)}
    for f in ('c', 'l', 'u'):
        if len(P0[f]) != n or len(P1[f]) != n:
            out.append('varperm: length of %s' % f)
            continue
        for j in range(n):
            if not _close(P0[f][j], P1[f][sigma[j]], tol):
                out.append('varperm: %s[%d] = %s but %s[%d] = %s' % (f, j, P0[f][j], f, sigma[j], P1[f][sigma[j]]))
                break
    if tol == 0:
        r0 = sorted(_row(r, sigma, strict) for r in P0['rows'])
        r1 = sorted(_row(r, ident, strict) for r in P1['rows'])
        if r0 != r1:
            out.append('varperm: rows differ as multisets after the renumbering (%d vs %d rows)' % (len(r0), len(r1)))
        if sorted(_map(m, sigma) for m in P0['mapping']) != sorted(_map(m, ident) for m in P1['mapping']):
            out.append('varperm: mapping rows differ as multisets after the renumbering')
    elif len(P0['rows']) != len(P1['rows']) or len(P0['mapping']) != len(P1['mapping']):
        out.append('varperm: %d vs %d rows, %d vs %d mapping rows' % (len(P0['rows']), len(P1['rows']), len(P0['mapping']),
                                                                     len(P1['mapping'])))
    if P0.get('name') != P1.get('name') or P0.get('nodes') != P1.get('nodes'):
        out.append('varperm: name / nodes differ')
    return out


def _sizes(case, ir):
    """block sizes of the wrapped assets in the original order (None when a set-up did not get through, or when the structure
    built inside the scaled asset is not the one built alone)"""
    s0, s1, c0, c1 = ir['s0'], ir['s1'], ir['c0'], ir['c1']
    for r in (s0, s1, c0, c1):
        if r.get('wrapped') is None or r.get('asset') is None:
            return None
    if len(s0['inner']) != len(s0['asset'].portfolio.assets) or len(s1['inner']) != len(s1['asset'].portfolio.assets):
        return None
    if not c0['inner'] or not c1['inner']:
        return None
    sizes = [len(op.c) for _, op in s0['inner']]
    if sum(sizes) != len(c0['inner'][0][1].c) or sum(sizes) != len(c1['inner'][0][1].c):
        return None
    return sizes


def compare(case, ir, mr):
    dis = []
    if mr is None or mr.get('c1') is None:
        return dis
    p = parts(case)
    dis += ['variant: ' + d for d in SC.compare(p['c1'], ir['c1'], mr['c1'])]
    sizes = _sizes(case, ir)
    if sizes is None or mr.get('c0') is None or 'problem' not in mr['c0'] or 'problem' not in mr['c1']:
        return dis
    P0, P1 = mr['c0']['problem'], mr['c1']['problem']
    dis += ['model: ' + d for d in check_varperm(P0, P1, block_sigma(sizes, case['perm'], len(P0['c'])), 0, strict=True)]
    return dis


def _value(r):
    with impl.Quiet():
        res = r['op'].optimize()
    return None if isinstance(res, str) or res is None else float(res.value)


def oracle(case, ir, solve=True):
    viol = []

    def v(detail, **facts):
        viol.append({'oracle': 'scaled_over_permuted_structure', 'detail': detail, 'facts': dict(facts, perm=case['perm'])})
    b, w = ir['c0'], ir['c1']
    if (b.get('error') is None) != (w.get('error') is None) or (b.get('error') and b.get('error') != w.get('error')):
        v('set-up: %r (original) vs %r (permuted)' % (b.get('error'), w.get('error')), what='error')
        return viol
    sizes = _sizes(case, ir)
    if sizes is None:
        return viol
    exact = SC.is_exact(parts(case)['c0'])
    P0, P1 = problem_json(b['wrapped']), problem_json(w['wrapped'])
    for d in check_varperm(P0, P1, block_sigma(sizes, case['perm'], len(P0['c'])), 0 if exact else 1e-9):
        v(d, what='problem')
    if solve and 'op' in b and 'op' in w and not viol:
        m = b['op'].mapping
        if 'bool' not in m.columns or not any(bool(x) for x in m['bool'].values if x is not None and x == x):
            try:
                v0, v1 = _value(b), _value(w)
            except Exception:
                v0 = v1 = None
            if (v0 is None) != (v1 is None) or (v0 is not None and abs(v0 - v1) > 1e-6 * max(1.0, abs(v0))):
                v('optimal value %r (original) vs %r (permuted)' % (v0, v1), what='value')
    return viol


def run_case(case, drv, with_oracle=True, solve=True):
    ir = run_impl(case)
    req = request(case, ir)
    mr = {k: (SC._ok(drv, q) if q is not None else None) for k, q in req.items()}
    return {'disagreements': compare(case, ir, mr), 'violations': oracle(case, ir, solve) if with_oracle else [],
            'compared': mr.get('c0') is not None and mr.get('c1') is not None, 'checked': _sizes(case, ir) is not None, 'ir': ir}


def selftest(n, seed, drv, verbose=False):
    counts = {'cases': 0, 'compared': 0, 'checked': 0, 'nontrivial': 0, 'errors': 0, 'impl_errors': 0}
    dis, viol = [], []
    for k in range(n):
        rnd = random.Random('%s/%d' % (seed, k))
        case = gen_case(rnd)
        counts['cases'] += 1
        try:
            r = run_case(case, drv, solve=(k % 4 == 0))
        except Exception:
            counts['errors'] += 1
            dis.append((k, 'harness: ' + traceback.format_exc()[-400:]))
            continue
        counts['compared'] += bool(r['compared'])
        counts['checked'] += bool(r['checked'])
        counts['nontrivial'] += bool(r['checked'] and case['perm'] != sorted(case['perm']))
        counts['impl_errors'] += bool(r['ir']['c0'].get('error'))
        for d in r['disagreements']:
            dis.append((k, d))
        for x in r['violations']:
            viol.append((k, x))
        if verbose and (r['disagreements'] or r['violations']):
            print(k, case['perm'], r['disagreements'][:2], r['violations'][:2])
    return {'counts': counts, 'disagreements': dis, 'violations': viol}


if __name__ == '__main__':
    from ..lean import Driver
    n = int(sys.argv[1]) if len(sys.argv) > 1 else 100
    seed = sys.argv[2] if len(sys.argv) > 2 else 'scaledperm'
    drv = Driver()
    try:
        r = selftest(n, seed, drv, verbose=True)
    finally:
        drv.close()
    print(r['counts'])
    for k, d in r['disagreements'][:20]:
        print('DIS', k, d)
    for k, x in r['violations'][:20]:
        print('VIOL', k, x['detail'], x['facts'])
