"""C12, second sentence, on the REAL code: quantities that ACCUMULATE over time equal rate x ELAPSED time, the elapsed time taken from
the instants (zone-aware time stamps, computed here with pandas only - never from eaopack's dt / Dt arrays):

  inflow    a reservoir (Storage with a natural inflow): what it releases over its window = start level - end level + inflow rate x
            elapsed time of the WINDOW (clipped to the horizon); at every step the level start + inflow x elapsed-so-far - released
            stays inside [0, size]
  holding   a storage cycle buy-in-step-i / sell-in-step-j: holding cost = cost_store x volume x elapsed time from step i to step j
  fixcost   a ScaledAsset with fixed costs: fixed costs = fix_costs x scale x elapsed time of its window; the volume of the scaled
            contract = scale x rate x elapsed time
  running   a plant that is on during a price spike: running costs = running_costs x elapsed time of the on-steps
  limit     a contract / transport at its limit: volume = rate x elapsed time of its window

each of them for assets whose window starts AFTER the grid start / ends before the grid end, for split optimisation (every interval),
for a coarser own frequency of the asset, on grids whose steps (or whose days, for coarse daily steps and daily split intervals) differ
in length - hourly / 30-min grids across a daylight-saving switch, daily grids across a switch, calendar months - and grids with equal
steps, each case expressed for two main time units (every rate = rate per hour x hours of the unit): the totals must hold in both and the
optimal value must be the same.

A case is a plain JSON value (rates per HOUR, instants as wall-clock ISO strings + zone); `scenario(case, unit)` expresses it for a main
time unit in the format of harness/scen.py.
"""
import copy
import random

import numpy as np
import pandas as pd

UNIT_H = {'s': 1.0 / 3600, 'min': 1.0 / 60, 'h': 1.0, 'd': 24.0, 'W': 168.0}
ZONES = ['CET', 'Europe/Berlin', 'US/Eastern', 'Europe/London', 'Australia/Sydney']
FAMILIES = ['inflow', 'inflow', 'inflow', 'holding', 'holding', 'fixcost', 'fixcost', 'running', 'limit']


def q8(rnd, lo, hi):
    return round(rnd.uniform(lo, hi) * 8) / 8.0


def iso(ts):
    return pd.Timestamp(ts).strftime('%Y-%m-%dT%H:%M:%S')


def D(ts):
    return {'$dt': iso(ts)}


# ------------------------------------------------------------------------------------------------------------------ instants
def instants(g):
    """zone-aware points of the grid incl. the end point (pandas only)"""
    tz = g.get('tz')
    return list(pd.date_range(start=pd.Timestamp(g['start'], tz=tz), end=pd.Timestamp(g['end'], tz=tz), freq=g['freq']))


def inst(wall, tz):
    return pd.Timestamp(wall, tz=tz)


def plain_wall(p, tz):
    """the wall-clock time of the instant names it uniquely (no repeated hour of a switch back)"""
    try:
        return inst(iso(p.tz_localize(None)), tz) == p
    except Exception:
        return False


def hours(a, b):
    """elapsed time between two instants in hours"""
    return (b - a).total_seconds() / 3600.0


def switch_days(tz, year):
    """local dates of `year` whose length is not 24 h"""
    days = pd.date_range(start=pd.Timestamp('%d-01-01' % year, tz=tz), end=pd.Timestamp('%d-12-31' % year, tz=tz), freq='D')
    return [a.tz_localize(None) for a, b in zip(days[:-1], days[1:]) if abs(hours(a, b) - 24.0) > 1e-9]


def gen_grid(rnd, need_days=False):
    """(grid, kind).  kinds: 'fine' (h / 30min / 15min from a local midnight, 2..4 days, mostly across a daylight-saving switch),
    'daily' (4..8 days, mostly across a switch), 'monthly' (3..6 calendar months)"""
    kind = 'fine' if need_days else rnd.choice(['fine', 'fine', 'fine', 'daily', 'daily', 'monthly'])
    for _ in range(50):
        tz = rnd.choice(ZONES) if rnd.random() < 0.85 else None
        year = rnd.choice([2020, 2021, 2022, 2023])
        if kind == 'monthly':
            s = pd.Timestamp('%d-%02d-01' % (year, rnd.randint(1, 12)))
            e = s + pd.DateOffset(months=rnd.randint(3, 6))
            g = {'start': iso(s), 'end': iso(e), 'freq': 'MS', 'tz': tz}
        else:
            if tz is not None:
                sw = rnd.choice(switch_days(tz, year))
            else:
                sw = pd.Timestamp('%d-%02d-%02d' % (year, rnd.randint(1, 12), rnd.randint(2, 27)))
            if kind == 'daily':
                n = rnd.randint(4, 8)
                s = sw - pd.Timedelta(days=rnd.randint(0, n - 1))
                g = {'start': iso(s), 'end': iso(s + pd.Timedelta(days=n)), 'freq': 'd', 'tz': tz}
            else:
                freq = rnd.choice(['h', 'h', 'h', '30min', '15min'])
                n = rnd.randint(2, 4) if freq == 'h' else rnd.randint(2, 3) if freq == '30min' else 2
                s = sw - pd.Timedelta(days=rnd.randint(0, n - 1))
                g = {'start': iso(s), 'end': iso(s + pd.Timedelta(days=n)), 'freq': freq, 'tz': tz}
        try:
            pts = instants(g)
        except Exception:
            continue
        if len(pts) < 3 or pts[0] != inst(g['start'], tz) or pts[-1] != inst(g['end'], tz):
            continue
        return g, kind
    raise RuntimeError('no grid')


def day_cuts(pts, tz):
    """indices of the grid points that are local midnights (plus the end point)"""
    return [i for i, p in enumerate(pts) if p.tz_localize(None) == p.tz_localize(None).normalize()]


# ------------------------------------------------------------------------------------------------------------------ generator
def gen_case(rnd, family=None):
    family = family or rnd.choice(FAMILIES)
    how = rnd.choice(['plain', 'late', 'late', 'split', 'split', 'coarse', 'coarse', 'late+split', 'late+coarse', 'inside', 'early_end'])
    if family in ('holding', 'running') and 'coarse' in how:
        # (a coarse own frequency with holding costs: known finding F-13o of C13 - the cost tail of a coarse variable; plants refuse an own
        #  frequency by a documented ValueError: neither is drawn here)
        how = rnd.choice(['late', 'split', 'late+split', 'inside'])
    coarse = 'coarse' in how
    g, kind = gen_grid(rnd, need_days=coarse)
    tz = g['tz']
    pts = instants(g)
    T = len(pts) - 1
    units = {'fine': ['h', 'd', 'min', 'h', 'd'], 'daily': ['h', 'd', 'W'], 'monthly': ['d', 'h', 'W']}[kind]
    ua = rnd.choice(units)
    ub = rnd.choice([u for u in units if u != ua])
    c = {'family': family, 'how': how, 'grid': g, 'kind': kind, 'units': [ua, ub], 'split': None, 'afreq': None, 'win': [None, None]}
    # cuts at which a window may begin / end: local midnights on fine grids (so that a coarse daily step is never cut), any point otherwise
    cuts = day_cuts(pts, tz) if kind == 'fine' else list(range(T + 1))
    cuts = [i for i in cuts if plain_wall(pts[i], tz)]
    inner = [i for i in cuts if 0 < i < T]
    if ('late' in how or how == 'inside') and inner:
        i0 = rnd.choice(inner if how != 'inside' else inner[:-1] or inner)
        c['win'][0] = iso(pts[i0].tz_localize(None))
    if how in ('inside', 'early_end') and inner:
        lo = 0 if c['win'][0] is None else [i for i in range(T + 1) if iso(pts[i].tz_localize(None)) == c['win'][0]][0]
        later = [i for i in inner if i > lo]
        if later:
            c['win'][1] = iso(pts[rnd.choice(later)].tz_localize(None))
    if 'split' in how:
        c['split'] = {'fine': rnd.choice(['d', 'd', '12h']), 'daily': rnd.choice(['2d', '3d', '2d', '4d']), 'monthly': rnd.choice(['MS', '2MS'])}[kind]
    if coarse:
        c['afreq'] = 'd'
    ws = pts[0] if c['win'][0] is None else inst(c['win'][0], tz)
    we = pts[-1] if c['win'][1] is None else inst(c['win'][1], tz)
    steps = [t for t in range(T) if ws <= pts[t] < we]          # steps of the window
    min_h = min(hours(pts[t], pts[t + 1]) for t in range(T))
    c['seed'] = rnd.getrandbits(32)
    if family == 'inflow':
        q = q8(rnd, 0.25, 3.0)
        l0 = rnd.choice([0.0, 0.0, q8(rnd, 1, 20)])
        tot = q * hours(ws, we)
        l1 = l0 if c['split'] else rnd.choice([l0, 0.0, q8(rnd, 0, 1) * (l0 + tot)])
        shape = rnd.choice(['falling', 'rising', 'random', 'falling'])
        base = [q8(rnd, 5, 40) for _ in range(T)]
        p = sorted(base, reverse=True) if shape == 'falling' else sorted(base) if shape == 'rising' else base
        c.update({'q': q, 'l0': l0, 'l1': l1, 'size': 4.0 * (l0 + tot) + 8.0, 'cap_out': 6.0 * q + (l0 + 1.0) / min_h,
                  'cap_in': rnd.choice([0.0, 0.0, q8(rnd, 0.5, 2.0)]), 'p': p, 'shape': shape})
    elif family == 'holding':
        # one or two cycles buy in step i / sell in step j, all inside the window and - in split optimisation - inside one interval
        groups = [steps]
        if c['split']:
            ic = iter_cuts(g, c['split'], pts)
            groups = [[t for t in steps if a <= pts[t] < b] for a, b in zip(ic[:-1], ic[1:])]
            groups = [x for x in groups if len(x) >= 2]
            if not groups:
                raise IndexError('no interval with two steps')
            # (later intervals first: the first interval is the one place where a split optimisation cannot go wrong)
            groups = sorted(rnd.sample(groups[1:] or groups, min(2, len(groups[1:] or groups))), key=lambda x: x[0])
        cyc = []
        # (a step is addressed by the wall-clock times of its two ends: only steps whose ends are unambiguous local times - not the
        #  repeated hour of a switch back)
        okp = [plain_wall(p, tz) for p in pts]
        groups = [[t for t in grp if okp[t] and okp[t + 1]] for grp in groups]
        for grp in groups[:2]:
            if len(grp) < 2:
                continue
            i = rnd.choice(grp[:-1])
            j = rnd.choice([t for t in grp if t > i])
            pb = q8(rnd, 2, 10)
            cyc.append({'i': i, 'j': j, 'pb': pb})
            if not c['split'] and len(groups) == 1 and j + 2 < grp[-1] and rnd.random() < 0.5:
                i2 = rnd.choice([t for t in grp if j < t < grp[-1]])
                cyc.append({'i': i2, 'j': rnd.choice([t for t in grp if t > i2]), 'pb': q8(rnd, 2, 10)})
        h = q8(rnd, 0.125, 1.0) / max(1.0, min_h)       # per volume and hour
        eff = rnd.choice([1.0, 1.0, 0.5, 0.75])
        for k in cyc:
            k['ps'] = k['pb'] / eff + h * hours(pts[k['i']], pts[k['j']]) + q8(rnd, 1, 6)
        c.update({'h': h, 'V': q8(rnd, 1, 8), 'eff_in': eff, 'cycles': cyc, 'min_h': min_h})
    elif family == 'fixcost':
        c.update({'r': q8(rnd, 0.5, 4.0), 'f': q8(rnd, 0.5, 6.0), 'smin': 0.0, 'smax': q8(rnd, 0.5, 3.0), 'norm': rnd.choice([1.0, 1.0, 2.0]),
                  'pinned': bool(c['split']) or rnd.random() < 0.6, 'base': rnd.choice(['SimpleContract', 'Contract', 'Transport']),
                  'p': [rnd.choice([q8(rnd, 1, 12)] * 2 + [0.0])] * T if rnd.random() < 0.5 else [q8(rnd, 0, 12) for _ in range(T)]})
        if c['pinned']:
            c['smin'] = c['smax']
    elif family == 'running':
        # the plant is profitable exactly in a block of steps (the spike); the block may be the whole window
        a = rnd.choice(steps)
        b = rnd.choice([t for t in steps if t >= a])
        if rnd.random() < 0.35:
            a, b = steps[0], steps[-1]
        if coarse:
            # whole days only (a coarse step is on or off as a whole)
            dc = [i for i in day_cuts(pts, tz) if steps[0] <= i <= steps[-1] + 1]
            a = rnd.choice(dc[:-1])
            b = rnd.choice([i for i in dc if i > a]) - 1
        cost = q8(rnd, 10, 20)
        lo, hi = rnd.choice([(1.0, 4.0), (2.0, 2.0), (0.5, 3.0)])
        rc = q8(rnd, 1, 12)
        p = [(cost + rc / hi + q8(rnd, 4, 30)) if a <= t <= b else q8(rnd, 0, cost - 2) for t in range(T)]
        if coarse:
            # (prices constant inside a day: the coarse variable sees the plain mean of the prices of its fine steps)
            cutsd = day_cuts(pts, tz)
            for x, y in zip(cutsd[:-1], cutsd[1:]):
                for t in range(x, y):
                    p[t] = p[x]
        c.update({'lo': lo, 'hi': hi, 'cost': cost, 'rc': rc, 'on': [a, b], 'p': p})
    else:
        c.update({'r': q8(rnd, 0.5, 4.0), 'asset': rnd.choice(['SimpleContract', 'Contract', 'Transport', 'ExtendedTransport']), 'price': q8(rnd, 1, 12)})
    return c


def iter_cuts(g, size, pts):
    """the interval boundaries of a split optimisation, as its documentation says: steps of `size` from the grid start, the grid end last"""
    tz = g.get('tz')
    cuts = list(pd.date_range(start=pts[0], end=pts[-1], freq=size))
    if not cuts or cuts[0] != pts[0]:
        cuts = [pts[0]] + cuts
    if cuts[-1] != pts[-1]:
        cuts.append(pts[-1])
    return cuts


# ------------------------------------------------------------------------------------------------------------------ scenario
def scenario(c, unit):
    k = UNIT_H[unit]                    # hours per main time unit: rate per unit = rate per hour x k
    g = dict(c['grid'], unit=unit)
    pts = instants(c['grid'])
    T = len(pts) - 1
    w = {}
    if c['win'][0]:
        w['start'] = D(c['win'][0])
    if c['win'][1]:
        w['end'] = D(c['win'][1])
    fq = {'freq': c['afreq']} if c['afreq'] else {}
    fam = c['family']
    # capacity of the counterparties: ample (a multiple of what can flow at all), not huge (numerics of the LP solver)
    big = {'inflow': 8.0 * c.get('cap_out', 0) + 8.0 * c.get('cap_in', 0), 'holding': 8.0 * c.get('V', 0) / c.get('eff_in', 1.0) / c.get('min_h', 1.0),
           'fixcost': 8.0 * c.get('r', 0) * max(1.0, c.get('smax', 1.0)), 'running': 8.0 * c.get('hi', 0), 'limit': 8.0 * c.get('r', 0)}[fam]
    if fam == 'inflow':
        st = dict({'size': c['size'], 'cap_in': c['cap_in'] * k, 'cap_out': c['cap_out'] * k, 'start_level': c['l0'], 'end_level': c['l1'],
                   'inflow': c['q'] * k}, **w, **fq)
        mk = {'price': 'p', 'min_cap': -big * k, 'max_cap': (big * k if c['cap_in'] else 0.0)}
        return {'grid': g, 'nodes': ['n'], 'prices': {'p': list(c['p'])},
                'assets': [{'type': 'Storage', 'name': 'res', 'nodes': ['n'], 'args': st}, {'type': 'SimpleContract', 'name': 'mkt', 'nodes': ['n'], 'args': mk}]}
    if fam == 'holding':
        cap = 2.0 * c['V'] / c['eff_in'] / c['min_h']
        st = dict({'size': c['V'], 'cap_in': cap * k, 'cap_out': cap * k, 'start_level': 0.0, 'end_level': 0.0, 'cost_store': c['h'] * k}, **w)
        if c['eff_in'] != 1.0:
            st['eff_in'] = c['eff_in']
        assets = [{'type': 'Storage', 'name': 'st', 'nodes': ['n'], 'args': st}]
        prices = {}
        for n, cy in enumerate(c['cycles']):
            prices['pb%d' % n] = [cy['pb']] * T
            prices['ps%d' % n] = [cy['ps']] * T
            assets.append({'type': 'SimpleContract', 'name': 'buy%d' % n, 'nodes': ['n'],
                           'args': {'price': 'pb%d' % n, 'min_cap': 0.0, 'max_cap': big * k, 'start': D(pts[cy['i']].tz_localize(None)), 'end': D(pts[cy['i'] + 1].tz_localize(None))}})
            assets.append({'type': 'SimpleContract', 'name': 'sell%d' % n, 'nodes': ['n'],
                           'args': {'price': 'ps%d' % n, 'min_cap': -big * k, 'max_cap': 0.0, 'start': D(pts[cy['j']].tz_localize(None)), 'end': D(pts[cy['j'] + 1].tz_localize(None))}})
        return {'grid': g, 'nodes': ['n'], 'prices': prices, 'assets': assets}
    if fam == 'fixcost':
        if c['base'] in ('SimpleContract', 'Contract'):
            base = {'type': c['base'], 'name': 'b', 'nodes': ['n'], 'args': dict({'price': 'p', 'min_cap': -c['r'] * k, 'max_cap': 0.0}, **fq)}
            other = {'type': 'SimpleContract', 'name': 'src', 'nodes': ['n'], 'args': {'min_cap': 0.0, 'max_cap': big * k}}
            nodes = ['n']
        else:
            # a pipe from a free source to a market that pays p
            base = {'type': 'Transport', 'name': 'b', 'nodes': ['n', 'm'], 'args': dict({'min_cap': 0.0, 'max_cap': c['r'] * k}, **fq)}
            other = {'type': 'SimpleContract', 'name': 'src', 'nodes': ['n'], 'args': {'min_cap': 0.0, 'max_cap': big * k}}
            nodes = ['n', 'm']
        sa = {'type': 'ScaledAsset', 'name': 'sc', 'base': base,
              'args': dict({'min_scale': c['smin'], 'max_scale': c['smax'], 'norm_scale': c['norm'], 'fix_costs': c['f'] * k}, **w)}
        assets = [sa, other]
        if len(nodes) == 2:
            assets.append({'type': 'SimpleContract', 'name': 'mkt', 'nodes': ['m'], 'args': {'price': 'p', 'min_cap': -big * k, 'max_cap': 0.0}})
        return {'grid': g, 'nodes': nodes, 'prices': {'p': list(c['p'])}, 'assets': assets}
    if fam == 'running':
        pl = dict({'min_cap': c['lo'] * k, 'max_cap': c['hi'] * k, 'extra_costs': c['cost'], 'running_costs': c['rc'] * k}, **w, **fq)
        mk = {'price': 'p', 'min_cap': -big * k, 'max_cap': 0.0}
        return {'grid': g, 'nodes': ['n'], 'prices': {'p': list(c['p'])},
                'assets': [{'type': 'Plant', 'name': 'pl', 'nodes': ['n'], 'args': pl}, {'type': 'SimpleContract', 'name': 'mkt', 'nodes': ['n'], 'args': mk}]}
    if fam == 'limit':
        if c['asset'] in ('SimpleContract', 'Contract'):
            a = {'type': c['asset'], 'name': 'x', 'nodes': ['n'], 'args': dict({'price': 'p', 'min_cap': -c['r'] * k, 'max_cap': 0.0}, **w, **fq)}
            return {'grid': g, 'nodes': ['n'], 'prices': {'p': [c['price']] * T},
                    'assets': [a, {'type': 'SimpleContract', 'name': 'src', 'nodes': ['n'], 'args': {'min_cap': 0.0, 'max_cap': big * k}}]}
        a = {'type': c['asset'], 'name': 'x', 'nodes': ['n', 'm'], 'args': dict({'min_cap': 0.0, 'max_cap': c['r'] * k}, **w, **fq)}
        return {'grid': g, 'nodes': ['n', 'm'], 'prices': {'p': [c['price']] * T},
                'assets': [a, {'type': 'SimpleContract', 'name': 'src', 'nodes': ['n'], 'args': {'min_cap': 0.0, 'max_cap': big * k}},
                           {'type': 'SimpleContract', 'name': 'mkt', 'nodes': ['m'], 'args': {'price': 'p', 'min_cap': -big * k, 'max_cap': 0.0}}]}
    raise ValueError(fam)


# ------------------------------------------------------------------------------------------------------------------ real code
def solve(s, split=None, mip=False):
    """real code: set-up (split or not), optimisation, read-out"""
    import eaopack as eao
    from .. import impl, scen
    try:
        with impl.Quiet():
            portf, tg, prices, nodes = scen.build(s)
            if split:
                op = portf.setup_split_optim_problem(prices, tg, interval_size=split)
            else:
                op = portf.setup_optim_problem(prices, tg)
            # (one exact solver for LPs and MIPs: the default interior-point solver now and then reports 'inaccurate')
            res = op.optimize(solver='SCIP')
        if isinstance(res, str):
            return {'status': res}
        with impl.Quiet():
            out = eao.io.extract_output(portf, op, res, prices)
    except Exception as e:
        return {'status': 'error:' + impl.err_class(e), 'msg': '%s: %s' % (type(e).__name__, str(e)[:200])}
    return {'status': 'ok', 'value': float(res.value), 'dispatch': out['dispatch'], 'internal': out.get('internal_variables')}


def col(disp, name, node=None):
    for cand in ([name] if node is None else []) + ['%s (%s)' % (name, node or 'n')]:
        if cand in disp.columns:
            return np.asarray(disp[cand].values, dtype=float)
    raise KeyError(name)


def describe(s, split):
    out = []
    for a in s['assets']:
        for b in [a] + ([a['base']] if 'base' in a else []):
            out.append('%s %s(%s)' % (b['type'], b['name'], ', '.join('%s=%r' % (k, (v['$dt'] if isinstance(v, dict) and '$dt' in v else v)) for k, v in b['args'].items())))
    g = s['grid']
    return 'Timegrid(%s, %s, freq=%r, main_time_unit=%r, timezone=%r)%s; %s; prices %s' % (
        g['start'], g['end'], g['freq'], g['unit'], g.get('tz'), '; split optimisation, interval size %r' % split if split else '', '; '.join(out),
        {k: (v if len(set(v)) > 1 else 'constant %g' % v[0]) for k, v in s['prices'].items()})


# ------------------------------------------------------------------------------------------------------------------ expectations
def expectations(c):
    """what the property states for the case, from the instants only: a dict of named totals (unit-free) and, where the whole optimum is
    determined, the optimal value"""
    g = c['grid']
    tz = g['tz']
    pts = instants(g)
    T = len(pts) - 1
    ws = pts[0] if c['win'][0] is None else max(pts[0], inst(c['win'][0], tz))
    we = pts[-1] if c['win'][1] is None else min(pts[-1], inst(c['win'][1], tz))
    E = max(0.0, hours(ws, we))
    steps = [t for t in range(T) if ws <= pts[t] < we]
    dth = [hours(pts[t], pts[t + 1]) for t in range(T)]
    cuts = iter_cuts(g, c['split'], pts) if c['split'] else [pts[0], pts[-1]]
    ivals = [[t for t in steps if a <= pts[t] < b] for a, b in zip(cuts[:-1], cuts[1:])]
    ivals = [x for x in ivals if x]
    fam = c['family']
    ex = {'elapsed_h': E, 'steps': steps, 'dth': dth}
    if fam == 'inflow':
        ex['released'] = (c['l0'] - c['l1']) * (len(ivals) if c['split'] else 1) + c['q'] * E
    elif fam == 'holding':
        # events in time order: (step, +1 buy / -1 sell, price).  The level after each event lies in [0, V], rises only at a buy and falls only
        # at a sell, is 0 at the end of each optimisation interval; holding a level l from one event to the next costs cost_store x l x elapsed
        # time between the two steps.  The constraints are difference constraints: the optimum is attained with levels in {0, V} (enumerated)
        ev = sorted([(cy['i'], 1, cy['pb']) for cy in c['cycles']] + [(cy['j'], -1, cy['ps']) for cy in c['cycles']])
        val, hold = 0.0, 0.0
        for a, b in zip(cuts[:-1], cuts[1:]):
            evs = [e for e in ev if a <= pts[e[0]] < b]
            best = (0.0, 0.0)
            for m in range(2 ** len(evs)):
                lv = [c['V'] * ((m >> k) & 1) for k in range(len(evs))]
                prev, v, hc, ok = 0.0, 0.0, 0.0, True
                for k, (t, sgn, price) in enumerate(evs):
                    d = lv[k] - prev
                    if d * sgn < 0:
                        ok = False
                        break
                    v -= (d / c['eff_in'] * price) if sgn > 0 else (d * price)
                    if k + 1 < len(evs):
                        hc += c['h'] * lv[k] * hours(pts[t], pts[evs[k + 1][0]])
                    prev = lv[k]
                if ok and prev == 0.0 and v - hc > best[0]:
                    best = (v - hc, hc)
            val += best[0]
            hold += best[1]
        ex['value'] = val
        ex['holding_cost'] = hold
    elif fam == 'fixcost':
        val, vol, fix = 0.0, 0.0, 0.0
        for iv in ivals:
            Ei = sum(dth[t] for t in iv)
            # scale s in [smin, smax]: capacity r * s / norm, fixed costs f * s * elapsed
            per_s = sum(c['r'] / c['norm'] * max(0.0, c['p'][t]) * dth[t] for t in iv) - c['f'] * Ei
            s = c['smax'] if per_s > 0 else c['smin']
            val += s * per_s
            fix += c['f'] * s * Ei
            vol += sum(c['r'] / c['norm'] * s * dth[t] for t in iv if c['p'][t] > 0)
            if abs(per_s) < 1e-6 * max(1.0, c['f'] * Ei) and c['smin'] != c['smax']:
                ex['ambiguous'] = True
        ex.update({'value': val, 'volume': vol, 'fixed_costs': fix, 'zero_price': any(c['p'][t] == 0 for t in steps)})
    elif fam == 'running':
        a, b = c['on']
        on = [t for t in steps if a <= t <= b]
        Eon = sum(dth[t] for t in on)
        ex['on_h'] = Eon
        ex['running_costs'] = c['rc'] * Eon
        ex['value'] = sum((c['p'][t] - c['cost']) * c['hi'] * dth[t] for t in on) - c['rc'] * Eon
        ex['volume'] = c['hi'] * Eon
    elif fam == 'limit':
        ex['volume'] = c['r'] * E
        ex['value'] = c['price'] * c['r'] * E
    return ex


# ------------------------------------------------------------------------------------------------------------------ oracle
def run_case(c):
    if c['family'].startswith('probe_'):
        return run_probe(c)
    ua, ub = c['units']
    fam = c['family']
    r = {'evaluated': 2, 'nontrivial': False, 'disagreements': [], 'violations': [],
         'features': ['stream:elapsed-time-totals', 'el:' + fam, 'el:how:' + c['how'], 'el:grid:' + c['kind'], 'el:units:%s<->%s' % tuple(sorted(c['units'])),
                      'el:zone:%s' % (c['grid']['tz'] or 'none')]}
    ex = expectations(c)
    pts = instants(c['grid'])
    uneq = len({round(x, 9) for x in ex['dth']}) > 1
    days = [hours(a, b) for a, b in zip(*[[p for p in pts if p.tz_localize(None) == p.tz_localize(None).normalize()][k:] for k in (0, 1)])]
    r['features'].append('el:steps:' + ('unequal' if uneq else 'equal-days-unequal' if len({round(x, 9) for x in days}) > 1 else 'equal'))
    sols, scs = {}, {}
    for u in (ua, ub):
        scs[u] = scenario(c, u)
        sols[u] = solve(scs[u], split=c['split'], mip=(fam == 'running'))
    inputs = {u: describe(scs[u], c['split']) for u in (ua, ub)}
    facts = {'what': 'elapsed_time_totals', 'family': fam, 'how': c['how'], 'grid_kind': c['kind'], 'units': [ua, ub], 'split': c['split'], 'asset_freq': c['afreq'],
             'window': c['win'], 'unequal_steps': uneq}

    def viol(oracle, detail, unit=None, **kw):
        r['violations'].append({'oracle': oracle, 'detail': detail + ' || input' + ((' (%s): ' % unit + inputs[unit]) if unit else 's: ' + ' || '.join('%s: %s' % (u, inputs[u]) for u in (ua, ub))),
                                'facts': dict(facts, **kw)})
    r['observed'] = {u: sols[u].get('value', sols[u]['status']) for u in (ua, ub)}
    if any(sols[u]['status'] != 'ok' for u in (ua, ub)):
        r['features'].append('el:status:' + '/'.join(sorted({sols[u]['status'].split(':')[0] for u in (ua, ub)})))
        if sols[ua]['status'] != sols[ub]['status']:
            viol('unit_change', 'the same situation (%s, %s) gives %s with main time unit %s and %s with %s' % (
                fam, c['how'], (sols[ua]['status'] + ' ' + sols[ua].get('msg', '')).strip(), ua, (sols[ub]['status'] + ' ' + sols[ub].get('msg', '')).strip(), ub), kind='status')
        else:
            # the situations of this stream are feasible by construction: a failure in both units is reported as well
            viol('totals_follow_elapsed_time', 'the situation (%s, %s) is feasible by construction, the real code reports %s %s in both units' % (
                fam, c['how'], sols[ua]['status'], sols[ua].get('msg', '')), unit=ua, kind='status_both')
        return r
    va, vb = sols[ua]['value'], sols[ub]['value']
    if abs(va - vb) > 1e-6 * max(1.0, abs(va)):
        viol('unit_change', 'the same situation (%s, %s) has optimal value %.9g with main time unit %s and %.9g with %s' % (fam, c['how'], va, ua, vb, ub), kind='value')
    E = ex['elapsed_h']
    where = 'window %s .. %s of the horizon %s .. %s (%s), elapsed %.6g h' % (c['win'][0] or 'grid start', c['win'][1] or 'grid end', c['grid']['start'], c['grid']['end'],
                                                                             c['grid']['tz'] or 'no zone', E)
    for u in (ua, ub):
        sol = sols[u]
        disp = sol['dispatch']
        tol = lambda x: 1e-6 * max(1.0, abs(x))
        if fam == 'inflow':
            d = col(disp, 'res')
            got = float(d.sum())
            r['nontrivial'] = r['nontrivial'] or abs(got) > 1e-9
            if abs(got - ex['released']) > tol(ex['released']):
                viol('totals_follow_elapsed_time', 'reservoir with inflow %g per h (= %g per %s), start level %g, end level %g: released in total %.9g, inflow rate x elapsed time of the '
                     'window + start - end level = %.9g (%s)' % (c['q'], c['q'] * UNIT_H[u], u, c['l0'], c['l1'], got, ex['released'], where), unit=u, kind='inflow_total')
                continue
            # level at the end of every step = start level + inflow x elapsed so far - released so far, inside [0, size]
            # (in split optimisation start = end level, so the level is continuous over the cuts)
            lev, el = c['l0'], 0.0
            for t in ex['steps']:
                el += ex['dth'][t]
                lev = c['l0'] + c['q'] * el - float(d[ex['steps'][0]:t + 1].sum())
                if lev < -tol(c['size']) or lev > c['size'] + tol(c['size']):
                    viol('totals_follow_elapsed_time', 'reservoir with inflow %g per h, start level %g, size %g: after step %d (%.6g h after the start of its window) it has released '
                         '%.9g in total, so its level start + inflow rate x elapsed time - released is %.9g (%s)' % (
                             c['q'], c['l0'], c['size'], t, el, float(d[ex['steps'][0]:t + 1].sum()), lev, where), unit=u, kind='inflow_level')
                    break
        elif fam == 'holding':
            r['nontrivial'] = r['nontrivial'] or abs(sol['value']) > 1e-9
            if abs(sol['value'] - ex['value']) > tol(ex['value']):
                viol('totals_follow_elapsed_time', 'storage (size %g, cost_store %g per volume and h = %g per %s, eff_in %g) with the cycles %s (steps buy -> sell): optimal value %.9g; '
                     'margin - cost_store x volume x elapsed time between the two steps = %.9g (holding costs %.9g; %s)' % (
                         c['V'], c['h'], c['h'] * UNIT_H[u], u, c['eff_in'], [(cy['i'], cy['j']) for cy in c['cycles']], sol['value'], ex['value'], ex['holding_cost'], where),
                     unit=u, kind='holding_cost')
        elif fam == 'fixcost':
            if ex.get('ambiguous'):
                r['features'].append('el:ambiguous')
                continue
            r['nontrivial'] = r['nontrivial'] or abs(sol['value']) > 1e-9
            if abs(sol['value'] - ex['value']) > tol(ex['value']) + tol(ex['fixed_costs']):
                viol('totals_follow_elapsed_time', 'scaled %s (rate %g per h at scale = norm %g, scale in [%g, %g], fix_costs %g per h = %g per %s): optimal value %.9g; sales - '
                     'fix_costs x scale x elapsed time = %.9g (fixed costs %.9g; %s)' % (c['base'], c['r'], c['norm'], c['smin'], c['smax'], c['f'], c['f'] * UNIT_H[u], u,
                                                                                       sol['value'], ex['value'], ex['fixed_costs'], where), unit=u, kind='fixed_costs')
            elif not ex['zero_price']:
                d = col(disp, 'sc', 'n') if c['base'] == 'Transport' else col(disp, 'sc')
                if abs(abs(float(d.sum())) - ex['volume']) > tol(ex['volume']):
                    viol('totals_follow_elapsed_time', 'scaled %s (rate %g per h at scale = norm %g): volume %.9g in total; rate x scale x elapsed time = %.9g (%s)' % (
                        c['base'], c['r'], c['norm'], abs(float(d.sum())), ex['volume'], where), unit=u, kind='scaled_volume')
        elif fam == 'running':
            r['nontrivial'] = r['nontrivial'] or abs(sol['value']) > 1e-9
            if abs(sol['value'] - ex['value']) > tol(ex['value']) + tol(ex['running_costs']):
                viol('totals_follow_elapsed_time', 'plant (load %g..%g per h, extra_costs %g, running_costs %g per h = %g per %s) that pays exactly in the steps %d..%d: optimal value '
                     '%.9g; margin - running_costs x elapsed time of the on-steps (%.6g h) = %.9g (running costs %.9g; %s)' % (
                         c['lo'], c['hi'], c['cost'], c['rc'], c['rc'] * UNIT_H[u], u, c['on'][0], c['on'][1], sol['value'], ex['on_h'], ex['value'], ex['running_costs'], where),
                     unit=u, kind='running_costs')
            else:
                d = col(disp, 'pl')
                if abs(float(d.sum()) - ex['volume']) > tol(ex['volume']):
                    viol('totals_follow_elapsed_time', 'plant at full load %g per h in its on-steps: volume %.9g, rate x elapsed time %.9g (%s)' % (c['hi'], float(d.sum()), ex['volume'], where),
                         unit=u, kind='plant_volume')
        elif fam == 'limit':
            d = col(disp, 'x', 'n') if c['asset'] in ('Transport', 'ExtendedTransport') else col(disp, 'x')
            got = abs(float(d.sum()))
            r['nontrivial'] = r['nontrivial'] or got > 1e-9
            if abs(got - ex['volume']) > tol(ex['volume']):
                viol('totals_follow_elapsed_time', '%s at its limit of %g per h (= %g per %s) in every step: volume %.9g in total; rate x elapsed time = %.9g (%s)' % (
                    c['asset'], c['r'], c['r'] * UNIT_H[u], u, got, ex['volume'], where), unit=u, kind='limit_volume')
    return r


def cases(seed, n):
    rnd = random.Random(seed * 1000003 + 120012)
    for i in range(n):
        r2 = random.Random(rnd.getrandbits(48))
        fam = FAMILIES[i % len(FAMILIES)]
        try:
            yield 'elapsed%d' % i, gen_case(r2, fam)
        except (IndexError, RuntimeError):
            continue


# ------------------------------------------------------------------------------------------------------------------ probes
# Two confirmed deviations of the unchanged code from the property's second sentence (per-step limits follow the step's OWN length) are
# probed by a small family on daily grids across a daylight-saving switch (a few zones, spring and autumn, the short / long day at
# varying positions), each in two main time units:
#   probe_profile   a plant whose start (or shutdown) ramp PROFILE pins the rate in the step of the start (before the shutdown): the
#                   volume of that step = profile value x the step's own length               (finding F-12f: nominal step length used)
#   probe_ramp      a plant with a ramp (largest change of the RATE from step to step) that ramps up against a market paying well:
#                   volume of step t = min(max_cap, ramp x (t + 1)) x the step's own length   (finding F-12g: ramp converted to a volume
#                   once, with the length of the first step)
# A violation whose observed volumes are exactly those of the described mechanism carries kind 'profile_nominal_step' /
# 'ramp_first_step_length'; any other departure from the statement carries kind 'profile_volume' / 'ramp_volume'.
def gen_probe(rnd, family):
    for _ in range(50):
        tz = rnd.choice(ZONES)
        sw = rnd.choice(switch_days(tz, rnd.choice([2020, 2021, 2022, 2023])))
        n = rnd.randint(3, 6)
        s = sw - pd.Timedelta(days=rnd.randint(0, n - 1))
        g = {'start': iso(s), 'end': iso(s + pd.Timedelta(days=n)), 'freq': 'd', 'tz': tz}
        pts = instants(g)
        if len(pts) == n + 1 and pts[0] == inst(g['start'], tz) and pts[-1] == inst(g['end'], tz):
            break
    ua = rnd.choice(['h', 'd'])
    c = {'family': family, 'how': 'probe', 'kind': 'daily', 'grid': g, 'units': [ua, 'd' if ua == 'h' else 'h'], 'split': None, 'afreq': None, 'win': [None, None],
         'hi': rnd.choice([8.0, 10.0, 12.0]), 'cost': q8(rnd, 1, 4)}
    if family == 'probe_profile':
        which = rnd.choice(['start', 'start', 'shutdown'])
        # the step that the profile pins: mostly the day of the switch
        isw = [t for t in range(n) if abs(hours(pts[t], pts[t + 1]) - 24.0) > 1e-9][0]
        t0 = isw if rnd.random() < 0.7 else rnd.randrange(n)
        if which == 'start':
            t0 = max(1, t0) if n > 1 else t0           # off before
            p = [-1000.0] * t0 + [q8(rnd, 50, 150) for _ in range(n - t0)]
        else:
            t0 = min(n - 2, t0)                        # off afterwards
            p = [q8(rnd, 50, 150) for _ in range(t0 + 1)] + [-1000.0] * (n - t0 - 1)
        c.update({'which': which, 't0': t0, 'lo': 1.0, 'v': q8(rnd, 2, 6), 'p': p})
    else:
        c.update({'lo': 0.0, 'ramp': rnd.choice([1.0, 1.5, 2.0, 3.0]), 'p': [q8(rnd, 50, 150) for _ in range(n)]})
    return c


def probe_scenario(c, unit):
    k = UNIT_H[unit]
    g = dict(c['grid'], unit=unit)
    pl = {'min_cap': c['lo'] * k, 'max_cap': c['hi'] * k, 'extra_costs': c['cost']}
    if c['family'] == 'probe_profile':
        key = 'start_ramp' if c['which'] == 'start' else 'shutdown_ramp'
        pl.update({key + '_lower_bounds': [c['v'] * k], key + '_upper_bounds': [c['v'] * k], 'ramp_freq': c['grid']['freq']})
    else:
        pl['ramp'] = c['ramp'] * k
    mk = {'price': 'p', 'min_cap': -8.0 * c['hi'] * k, 'max_cap': 0.0}
    return {'grid': g, 'nodes': ['n'], 'prices': {'p': list(c['p'])},
            'assets': [{'type': 'Plant', 'name': 'pl', 'nodes': ['n'], 'args': pl}, {'type': 'SimpleContract', 'name': 'mkt', 'nodes': ['n'], 'args': mk}]}


def run_probe(c):
    ua, ub = c['units']
    fam = c['family']
    pts = instants(c['grid'])
    T = len(pts) - 1
    dth = [hours(pts[t], pts[t + 1]) for t in range(T)]
    r = {'evaluated': 2, 'nontrivial': False, 'disagreements': [], 'violations': [],
         'features': ['stream:elapsed-time-probes', 'el:' + fam, 'el:zone:%s' % c['grid']['tz'], 'el:units:%s<->%s' % tuple(sorted(c['units'])),
                      'el:odd-day-at:%d' % [t for t in range(T) if abs(dth[t] - 24.0) > 1e-9][0]]}
    if fam == 'probe_profile':
        t0 = c['t0']
        on = range(t0, T) if c['which'] == 'start' else range(0, t0 + 1)
        want = [(c['v'] if t == t0 else c['hi']) * dth[t] if t in on else 0.0 for t in range(T)]
        mech = [(c['v'] * 24.0 if t == t0 else c['hi'] * dth[t]) if t in on else 0.0 for t in range(T)]      # profile value x NOMINAL step
        text = 'plant (load %g..%g per h, %s profile [%g per h], ramp_freq = grid frequency) that %s step %d (a day of %g h)' % (
            c['lo'], c['hi'], c['which'], c['v'], 'starts in' if c['which'] == 'start' else 'is on for the last time in', t0, dth[t0])
        kinds = ('profile_nominal_step', 'profile_volume')
    else:
        want = [min(c['hi'], c['ramp'] * (t + 1)) * dth[t] for t in range(T)]
        mech, prev = [], 0.0
        for t in range(T):
            prev = min(c['hi'] * dth[t], prev + c['ramp'] * dth[0])                                         # ramp as a VOLUME, from the first step's length
            mech.append(prev)
        text = 'plant (load 0..%g per h, ramp %g per h from step to step, off before) ramping up against a market that pays well; days of %s h' % (
            c['hi'], c['ramp'], [round(x, 6) for x in dth])
        kinds = ('ramp_first_step_length', 'ramp_volume')
    r['features'].append('el:probe-mechanism-differs' if max(abs(a - b) for a, b in zip(want, mech)) > 1e-9 else 'el:probe-mechanism-agrees')
    sols, scs = {}, {}
    for u in (ua, ub):
        scs[u] = probe_scenario(c, u)
        sols[u] = solve(scs[u], mip=True)
    facts = {'what': 'elapsed_time_probe', 'family': fam, 'units': [ua, ub], 'zone': c['grid']['tz'], 'step_hours': dth}
    r['observed'] = {u: sols[u].get('value', sols[u]['status']) for u in (ua, ub)}
    if any(sols[u]['status'] != 'ok' for u in (ua, ub)):
        r['features'].append('el:status:' + '/'.join(sorted({sols[u]['status'].split(':')[0] for u in (ua, ub)})))
        r['violations'].append({'oracle': 'limits_follow_step_length', 'detail': '%s: the real code reports %s with main time unit %s, %s with %s || %s' % (
            text, (sols[ua]['status'] + ' ' + sols[ua].get('msg', '')).strip(), ua, (sols[ub]['status'] + ' ' + sols[ub].get('msg', '')).strip(), ub, describe(scs[ua], None)),
            'facts': dict(facts, kind='status')})
        return r
    if abs(sols[ua]['value'] - sols[ub]['value']) > 1e-6 * max(1.0, abs(sols[ua]['value'])):
        r['violations'].append({'oracle': 'unit_change', 'detail': '%s: optimal value %.9g with main time unit %s, %.9g with %s || %s' % (
            text, sols[ua]['value'], ua, sols[ub]['value'], ub, describe(scs[ua], None)), 'facts': dict(facts, kind='value')})
    for u in (ua, ub):
        got = [float(x) for x in col(sols[u]['dispatch'], 'pl')]
        r['nontrivial'] = r['nontrivial'] or max(abs(x) for x in got) > 1e-9
        tol = 1e-6 * max(1.0, max(abs(x) for x in want))
        bad = [t for t in range(T) if abs(got[t] - want[t]) > tol]
        if bad:
            t = bad[0]
            as_mech = all(abs(got[i] - mech[i]) <= tol for i in range(T))
            if not as_mech and any((got[i] > tol) != (want[i] > tol) for i in range(T)):
                # the optimum runs the plant at other steps than the probe was built for (e.g. it stays at minimum load instead of
                # shutting down): the probe states nothing about that schedule
                r['features'].append('el:probe-schedule-differs')
                continue
            r['violations'].append({'oracle': 'limits_follow_step_length',
                                    'detail': '%s: volumes per step %s; rate x own length of each step gives %s (step %d, %g h long: %.9g instead of %.9g)%s || input (%s): %s' % (
                                        text, [round(x, 6) for x in got], [round(x, 6) for x in want], t, dth[t], got[t], want[t],
                                        '; the volumes are those of the rate x the NOMINAL step of 24 h' if as_mech and fam == 'probe_profile' else
                                        '; the volumes are those of a ramp turned into a volume with the length of the FIRST step' if as_mech else '', u, describe(scs[u], None)),
                                    'facts': dict(facts, kind=kinds[0] if as_mech else kinds[1], unit=u, step=t)})
    return r


def probe_cases(seed, n):
    rnd = random.Random(seed * 1000003 + 120013)
    for i in range(n):
        r2 = random.Random(rnd.getrandbits(48))
        fam = ['probe_profile', 'probe_ramp'][i % 2]
        yield 'elprobe%d' % i, gen_probe(r2, fam)
