"""Shared conventions of the component correspondences (grid / parameter / price encodings)."""
from fractions import Fraction
import numpy as np
import pandas as pd
from ..lean import fs


def instant(ts, tz=None):
    """integer seconds since the epoch (UTC); naive timestamps are interpreted in `tz` (as eaopack does)"""
    ts = pd.Timestamp(ts)
    if ts.tzinfo is None:
        ts = ts.tz_localize(tz) if tz is not None else ts.tz_localize('UTC')
    return int(ts.value // 10 ** 9)


def grid_json(g, tz=None):
    """a Timegrid (full or restricted) as the model's `Grid` data: pts, idx, dt, Dt, df.
    Discount factors are taken from the object when present (they are an input of the model), else 1."""
    pts = [instant(p, tz) for p in g.timepoints]
    df = getattr(g, 'discount_factors', None)
    if df is None:
        df = np.ones(len(pts))
    return {'pts': pts, 'idx': [int(i) for i in g.I], 'dt': [fs(v) for v in g.dt], 'Dt': [fs(v) for v in g.Dt],
            'df': [fs(v) for v in df]}


def param_json(value, tz=None):
    """make_vector's accepted forms -> {"scalar"} | {"array"} | {"key"} | {"intervals"}"""
    if isinstance(value, (int, float, np.floating, np.integer)):
        return {'scalar': fs(value)}
    if isinstance(value, np.ndarray):
        return {'array': [fs(v) for v in value]}
    if isinstance(value, str):
        return {'key': value}
    if isinstance(value, dict):
        starts = value['start']
        if isinstance(starts, pd.DatetimeIndex):
            starts = starts.tolist()
        if not isinstance(starts, (list, np.ndarray)):
            starts = [starts]
        vals = value['values']
        if not isinstance(vals, (list, np.ndarray)):
            vals = [vals]
        s = [instant(x, tz) for x in starts]
        if 'end' in value:
            ends = value['end']
            if isinstance(ends, pd.DatetimeIndex):
                ends = ends.tolist()
            if not isinstance(ends, (list, np.ndarray)):
                ends = [ends]
            e = [instant(x, tz) for x in ends]
        elif len(s) > 1:
            e = s[1:] + [s[-1] + 2 * (s[-1] - s[-2])]
        else:
            e = [None]
        return {'intervals': [{'start': a, 'stop': b, 'value': fs(v)} for a, b, v in zip(s, e, vals)]}
    raise TypeError('unsupported parameter form %r' % type(value))


def prices_json(prices):
    return {k: [fs(v) for v in np.asarray(vals, dtype=float)] for k, vals in (prices or {}).items()}
