"""C04 (value accounting): the ways a result is PRODUCED and READ OUT.

The statement of C04 is about the result the optimiser returned: reported value = sum of the DCF table = - c . x, per asset and
in total.  It has to hold for every table the package hands out for that result - not only for the first one.  This module

  * takes a snapshot (copy of x, of the value and of the cost vector) at the moment `optimize` returns, before anything is read
    out (`solve_snap`), so that every later table is compared with the solution as it was returned,
  * reads one and the same (portfolio, problem, result) out several times, in a sequence drawn from the seed
    (`read_sequence`): io.extract_output without / with prices, the per-asset `Asset.dcf` called directly, `Storage.fill_level`
    in between; after every read-out the property's statement is evaluated (comp/c04gen.orc_value_accounting),
  * produces results in the further ways the package offers: the relaxed solution of a problem with boolean variables
    (`OptimProblem.optimize(make_soft_problem=True)`, also for split problems; `relaxed`), two-stage stochastic programmes
    (`stoch_lin_prog.make_slp`; `run_slp_case`), with their own variable blocks per asset (original variables plus the copies
    of its future variables, derived from the sizes of the captured asset problems and the layout make_slp documents),
  * generates portfolios in which boolean variables CARRY COSTS and whose relaxation is fractional (`gen_costly_bools`):
    plants / CHPs with start, running and minimum-load costs and a minimum load, order books with fully executed orders priced
    around the market.
"""
import copy
import random

import numpy as np
import pandas as pd

import eaopack as eao
from .. import gen, scen, pf, impl
from ..impl import Quiet
from . import c04gen as G


# ------------------------------------------------------------------ the solution as the optimiser returned it
class Snap:
    """copy of what `optimize` returned (x, value) and of the cost vector of the problem at that moment"""

    def __init__(self, op, res):
        self.x = np.array(res.x, dtype=float, copy=True)
        self.value = float(res.value)
        self.c = np.array(op.c, dtype=float, copy=True)


def _optimize(op, **kw):
    """op.optimize(**kw); a solver that gives up with an exception is retried with HiGHS, else the problem counts as unsolved"""
    try:
        return impl.solve(op, **kw)
    except Exception as e:
        if type(e).__name__ != 'SolverError':
            raise
        try:
            return impl.solve(op, solver='SCIPY', **kw)
        except Exception:
            return 'solver error'


def solve_snap(rec, **kw):
    """pf.solve_rec with a snapshot between `optimize` and the first read-out (rec['snap'])"""
    rec['snap'] = None
    if len(rec['op'].c) == 0:
        rec['res'] = 'empty problem'
        rec['out'] = None
        return rec
    res = _optimize(rec['op'], **kw)
    rec['res'] = res
    if isinstance(res, str):
        rec['out'] = None
        return rec
    rec['snap'] = Snap(rec['op'], res)
    with Quiet():
        rec['out'] = eao.io.extract_output(rec['portf'], rec['op'], res, rec['prices'])
    return rec


# ------------------------------------------------------------------ reading one result out several times
READS = ['out', 'out', 'out_prices', 'out_prices', 'asset_dcf', 'asset_dcf', 'fill_level']


def draw_reads(rnd):
    """a sequence of 2 .. 4 read-outs; at least two of them produce a DCF table"""
    for _ in range(20):
        seq = [rnd.choice(READS) for _ in range(rnd.randint(2, 4))]
        if sum(k != 'fill_level' for k in seq) >= 2:
            return seq
    return ['out', 'asset_dcf']


def do_read(kind, portf, op, res, prices):
    """one read-out of the result; returns a dict with 'DCF' and 'summary' as io.extract_output gives them, or None"""
    with Quiet():
        if kind == 'out':
            return eao.io.extract_output(portf, op, res)
        if kind == 'out_prices':
            return eao.io.extract_output(portf, op, res, prices)
        if kind == 'fill_level':
            for a in portf.assets:
                if hasattr(a, 'fill_level'):
                    a.fill_level(op, res)
            return None
        # the per-asset cash flows asked from the assets directly; the reported value is the one the result object carries
        dcf = pd.DataFrame(index=portf.timegrid.timepoints)
        for a in portf.assets:
            dcf[a.name] = a.dcf(optim_problem=op, results=res)
        summary = pd.DataFrame({'Values': {'status': 'successful', 'value': res.value}})
        return {'DCF': dcf, 'summary': summary}


def read_sequence(rec, tag, blocks, seed, first_done=True):
    """reads rec's result out again and again (sequence drawn from `seed`) and evaluates C04's statement on every table.
    Returns (violations, features).  `first_done`: rec['out'] already is a first read-out (with prices)."""
    viol, feats = [], []
    res, op, portf = rec.get('res'), rec['op'], rec['portf']
    if res is None or isinstance(res, str):
        return viol, feats
    rnd = random.Random(seed)
    seq = draw_reads(rnd)
    snap = rec.get('snap')
    done = ['out_prices'] if first_done else []
    for kind in seq:
        k = len(done) + 1
        try:
            out = do_read(kind, portf, op, res, rec['prices'])
        except Exception as e:
            viol.append({'oracle': 'value_accounting', 'detail': '%s: read-out %d (%s) of the result, after %s, raises %s: %s' % (
                tag, k, kind, done, type(e).__name__, str(e)[:100]), 'facts': {'mode': tag, 'what': 'read-error', 'read': k, 'read_kind': kind}})
            break
        done.append(kind)
        if out is None:
            continue
        rk = dict(rec, out=out)
        v = G.orc_value_accounting(rk, '%s, read-out %d [%s]' % (tag, k, ' > '.join(done)), blocks)
        for w in v:
            w['facts'].update({'mode': tag, 'read': k, 'read_kind': kind, 'reads_before': list(done[:-1]),
                               'x_changed_by_reading': bool(snap is not None and not np.array_equal(np.asarray(res.x, dtype=float), snap.x))})
        viol += v
        if v:
            break
    feats.append('reads:%d' % len(done))
    if any(d == 'asset_dcf' and any(q.startswith('out') for q in done[:i]) for i, d in enumerate(done)):
        feats.append('reads:asset-dcf-after-output')
    if sum(d.startswith('out') for d in done) >= 2:
        feats.append('reads:output-twice')
    return viol, feats


# ------------------------------------------------------------------ relaxed solutions of problems with boolean variables
def bool_vars(op):
    m = op.mapping
    if 'bool' not in m.columns:
        return np.array([], dtype=np.int64)
    mm = m[~m.index.duplicated(keep='first')]
    return mm.index[mm['bool'].fillna(False).astype(bool)].values.astype(np.int64)


def relaxed(rec, tag, blocks, reads_seed=None, drv=None, dis=None):
    """the same problem object optimised once more with make_soft_problem=True (booleans may take any value in [0, 1]):
    an optimised portfolio like any other.  Returns (violations, features, evaluated).  With a driver (monolithic problems)
    the model's DCF read-out of the relaxed solution is compared with the real table; disagreements are appended to `dis`."""
    viol, feats = [], []
    op = rec['op']
    rr = {k: rec[k] for k in ('portf', 'tg', 'prices', 'op') if k in rec}
    solve_snap(rr, make_soft_problem=True)
    if isinstance(rr['res'], str):
        return viol, ['%s:unsolved' % tag], 1
    feats.append(tag)
    ib = bool_vars(op)
    x, c = rr['snap'].x, rr['snap'].c
    if len(ib):
        frac = np.abs(x[ib] - np.round(x[ib])) > 1e-3
        if frac.any():
            feats.append(tag + ':fractional-boolean')
        if (frac & (np.abs(c[ib]) > 1e-9)).any():
            feats.append(tag + ':fractional-boolean-with-cost')
    viol += G.orc_value_accounting(rr, tag, blocks)
    if drv is not None and dis is not None and rec.get('op_json') is not None:
        dis += pf.corr_readout(rr, drv, what=('dcf',), opj=rec['op_json'])
        feats.append(tag + ':model-readout-compared')
    if reads_seed is not None and not viol:
        v, f = read_sequence(rr, tag, blocks, reads_seed)
        viol += v
        feats += [tag + ':' + q for q in f]
    return viol, feats, 1


# ------------------------------------------------------------------ stream: boolean variables that carry costs
def gen_costly_bools(rnd, tmax=10):
    """portfolios in which yes/no decisions cost money: every plant / CHP has a minimum load and at least one of start costs,
    running costs, minimum-load costs; order books execute their orders fully or not at all, at prices around the market"""
    kinds = ['plant', 'plant', 'chp', 'orderbook', 'simple', 'storage_se', 'contract']
    s = gen.gen_portfolio(rnd, kinds=kinds, tmax=tmax, tmin=3, tz_prob=0.1, allow_mip=True, max_assets=3, nodes_max=3,
                          allow_freq=False, allow_periodic=False, allow_wacc=rnd.random() < 0.3, market_prob=1.0,
                          allow_struct=False, allow_blocks=False)
    g, prices = s['grid'], s['prices']
    T = scen.make_grid(g).T
    mk = G._market_of(s['assets'])
    costly = [a for a in s['assets'] if a['type'] in ('Plant', 'CHPAsset', 'CHPAsset_with_min_load_costs', 'OrderBook')]
    if not costly:
        node = rnd.choice([n for n in s['nodes'] if n in mk] or s['nodes'])
        if rnd.random() < 0.6:
            a = gen.gen_plant(rnd, g, prices, T, 'pl%d' % (len(s['assets']) + 1), [node], chp=False, allow_mip=True)
        else:
            a = {'type': 'OrderBook', 'name': 'ob%d' % (len(s['assets']) + 1), 'nodes': [node], 'args': {}}
        s['assets'].append(a)
        costly = [a]
    for a in costly:
        args = a['args']
        if a['type'] == 'OrderBook':
            node = a['nodes'][0]
            b = G.gen_book(rnd, g, prices, a['name'], node, mk[node]['args']['price'] if node in mk else None)
            args.clear()
            args.update(b['args'])
            if rnd.random() < 0.6:
                args.pop('wacc', None)
            args['full_exec'] = True
            continue
        # a minimum load well above zero: the relaxed "on" is the dispatch over the capacity
        args['min_cap'] = gen.q8(rnd, 0.25, 0.75) * args['max_cap']
        which = rnd.sample(['start_costs', 'running_costs'], rnd.randint(1, 2))
        if 'start_costs' in which:
            args['start_costs'] = gen.q8(rnd, 0.5, 12)
        if 'running_costs' in which:
            args['running_costs'] = gen.q8(rnd, 0.125, 6)
        # the plant earns money in part of the horizon: price of its production below the market of its node in some steps
        node = a['nodes'][0]
        if node in mk and isinstance(mk[node]['args'].get('price'), str):
            ref = prices[mk[node]['args']['price']]
            key = 'p%d' % len(prices)
            prices[key] = [v + gen.q8(rnd, -6, 3) for v in ref]
            args['price'] = key
    # markets that take / give little: the plants and orders cannot all run at full size, so the relaxed problem settles
    # at yes/no variables strictly between 0 and 1 (the MIP has to decide)
    for m in mk.values():
        if rnd.random() < 0.75:
            m['args']['min_cap'] = -gen.q8(rnd, 0.5, 5)
            m['args']['max_cap'] = gen.q8(rnd, 0.5, 5)
    s['stream'] = 'costly-bools'
    return s


# ------------------------------------------------------------------ stream: results of two-stage stochastic programmes
def start_future_of(case):
    """start_future of the case in the form drawn with the case (the forms of one instant give the same problem: C17)"""
    sf = pd.Timestamp(case['sf'])     # naive local time of the grid
    tz = case['scn']['grid'].get('tz')
    form = case.get('sf_form') or ('aware' if tz is not None else 'naive')
    if form == 'naive_date' and sf == sf.normalize():
        return sf.date()
    if form == 'ts':
        return sf
    if form in ('naive', 'naive_date') or tz is None:
        return sf.to_pydatetime()
    sf = sf.tz_localize(tz)
    if form == 'other_zone':
        return sf.tz_convert(case.get('sf_zone') or 'UTC')
    return sf


def slp_blocks(rec, ops, tg, sf, nS):
    """asset -> indices of its variables in the SLP: its own block of the original problem plus, per sample, the copies of
    those of its variables that belong to the future (first mapping row of the ORIGINAL problem at or after start_future;
    copy of the k-th future variable for sample s sits at n + s * n_f + k).  None if the SLP has another number of variables."""
    op = rec['op']
    n = len(op.c)
    sfl = pd.Timestamp(sf)
    if sfl.tzinfo is None and tg.tz is not None:
        sfl = sfl.tz_localize(tg.tz)
    fut_steps = set(int(i) for i, p in enumerate(tg.timepoints) if p >= sfl)
    fr = op.mapping[~op.mapping.index.duplicated(keep='first')]
    fut = np.zeros(n, dtype=bool)
    for j, t in zip(fr.index.values, fr['time_step'].values):
        if int(t) in fut_steps:
            fut[int(j)] = True
    nf = int(fut.sum())
    if len(ops.c) != n + nS * nf:
        return None, fut
    rank = np.cumsum(fut) - 1
    out = {}
    for name, ranges in pf.asset_blocks(rec).items():
        idx = []
        for lo, hi in ranges:
            own = np.arange(lo, hi)
            idx.append(own)
            of = own[fut[lo:hi]]
            for s in range(nS):
                idx.append(n + s * nf + rank[of])
        out[name] = [np.concatenate(idx).astype(np.int64) if idx else np.array([], dtype=np.int64)]
    return out, fut


def run_slp_case(scn, drv=None):
    """scn = {'case': a case of comp/slp.py's generators, 'reads_seed': ...}: the base problem is set up, turned into a
    two-stage SLP, optimised; the result is read out several times; C04's statement on every table"""
    case = scn['case']
    r = {'evaluated': 1, 'nontrivial': False, 'features': ['stream:slp', 'family:' + str(case.get('family')), 'nS:%d' % len(case['samples'])],
         'disagreements': [], 'violations': []}
    f = r['features']
    try:
        rec = pf.setup_mono(case['scn'])
    except Exception as e:
        f.append('setup-error:' + impl.err_class(e))
        return r
    op, portf, tg = rec['op'], rec['portf'], rec['tg']
    sf = start_future_of(case)
    samples = [{k: np.asarray(v, dtype=float) for k, v in ps.items()} for ps in case['samples']]
    try:
        with Quiet():
            ops = eao.stoch_lin_prog.make_slp(copy.deepcopy(op), portf, tg, sf, copy.deepcopy(samples))
    except Exception as e:
        f.append('make_slp-error:' + impl.err_class(e))      # whether make_slp may refuse is C17's business
        return r
    f.append('slp-mip' if pf.is_mip(ops) else 'slp-lp')
    blocks, fut = slp_blocks(rec, ops, tg, sf, len(samples))
    if blocks is None:
        f.append('slp-layout-unexpected')                     # C17 reports it; here only the total is compared
    rs = {'portf': portf, 'tg': tg, 'prices': rec['prices'], 'op': ops}
    try:
        solve_snap(rs)
    except Exception as e:
        f.append('slp-readout-error:' + impl.err_class(e))    # slp_readout of C17
        return r
    if isinstance(rs['res'], str):
        f.append('unsolved:' + rs['res'])
        return r
    f.append('slp-solved')
    snap = rs['snap']
    n = len(op.c)
    cash_future = float(np.abs(snap.c[n:] * snap.x[n:]).sum()) + float(np.abs(snap.c[:n][fut] * snap.x[:n][fut]).sum())
    if len(samples) and cash_future > 1e-9:
        f.append('slp:cash-flow-in-sampled-future')
        r['nontrivial'] = True
    r['violations'] += G.orc_value_accounting(rs, 'slp', blocks)
    if not r['violations']:
        v, ff = read_sequence(rs, 'slp', blocks, scn.get('reads_seed', 0))
        r['violations'] += v
        f += ff
        r['evaluated'] += 1
    r['observed'] = {'value': snap.value, 'variables': len(snap.x), 'future_copies': len(snap.x) - n}
    return r
