"""Component correspondence + oracles for C13: coarse asset frequency and periodicity.

Model side (Lean, `EAO/Model/Periodic.lean`): `stepLabels`, `makePeriodic`, `extendMinor`.
Implementation side: `OptimProblem.__make_periodic__`, `Asset.__extend_mapping_to_minor_grid__`
(neither name is mangled: both end in two underscores).

Correspondence is by CAPTURE: the two methods are wrapped while the real asset builds its problem; the
wrapper records the argument state and the result; `pd.merge` is wrapped during `__make_periodic__` to
record the label table `df` the code built.  The model is run on the recorded inputs.

Oracles (real code only): constant rate within coarse intervals / repetition within periods, and value
equality with the fine problem plus explicit equalities.

The price data of a case goes to the real code in a FORM drawn per series (float / integer arrays, lists, pandas
Series, or everything as a DataFrame: section "forms of the price data"); the reference of the oracle always works on
its own float arrays made from the case record.
"""
import copy
import random
import json
from fractions import Fraction

import numpy as np
import pandas as pd
import scipy.sparse as sp

import eaopack as eao
from eaopack.optimization import OptimProblem
from eaopack.assets import Asset
from eaopack.portfolio import Portfolio

from .. import scen, impl, pf
from ..impl import Quiet, problem_json, err_class, mapping_rows
from ..lean import fs
from .common import instant, grid_json

ID = 'periodic'
PROPERTY = 'C13'
TOL = 1e-9
THEOREMS = [
    ('EAO.Properties.C13', 'EAO.C13.merge_columns', 'merging columns along an idempotent leader map (costs summed, columns renamed, leaders compacted) is the original problem with leader bounds plus the equalities x_j = x_lead(j): rows, bounds, objective and dispatch read-out agree at z and z∘σ, and every x satisfying the equalities is such an expansion'),
    ('EAO.Properties.C13', 'EAO.C13.merge_columns_value', 'the maximised value -c·x agrees'),
    ('EAO.Properties.C13', 'EAO.C13.makePeriodic_is_merge', 'when the groups form a partition of the variables the literal loop of __make_periodic__ equals mergeProblem along its final leader map (leader map idempotent and closed; bounds, mapping equal; costs and rows equal as linear functionals)'),
    ('EAO.Properties.C13', 'EAO.C13.partition_of_partitionCheck', 'the partition hypothesis follows from the executable partitionCheck the driver reports'),
    ('EAO.Properties.C13', 'EAO.C13.makePeriodic_equiv', 'hence what makePeriodic returns is the original problem with leader bounds plus the equalities: feasibility, objective, dispatch agree at z and its expansion'),
    ('EAO.Properties.C13', 'EAO.C13.periodic_groups_sound', 'a variable that makePeriodic merges into another has a mapping row in the same (asset, node≠NaN, type, var_name, duration, position) group as its leader'),
    ('EAO.Properties.C13', 'EAO.C13.periodic_groups_complete_counterexample', 'the converse fails for a coarse AND periodic asset (freq 2h, period 5h): finding F-13f'),
    ('EAO.Properties.C13', 'EAO.C13.stepLabels_length', 'one (dur, per, sub_per) label per grid step'),
    ('EAO.Properties.C13', 'EAO.C13.coarse_weights', 'for any incoming mapping row (with or without factor column) the rows written carry (dt_fine/dt_coarse)*f, one per minor step in order'),
    ('EAO.Properties.C13', 'EAO.C13.coarse_weights_sum', 'per original row the written factors sum to f when dt_coarse = sum dt_fine != 0'),
    ('EAO.Properties.C13', 'EAO.C13.coarse_constant_rate', 'volume on a minor step divided by its length is x*f/dt_coarse for every minor step'),
    ('EAO.Properties.C13', 'EAO.C13.coarse_weights_extendMinor', 'the same for every output row of extendMinor, which keeps variable, asset, node, type, name of its coarse row'),
    ('EAO.Properties.C13', 'EAO.C13.extendMinor_rows', 'the output is the concatenation of the rows written per coarse row, in order'),
]
KNOWN_KINDS = {'both_misaligned': 'F-13f', 'coarse_remainder': 'F-19b',
               'coarse_take_first_minor': 'F-13g', 'periodic_chp': 'F-13d (not generated)',
               'anchored_period_lead': 'F-13m'}


# ------------------------------------------------------------------ small helpers
def q8(rnd, lo, hi):
    return rnd.randint(int(lo * 8), int(hi * 8)) / 8.0


def td(freq):
    """length of a frequency exactly as the implementation computes it"""
    try:
        return pd.Timedelta(1, freq)
    except Exception:
        return pd.Timedelta(freq)


def iso(ts):
    return pd.Timestamp(ts).strftime('%Y-%m-%dT%H:%M:%S')


# ------------------------------------------------------------------ generator
FINE = {
    'h': dict(coarse=['2h', '3h', '4h', '6h', '60min', '12h', 'd', '5h'], per=['2h', '3h', '4h', '6h', '8h', '12h', 'd', '5h'],
              dur=['6h', '8h', '12h', 'd', '2d', '9h']),
    '30min': dict(coarse=['h', '2h', '90min'], per=['h', '2h', '3h', '90min'], dur=['4h', '6h', '3h']),
    '15min': dict(coarse=['h', '30min', '45min'], per=['h', '30min', '2h'], dur=['2h', '4h', '3h']),
    '2h': dict(coarse=['4h', '6h', 'd'], per=['4h', '6h', '8h', 'd'], dur=['12h', 'd', '16h']),
    'd': dict(coarse=['2d', '3d', '7d', 'W'], per=['2d', '3d', '7d', 'W'], dur=['6d', '14d', 'W']),
}
TYPES = ['SimpleContract', 'Contract', 'Transport', 'ExtendedTransport', 'Storage', 'MultiCommodityContract']


def gen_case(rnd, oracle=None, kind=None, atype=None, dst=None, straddle=False, steps=None, force=None, probes=True):
    """steps: number of grid steps (instead of the drawn one).  force: {'fine', 'opt', 'T', 'start', 'tz'} - grid and options
    given by the caller (streams with their own way of drawing them); everything else (asset, parameters, markets) is drawn here.
    probes=False: none of the probe points (wacc, varying limits, cost_store on a coarse asset: known findings F-13h/i/o) is drawn."""
    fine = rnd.choice(['h', 'h', 'h', 'h', '30min', '15min', '2h', 'd'])
    if force is not None:
        fine, dst = force['fine'], False
    if dst is None:
        dst = rnd.random() < 0.08   # daily steps of 23/24/25 hours: fine steps of unequal length under a coarse frequency
    if dst:
        fine = 'd'
        kind = kind or rnd.choice(['freq', 'freq', 'both'])
    tab = FINE.get(fine)
    kind = kind or rnd.choice(['freq', 'freq', 'per', 'per', 'perdur', 'perdur', 'both', 'bothdur'])
    if oracle is None:
        oracle = rnd.random() < 0.35
    opt = {}
    if force is not None:
        opt = dict(force['opt'])
    else:
        if kind in ('freq', 'both', 'bothdur'):
            opt['freq'] = rnd.choice(tab['coarse'])
        if kind in ('per', 'perdur', 'both', 'bothdur'):
            opt['periodicity'] = rnd.choice(tab['per'])
        if kind in ('perdur', 'bothdur'):
            opt['periodicity_duration'] = rnd.choice(tab['dur'])
    step = td(fine)
    # number of fine steps: mostly a common multiple of the lengths involved
    mults = [max(1, int(round(td(f) / step))) for f in opt.values()]
    base = int(np.lcm.reduce(mults)) if mults else 1
    aligned = rnd.random() < 0.8
    tmax = 36 if oracle else 56
    if aligned:
        if base > tmax:
            base = max(mults[0], 2)
        T = base * rnd.randint(1, max(1, min(4, tmax // base)))
        if T < 2:
            T = 2 * base
        if T // max(1, mults[0]) < 2 and T * 2 <= tmax:
            T *= 2
    else:
        T = rnd.randint(3, tmax)
    if steps is not None:
        T = steps
    tz = None
    start = pd.Timestamp('2021-01-01') + rnd.choice([0, 0, 0, 6, 24]) * pd.Timedelta(hours=1)
    if rnd.random() < (0.5 if fine == 'd' else 0.2):
        tz = rnd.choice(['CET', 'CET', 'UTC', 'US/Eastern'])
        if rnd.random() < 0.7:
            start = pd.Timestamp(rnd.choice(['2021-03-27 00:00', '2021-10-30 00:00', '2021-03-26 00:00', '2021-03-13 00:00']))
    if dst:
        tz = 'CET'
        start = pd.Timestamp(rnd.choice(['2021-03-26 00:00', '2021-03-27 00:00', '2021-10-29 00:00', '2021-10-30 00:00']))
    if fine == 'd':
        start = start.normalize()
    if force is not None:
        T, start, tz = force['T'], pd.Timestamp(force['start']), force['tz']
    end = start + T * step
    g = {'start': iso(start), 'end': iso(end), 'freq': fine, 'unit': 'h', 'tz': tz}
    try:
        tg = scen.make_grid(g)
    except Exception:
        g['tz'] = None
        tz = None
        tg = scen.make_grid(g)
    T = tg.T
    prices = {}

    def pkey(name, lo=-2, hi=12):
        prices[name] = [q8(rnd, lo, hi) for _ in range(T)]
        return name

    atype = atype or rnd.choice(TYPES)
    args = {}
    nodes = ['n1']
    two_var = rnd.random() < 0.5
    uniform = len(set(np.asarray(tg.dt).tolist())) == 1
    # window of the focus asset
    wkind = rnd.choice(['none', 'none', 'none', 'inside', 'offgrid']) if not oracle else rnd.choice(['none', 'none', 'none', 'inside'])
    m0 = mults[0] if mults else 1
    if 'freq' in opt and m0 >= 2 and 'periodicity' not in opt and (straddle or rnd.random() < 0.12):
        # the asset's window starts part of a coarse step BEFORE the horizon: its first coarse interval is only partly covered
        # by the grid (its length is the length of the covered fine steps)
        # (so many fine steps that the window is a whole number of coarse steps: no trailing remainder, finding F-19b)
        k_ = (m0 - T % m0) % m0
        if k_ == 0:
            if straddle:
                return gen_case(rnd, oracle=oracle, kind=kind, atype=atype, dst=dst, straddle=True)
            k_ = m0      # a whole coarse step before the horizon: skipped by the code since fix F-19g (it used to raise); or none
        s_ = pd.Timestamp(tg.timepoints[0]).tz_localize(None) - (k_ if (k_ == m0 and rnd.random() < 0.5) else k_ % m0) * step
        try:
            if tz is not None:
                s_.tz_localize(tz)
            if k_ % m0:
                args['start'] = {'$dt': iso(s_)}
            wkind = 'none'
        except Exception:
            pass
    if wkind != 'none' and T >= 4 * m0:
        a = rnd.randint(0, 1) * m0
        b = T - rnd.randint(0, 1) * m0
        s = pd.Timestamp(tg.timepoints[a]).tz_localize(None)
        e = (pd.Timestamp(tg.timepoints[b - 1]).tz_localize(None) + step) if b - 1 < T else None
        if wkind == 'offgrid':
            s = s + step / 2
        args['start'] = {'$dt': iso(s)}
        if e is not None:
            args['end'] = {'$dt': iso(e)}
    if not oracle and rnd.random() < 0.25:
        args['wacc'] = rnd.choice([0.05, 0.1])
    # points the statement covers but the equivalence theorems do not (the merged step has ONE discount factor, ONE limit):
    # optimised as well, so that what the real code does there is on record
    probe = None
    if probes and oracle and kind == 'freq' and rnd.random() < 0.3:
        probe = rnd.choice(['wacc', 'varying_limits', 'cost_store'])
        if probe == 'wacc':
            args['wacc'] = rnd.choice([0.5, 1.0, 3.0])

    def caps(lo_neg=True):
        if lo_neg:
            return -q8(rnd, 0.5, 4), q8(rnd, 0.5, 4)
        return 0.0, q8(rnd, 0.5, 4)

    def take(lo, hi):
        # interval(s) aligned with the horizon (and with coarse cuts: whole horizon or halves)
        pts = [pd.Timestamp(p).tz_localize(None) for p in tg.timepoints] + [pd.Timestamp(tg.end).tz_localize(None)]
        if rnd.random() < 0.5 or T < 2 * m0 * 2:
            cut = [0, T]
        else:
            h = (T // (2 * m0)) * m0
            cut = [0, h, T]
        return {'start': [{'$dt': iso(pts[i])} for i in cut[:-1]], 'end': [{'$dt': iso(pts[i])} for i in cut[1:]],
                'values': [q8(rnd, lo, hi) * (cut[i + 1] - cut[i]) * float(tg.dt[0]) for i in range(len(cut) - 1)]}

    if atype in ('SimpleContract', 'Contract', 'MultiCommodityContract'):
        lo, hi = caps()
        form = rnd.random()
        if (not oracle and form < 0.15) or probe == 'varying_limits':
            args['min_cap'] = pkey('cmin', -3, -0.5)
            args['max_cap'] = pkey('cmax', 0.5, 3)
        else:
            if rnd.random() < 0.2:
                lo = 0.0
            args['min_cap'], args['max_cap'] = lo, hi
        args['price'] = pkey('pX')
        if two_var:
            args['extra_costs'] = q8(rnd, 0.125, 1)
        if atype in ('Contract', 'MultiCommodityContract') and rnd.random() < 0.7:
            if rnd.random() < 0.6:
                args['max_take'] = take(0.25, 1.0)
            else:
                args['min_take'] = take(-0.5, 0.25)
        if atype == 'MultiCommodityContract':
            nodes = ['n1', 'n2']
            args['factors_commodities'] = [1.0, rnd.choice([1.0, 0.5, 2.0, -0.5])]
    elif atype in ('Transport', 'ExtendedTransport'):
        nodes = ['n1', 'n2']
        if rnd.random() < 0.8:
            args['min_cap'], args['max_cap'] = 0.0, q8(rnd, 0.5, 4)
        else:
            args['min_cap'], args['max_cap'] = -q8(rnd, 0.5, 4), 0.0
        args['efficiency'] = rnd.choice([1.0, 0.5, 0.875, 0.75])
        args['costs_const'] = rnd.choice([0.0, 0.125, 0.5])
        if rnd.random() < 0.4:
            args['costs_time_series'] = pkey('pX', 0, 2)
        if atype == 'ExtendedTransport' and rnd.random() < 0.7 and args['max_cap'] > 0:
            args['max_take'] = take(0.25, 1.0)
    elif atype == 'Storage':
        if rnd.random() < 0.3:
            nodes = ['n1', 'n2']
        args['size'] = q8(rnd, 2, 12)
        args['cap_in'] = q8(rnd, 0.5, 3)
        args['cap_out'] = q8(rnd, 0.5, 3)
        lvl = rnd.choice([0.0, 0.0, 1.0])
        args['start_level'] = lvl
        args['end_level'] = lvl
        if two_var:
            args['eff_in'] = rnd.choice([1.0, 0.875, 0.5])
            args['cost_in'] = rnd.choice([0.0, 0.125])
            args['cost_out'] = rnd.choice([0.125, 0.25])
        if rnd.random() < 0.3:
            args['price'] = pkey('pX', 0, 4)
        if not oracle and rnd.random() < 0.15 and two_var:
            args['no_simult_in_out'] = True
        if (not oracle and rnd.random() < 0.15) or probe == 'cost_store':
            args['cost_store'] = 0.125
    if 'freq' in opt and 'start' in args and wkind == 'none':
        # shifted coarse steps: take periods cut at grid points are no longer aligned with them (finding F-13g is about that)
        args.pop('max_take', None)
        args.pop('min_take', None)
    focus = {'type': atype, 'name': 'X', 'nodes': nodes, 'args': args}
    others = []
    allnodes = ['n1', 'n2'] if len(nodes) == 2 or rnd.random() < 0.2 else ['n1']
    for n in allnodes:
        others.append({'type': 'SimpleContract', 'name': 'mkt_' + n, 'nodes': [n],
                       'args': {'price': pkey('p_' + n), 'min_cap': -8.0, 'max_cap': 8.0, 'extra_costs': rnd.choice([0.0, 0.125, 0.5])}})
    if rnd.random() < 0.5:
        prof = pkey('load', 0, 3)
        others.append({'type': 'SimpleContract', 'name': 'load', 'nodes': [rnd.choice(allnodes)],
                       'args': {'min_cap': prof, 'max_cap': prof}})
        prices['load'] = [-v for v in prices['load']]
    if len(allnodes) == 2 and len(nodes) == 1:
        others.append({'type': 'Transport', 'name': 'link', 'nodes': ['n1', 'n2'],
                       'args': {'min_cap': 0.0, 'max_cap': 2.0, 'efficiency': 0.875}})
    return draw_forms(rnd, {'grid': g, 'nodes': allnodes, 'prices': prices, 'focus': focus, 'opt': opt, 'others': others,
                            'kind': kind, 'oracle': bool(oracle), 'aligned': aligned, 'uniform_dt': uniform, 'probe': probe})


def gen_window_case(rnd, atype=None):
    """coarse asset whose window [start, end) is a WHOLE number of coarse steps (no remainder: finding F-19b) and starts and/or ends
    strictly inside the horizon - at any grid point, the coarse cuts run from the window's start -, together with a strongly varying
    price / cost series of the asset: every step its own value plus a level per region (before the window, each coarse interval,
    after the window), so that what lies outside the window differs clearly from what lies inside.  Always optimised (oracle case).
    Equal fine steps (no DST), take periods cut at the asset's own coarse cuts or at the horizon's ends (finding F-13g)."""
    fine = rnd.choice(['h', 'h', 'h', '30min', '15min', '2h', 'd'])
    tab = FINE[fine]
    freq = rnd.choice(tab['coarse'])
    opt = {'freq': freq}
    step = td(fine)
    m0 = max(1, int(round(td(freq) / step)))
    atype = atype or rnd.choice(TYPES)
    tmax = 60
    nmax = max(1, min(4, (tmax - 2) // m0))
    nw = rnd.randint(min(nmax, 2 if atype == 'Storage' else 1), nmax)   # coarse steps in the window (one step leaves a storage no choice)
    where = rnd.choice(['end', 'end', 'both', 'both', 'start'])      # which side(s) of the window lie strictly inside the horizon
    room = max(2, tmax - nw * m0)

    def outside():
        k = rnd.randint(1, max(1, min(2 * m0, room // 2)))
        if rnd.random() < 0.4 and m0 <= room // 2:
            k = m0 * max(1, k // m0)                                 # whole coarse steps outside
        return k
    lead = outside() if where in ('start', 'both') else 0
    tail = outside() if where in ('end', 'both') else 0
    T = lead + nw * m0 + tail
    tz = rnd.choice([None, None, None, 'UTC', 'CET'])                # January/February: no clock change
    if freq == 'W':
        wstart = pd.Timestamp('2021-01-10')                          # 'W' cuts on Sundays: the window starts on one
    else:
        wstart = pd.Timestamp('2021-01-04') + rnd.choice([0, 0, 0, 6, 24]) * pd.Timedelta(hours=1)
        if fine == 'd':
            wstart = wstart.normalize()
    start = wstart - lead * step
    g = {'start': iso(start), 'end': iso(start + T * step), 'freq': fine, 'unit': 'h', 'tz': tz}
    tg = scen.make_grid(g)
    assert tg.T == T, (tg.T, T)
    pts = [start + i * step for i in range(T + 1)]
    region = [0] * lead + [1 + k for k in range(nw) for _ in range(m0)] + [nw + 1] * tail
    prices = {}

    def pkey(name, lo, hi, levels, out_levels=None):
        lv = [rnd.choice(out_levels or levels)] + [rnd.choice(levels) for _ in range(nw)] + [rnd.choice(out_levels or levels)]
        prices[name] = [lv[region[t]] + q8(rnd, lo, hi) for t in range(T)]
        return name

    args = {}
    if lead:
        args['start'] = {'$dt': iso(pts[lead])}
    if tail:
        args['end'] = {'$dt': iso(pts[lead + nw * m0])}
    nodes = ['n1']
    two_var = rnd.random() < 0.5

    def take(lo, hi):
        cuts = [lead + k * m0 for k in range(nw + 1)]
        first = rnd.choice([0, lead])
        last = rnd.choice([T, cuts[-1]])
        cut = [first] + ([rnd.choice(cuts[1:-1])] if nw >= 2 and rnd.random() < 0.5 else []) + [last]
        return {'start': [{'$dt': iso(pts[i])} for i in cut[:-1]], 'end': [{'$dt': iso(pts[i])} for i in cut[1:]],
                'values': [q8(rnd, lo, hi) * (cut[i + 1] - cut[i]) * float(tg.dt[0]) for i in range(len(cut) - 1)]}

    mkt_levels = {'n1': [0, 0, 3, -3], 'n2': [0, 0, 3, -3]}
    if atype in ('SimpleContract', 'Contract', 'MultiCommodityContract'):
        lo, hi = -q8(rnd, 0.5, 4), q8(rnd, 0.5, 4)
        if rnd.random() < 0.2:
            lo = 0.0
        args['min_cap'], args['max_cap'] = lo, hi
        args['price'] = pkey('pX', -2, 4, [-3, 0, 2, 5, 9], [-8, 0, 6, 15, 30])
        if two_var:
            args['extra_costs'] = q8(rnd, 0.125, 1)
        if atype in ('Contract', 'MultiCommodityContract') and rnd.random() < 0.6:
            if rnd.random() < 0.6:
                args['max_take'] = take(0.25, 1.0)
            else:
                args['min_take'] = take(-0.5, 0.25)
        if atype == 'MultiCommodityContract':
            nodes = ['n1', 'n2']
            args['factors_commodities'] = [1.0, rnd.choice([1.0, 0.5, 2.0, -0.5])]
    elif atype in ('Transport', 'ExtendedTransport'):
        nodes = ['n1', 'n2']
        if rnd.random() < 0.8:
            args['min_cap'], args['max_cap'] = 0.0, q8(rnd, 0.5, 4)
            mkt_levels = {'n1': [0, 0, 2], 'n2': [4, 8, 14]}         # mostly worth transporting, not always
        else:
            args['min_cap'], args['max_cap'] = -q8(rnd, 0.5, 4), 0.0
            mkt_levels = {'n1': [2, 5, 8], 'n2': [0, 0, 2]}
        args['efficiency'] = rnd.choice([1.0, 0.5, 0.875, 0.75])
        args['costs_const'] = rnd.choice([0.0, 0.125, 0.5])
        if rnd.random() < 0.9:
            args['costs_time_series'] = pkey('pX', 0, 2, [0, 0, 1, 3], [0, 2, 6, 12])
        if atype == 'ExtendedTransport' and rnd.random() < 0.6 and args['max_cap'] > 0:
            args['max_take'] = take(0.25, 1.0)
    elif atype == 'Storage':
        if rnd.random() < 0.3:
            nodes = ['n1', 'n2']
        args['size'] = q8(rnd, 2, 12)
        args['cap_in'] = q8(rnd, 0.5, 3)
        args['cap_out'] = q8(rnd, 0.5, 3)
        args['start_level'] = rnd.choice([0.0, 0.0, 1.0, args['size'] / 2])
        args['end_level'] = rnd.choice([args['start_level'], args['start_level'], 0.0, min(1.0, args['size'])])
        if two_var:
            args['eff_in'] = rnd.choice([1.0, 0.875, 0.5])
            args['cost_in'] = rnd.choice([0.0, 0.125])
            args['cost_out'] = rnd.choice([0.125, 0.25])
        if rnd.random() < 0.9:
            args['price'] = pkey('pX', 0, 4, [0, 0, 2, 5], [0, 3, 8, 20])
    focus = {'type': atype, 'name': 'X', 'nodes': nodes, 'args': args}
    others = []
    allnodes = ['n1', 'n2'] if len(nodes) == 2 or rnd.random() < 0.2 else ['n1']
    for n in allnodes:
        others.append({'type': 'SimpleContract', 'name': 'mkt_' + n, 'nodes': [n],
                       'args': {'price': pkey('p_' + n, -2, 12, mkt_levels[n]), 'min_cap': -8.0, 'max_cap': 8.0,
                                'extra_costs': rnd.choice([0.0, 0.125, 0.5])}})
    if rnd.random() < 0.5:
        prof = pkey('load', 0, 3, [0])
        others.append({'type': 'SimpleContract', 'name': 'load', 'nodes': [rnd.choice(allnodes)],
                       'args': {'min_cap': prof, 'max_cap': prof}})
        prices['load'] = [-v for v in prices['load']]
    if len(allnodes) == 2 and len(nodes) == 1:
        others.append({'type': 'Transport', 'name': 'link', 'nodes': ['n1', 'n2'],
                       'args': {'min_cap': 0.0, 'max_cap': 2.0, 'efficiency': 0.875}})
    return draw_forms(rnd, {'grid': g, 'nodes': allnodes, 'prices': prices, 'focus': focus, 'opt': opt, 'others': others,
                            'kind': 'freq', 'oracle': True, 'aligned': True, 'uniform_dt': True, 'probe': None,
                            'window': {'where': where, 'lead': lead, 'coarse_steps': nw, 'minor_per_coarse': m0, 'tail': tail}})


def gen_anchor_case(rnd, atype=None):
    """periodic asset with an ANCHORED period ('W': weeks begin on Sunday) on a grid whose first day is drawn (0..6 days after the
    anchor; 0 = on the anchor), fine steps 'd' / '12h' / '6h', two or three whole weeks plus the partial first one and sometimes a
    partial last one, with or without a duration of two weeks; asset, parameters and markets as in `gen_case`.
    The statement's positions are counted by the clock; the code counts those of the partial first period from the grid start
    (finding F-13m, kind 'anchored_period_lead')."""
    fine = rnd.choice(['d', 'd', '12h', '6h'])
    per_day = int(round(pd.Timedelta(days=1) / td(fine)))
    m = 7 * per_day
    wd = rnd.randint(0, 6)
    start = pd.Timestamp('2021-01-03') + wd * pd.Timedelta(days=1) + rnd.choice([0, 0, 0, 6, 12]) * pd.Timedelta(hours=1)
    first = ((7 - wd) % 7) * per_day                                  # steps of the partial first week
    weeks = rnd.randint(2, 2 if fine == '6h' else 3)
    T = first + weeks * m + (rnd.randint(1, m - 1) if rnd.random() < 0.3 else 0)
    opt = {'periodicity': 'W'}
    if rnd.random() < 0.3:
        opt['periodicity_duration'] = '2W'
    force = {'fine': fine, 'opt': opt, 'T': T, 'start': iso(start), 'tz': rnd.choice([None, None, 'UTC', 'CET'])}
    c = gen_case(rnd, oracle=True, kind='perdur' if 'periodicity_duration' in opt else 'per', atype=atype, dst=False, force=force)
    c['probe'] = 'anchored_period'
    c['anchor'] = {'days_after_anchor': wd, 'steps_first_week': first, 'steps_per_week': m}
    return c


# ------------------------------------------------------------------ forms of the price data
# The data of a case (`case['prices']`: key -> list of numbers) is handed to the real code in a FORM drawn per series
# (`case['forms']`: key -> form) and, for some cases, all together as a DataFrame (`case['frame']`: 'range' = default index,
# 'timepoints' = indexed by the grid's time points, as `Timegrid.prices_to_grid` / `eao.io.optimize` hand it on).
# The integer forms need whole numbers: the drawn series is rounded (in the case record itself, so the reference sees the same
# numbers) - the mean over the minor steps of a coarse interval is then in general NOT a whole number.
FLOAT_FORMS = ['f8', 'list_float', 'series']
INT_FORMS = ['i8', 'i4', 'list_int', 'series_int']
ARRAY_FORMS = ['f8', 'i8', 'i4']
# what the unchanged code accepts, per USE of a series (a form the code rejects is out of scope):
#   price of a SimpleContract / Contract / MultiCommodityContract: `.copy()`, list -> asarray, Series -> values: everything
#   min_cap / max_cap by name (make_vector): `.copy()`, Series -> values, then `vec[I]` with an index array: no lists
#   costs_time_series of a Transport / ExtendedTransport: `.copy()`, Series -> values, then indexed with index arrays: no lists
#   price of a Storage: `.copy()`, then indexed with index arrays and used as it is: arrays and Series, no lists (the column of
#   a frame indexed by time points - what `eao.io.optimize` hands on - is indexed by position, which pandas 2.x still does)
ACCEPTS = {
    'contract_price': FLOAT_FORMS + INT_FORMS,
    'vector': ARRAY_FORMS + ['series', 'series_int'],
    'transport_costs': ARRAY_FORMS + ['series', 'series_int'],
    'storage_price': ARRAY_FORMS + ['series', 'series_int'],
}
FRAME_INDEX = {'contract_price': ['range', 'timepoints'], 'vector': ['range', 'timepoints'], 'transport_costs': ['range', 'timepoints'],
               'storage_price': ['range', 'timepoints']}


def key_uses(case):
    """key of the price data -> set of uses (see ACCEPTS) by the focus asset and the others"""
    uses = {}
    for s in [case['focus']] + list(case['others']):
        for arg, v in s['args'].items():
            if not isinstance(v, str) or v not in case['prices']:
                continue
            if arg == 'price':
                u = 'storage_price' if s['type'] == 'Storage' else 'contract_price'
            elif arg == 'costs_time_series':
                u = 'transport_costs'
            elif arg in ('min_cap', 'max_cap'):
                u = 'vector'
            else:
                continue
            uses.setdefault(v, set()).add(u)
    return uses


def draw_forms(rnd, case, p_plain=0.35, p_frame=0.15):
    """draws the form of every series of the case (and whether the whole data goes in as a DataFrame) among those the unchanged
    code accepts for the uses of the series; a series given in an integer form is rounded to whole numbers in the case record.
    Drawn AFTER everything else of the case, from the case's own generator."""
    uses = key_uses(case)
    forms = {}
    frame = None
    if rnd.random() < p_frame:
        idx = set(['range', 'timepoints'])
        for us in uses.values():
            for u in us:
                idx &= set(FRAME_INDEX[u])
        frame = rnd.choice(sorted(idx))
    for k in sorted(case['prices']):
        ok = [f for f in FLOAT_FORMS + INT_FORMS if all(f in ACCEPTS[u] for u in uses.get(k, []))]
        if frame is not None:
            ok = ARRAY_FORMS                                       # a column of the frame: only its dtype matters
        form = 'f8' if rnd.random() < p_plain else rnd.choice(ok)
        if form in INT_FORMS:
            case['prices'][k] = [int(round(v)) for v in case['prices'][k]]
        forms[k] = form
    case['forms'] = forms
    case['frame'] = frame
    return case


def one_series(values, form):
    if form == 'f8':
        return np.asarray(values, dtype=float)
    if form == 'i8':
        return np.asarray(values, dtype=np.int64)
    if form == 'i4':
        return np.asarray(values, dtype=np.int32)
    if form == 'list_float':
        return [float(v) for v in values]
    if form == 'list_int':
        return [int(v) for v in values]
    if form == 'series':
        return pd.Series(np.asarray(values, dtype=float))
    if form == 'series_int':
        return pd.Series(np.asarray(values, dtype=np.int64))
    raise ValueError('unknown form of a series: %r' % (form,))


def make_prices(case, tg):
    """the data of the case in the drawn forms, as handed to the REAL code (fresh objects on every call: nothing is shared with
    the reference, which works on its own float arrays made from the case record)"""
    forms = case.get('forms') or {}
    for k, f in forms.items():
        if f in INT_FORMS and any(v != int(v) for v in case['prices'][k]):
            raise ValueError('series %s in integer form %s is not whole-numbered' % (k, f))
    if case.get('frame'):
        # columns of a frame: only the dtype of the form matters
        d = {k: one_series(v, 'i4' if forms.get(k) == 'i4' else 'i8' if forms.get(k) in INT_FORMS else 'f8') for k, v in case['prices'].items()}
        return pd.DataFrame(d, index=tg.timepoints if case['frame'] == 'timepoints' else None)
    return {k: one_series(v, forms.get(k, 'f8')) for k, v in case['prices'].items()}


def prices_changed(case, tg, prices):
    """None, or what the set-up did to the caller's data (compared with the same data made afresh: type, dtype, index, values)"""
    fresh = make_prices(case, tg)
    if type(prices) is not type(fresh) or list(prices) != list(fresh):
        return 'the price data is a %s with keys %s after the set-up (given: %s with keys %s)' % (
            type(prices).__name__, list(prices)[:6], type(fresh).__name__, list(fresh)[:6])
    if isinstance(fresh, pd.DataFrame) and not prices.index.equals(fresh.index):
        return 'the index of the price frame differs after the set-up'
    for k in fresh:
        a, b = prices[k], fresh[k]
        if type(a) is not type(b):
            return 'series %s is a %s after the set-up (given: %s)' % (k, type(a).__name__, type(b).__name__)
        if isinstance(b, list):
            same = len(a) == len(b) and all(type(x) is type(y) and x == y for x, y in zip(a, b))
        elif isinstance(b, pd.Series):
            same = a.dtype == b.dtype and a.index.equals(b.index) and np.array_equal(a.values, b.values)
        else:
            same = a.dtype == b.dtype and a.shape == b.shape and np.array_equal(a, b)
        if not same:
            return 'series %s (form %s) differs after the set-up: %s (given: %s)' % (
                k, (case.get('forms') or {}).get(k, 'f8'), list(a)[:8], list(b)[:8])
    return None


def focus_series_form(case):
    """form of the focus asset's price / cost series (None: it has none)"""
    a = case['focus']['args']
    k = a.get('price') if isinstance(a.get('price'), str) else a.get('costs_time_series')
    if not isinstance(k, str):
        return None
    f = (case.get('forms') or {}).get(k, 'f8')
    return f if not case.get('frame') else 'frame[%s]:%s' % (case['frame'], f)


def cases(seed, n):
    rnd = random.Random(seed * 104729 + 13)
    for i in range(n):
        yield 'gen%d' % i, gen_case(random.Random(rnd.getrandbits(48)))
    # fine steps of unequal length inside one coarse step (23/25-hour days under a coarser frequency), optimised
    for i in range(max(4, n // 12)):
        yield 'dst%d' % i, gen_case(random.Random(rnd.getrandbits(48)), oracle=True, kind='freq', dst=True)
    for i in range(max(6, n // 12)):
        yield 'straddle%d' % i, gen_case(random.Random(rnd.getrandbits(48)), oracle=True, kind='freq', straddle=True)
    # every class that accepts the periodicity option really repeats (also the derived ones that rely on their parent for it)
    for i in range(max(6, n // 10)):
        r1 = random.Random(rnd.getrandbits(48))
        yield 'pertype%d' % i, gen_case(r1, oracle=True, kind=r1.choice(['per', 'perdur']), atype=TYPES[i % len(TYPES)])
    # coarse assets of every type whose (whole-coarse-step) window starts / ends strictly inside the horizon, with a strongly
    # varying price / cost series: what the asset pays in its last (first) coarse interval must not depend on the steps outside
    for i in range(max(36, n // 5)):
        yield 'window%d' % i, gen_window_case(random.Random(rnd.getrandbits(48)), atype=TYPES[i % len(TYPES)])
    # grids with ONE step and with two steps for every periodic asset type: the asset must build (fixed finding F-13l: a single
    # step raised AttributeError without a duration) and equal the fine problem (one step: nothing to merge)
    # (blocks of all types: one step / two steps, without / with a duration)
    for i in range(max(24, n // 13)):
        b = i // len(TYPES)
        yield 'tiny%d' % i, gen_case(random.Random(rnd.getrandbits(48)), oracle=True, kind='per' if (b // 2) % 2 == 0 else 'perdur',
                                     atype=TYPES[i % len(TYPES)], dst=False, steps=1 + b % 2)
    # probe: anchored period (weeks) on grids that start on any weekday (finding F-13m)
    for i in range(max(12, n // 16)):
        yield 'anchor%d' % i, gen_anchor_case(random.Random(rnd.getrandbits(48)), atype=TYPES[i % len(TYPES)])


# ------------------------------------------------------------------ running the implementation with recorders
def focus_spec(case, opt):
    s = copy.deepcopy(case['focus'])
    s['args'].update(opt)
    return s


class Recorder:
    """records every call of the two methods (arguments before, result after)"""

    def __init__(self):
        self.per = []
        self.ext = []

    def __enter__(self):
        rec = self
        self._mp = OptimProblem.__make_periodic__
        self._ex = Asset.__extend_mapping_to_minor_grid__
        orig_mp, orig_ex = self._mp, self._ex

        def mp(self_op, freq_period, freq_duration, timegrid):
            entry = {'freq_period': freq_period, 'freq_duration': freq_duration}
            before = copy.deepcopy(self_op)
            entry['before'] = problem_json(before)
            tz = timegrid.tz
            tp = timegrid.timepoints
            entry['pts'] = [instant(p, tz) for p in tp]
            entry['idx'] = [int(i) for i in timegrid.I]
            try:
                entry['bounds'] = boundaries(tp, tz, freq_period, freq_duration, end=timegrid.end)
            except Exception as e:
                entry['bounds'] = {'err': err_class(e)}
            real_merge = pd.merge
            seen = []

            def merge(left, right, *a, **kw):
                seen.append(right.copy())
                return real_merge(left, right, *a, **kw)
            pd.merge = merge
            try:
                orig_mp(self_op, freq_period=freq_period, freq_duration=freq_duration, timegrid=timegrid)
                entry['after'] = problem_json(self_op)
            except Exception as e:
                entry['after'] = {'err': err_class(e)}
                raise
            finally:
                pd.merge = real_merge
                if seen:
                    df = seen[0]
                    entry['labels'] = [[int(r.dur), int(r.per), int(r.sub_per)] for r in df.itertuples()]
                rec.per.append(entry)

        def ex(self_asset, mapping):
            entry = {'arg': mapping_rows(mapping.copy()), 'has_factor': 'disp_factor' in mapping.columns}
            tgd = self_asset.timegrid
            r = tgd.restricted
            entry['coarse'] = {'grid': grid_json(r, tgd.tz), 'minor': [[int(i) for i in I] for I in r.I_minor_in_major]}
            entry['dt_fine'] = [fs(v) for v in tgd.dt]
            try:
                res = orig_ex(self_asset, mapping)
                entry['res'] = mapping_rows(res)
            except Exception as e:
                entry['res'] = {'err': err_class(e)}
                raise
            finally:
                rec.ext.append(entry)
            return res
        OptimProblem.__make_periodic__ = mp
        Asset.__extend_mapping_to_minor_grid__ = ex
        return self

    def __exit__(self, *exc):
        OptimProblem.__make_periodic__ = self._mp
        Asset.__extend_mapping_to_minor_grid__ = self._ex
        return False


def raw_boundaries(tp, tz, freq_period, freq_duration, end=None):
    """lines 98-104 of optimization.py: the raw boundaries (before the early start is dropped), as pandas gives them.
    Without a duration the code takes [tp[0], end + (end - tp[0])] with the END OF THE GRID (it lies after the first point
    also when the grid has a single step; the former tp[-1] + (tp[-1] - tp[0]) did not: fixed finding F-13l)."""
    try:
        periods = pd.date_range(tp[0] - pd.Timedelta(1, freq_period), tp[-1] + pd.Timedelta(1, freq_period), freq=freq_period, tz=tz)
    except Exception:
        periods = pd.date_range(tp[0] - pd.Timedelta(freq_period), tp[-1] + pd.Timedelta(freq_period), freq=freq_period, tz=tz)
    if freq_duration is None:
        durations = None   # the model applies the code's rule itself (`wholeDuration`: [tp[0], end + (end - tp[0])])
    else:
        try:
            durations = pd.date_range(tp[0] - pd.Timedelta(1, freq_duration), tp[-1] + pd.Timedelta(1, freq_duration), freq=freq_duration, tz=tz)
        except Exception:
            durations = pd.date_range(tp[0] - pd.Timedelta(freq_duration), tp[-1] + pd.Timedelta(freq_duration), freq=freq_duration, tz=tz)
    return periods, durations


def boundaries(tp, tz, freq_period, freq_duration, end=None):
    """the same as instants for the model (`durations` None: whole horizon by the model's own rule, only when no grid end is given)"""
    periods, durations = raw_boundaries(tp, tz, freq_period, freq_duration, end)
    return {'periods': [instant(p, tz) for p in periods], 'durations': None if durations is None else [instant(p, tz) for p in durations],
            'end': None if end is None else instant(end, tz)}


def build_one(case, opt):
    """(asset, timegrid, prices) for the focus asset with the given options"""
    tg = scen.make_grid(case['grid'])
    nodes = scen.make_nodes(case['nodes'])
    a = scen.build_asset(focus_spec(case, opt), nodes)
    prices = make_prices(case, tg)          # in the forms drawn for the case
    return a, tg, prices


def setup_json(case, opt, record=False):
    a, tg, prices = build_one(case, opt)
    rec = Recorder()
    try:
        with Quiet(), rec:
            op = a.setup_optim_problem(prices, tg)
        out = problem_json(op, name=a.name, nodes=[n.name for n in a.nodes])
    except Exception as e:
        out = {'err': err_class(e), 'msg': str(e)[:120]}
    ch = prices_changed(case, tg, prices)
    if ch is not None:
        out['input_changed'] = ch
    return out, rec


def run_impl(case):
    opt = case['opt']
    r = {}
    r['with'], rec = setup_json(case, opt)
    r['per'] = rec.per
    r['ext'] = rec.ext
    if 'periodicity' in opt:
        o2 = {k: v for k, v in opt.items() if not k.startswith('periodicity')}
        r['without_per'], _ = setup_json(case, o2)
    return r


# ------------------------------------------------------------------ model requests and comparison
def asset_req(pj):
    d = {k: pj[k] for k in ('c', 'l', 'u', 'rows', 'mapping')}
    d['name'] = pj.get('name', 'X')
    d['nodes'] = pj.get('nodes', [])
    return d


def request(case, impl_result):
    """list of (tag, request) for the driver"""
    reqs = []
    for i, e in enumerate(impl_result['ext']):
        reqs.append(('ext%d' % i, {'op': 'extend_minor', 'mapping': e['arg'], 'coarse': e['coarse'], 'dt_fine': e['dt_fine']}))
    for i, e in enumerate(impl_result['per']):
        if 'err' in e['bounds']:
            continue
        reqs.append(('lab%d' % i, {'op': 'step_labels', 'pts': e['pts'], 'periods': e['bounds']['periods'],
                                   'durations': e['bounds']['durations'], 'end': e['bounds']['end'], 'raw': True}))
    return reqs


def cmp_maprows(name, model, implrows, exact_round=False, tol=TOL):
    if len(model) != len(implrows):
        return ['%s: %d mapping rows (model) vs %d (impl)' % (name, len(model), len(implrows))]
    for i, (x, y) in enumerate(zip(model, implrows)):
        for f in ('var', 'asset', 'node', 'kind', 'step', 'bool', 'var_name'):
            if x[f] != y[f]:
                return ['%s row %d: %s = %r (model) vs %r (impl)' % (name, i, f, x[f], y[f])]
        fx, fy = Fraction(x['factor']), Fraction(y['factor'])
        if exact_round:
            # the implementation divides two floats: the correctly rounded exact quotient
            if float(fx) != float(fy):
                return ['%s row %d (var %d step %d): factor %r (model, rounded) vs %r (impl)' % (name, i, x['var'], x['step'], float(fx), float(fy))]
        elif not pf.feq(fx, fy, tol):
            return ['%s row %d (var %d step %d): factor %r (model) vs %r (impl)' % (name, i, x['var'], x['step'], float(fx), float(fy))]
    return []


def cmp_asset(name, model, implj, tol=TOL):
    out = []
    for v in ('c', 'l', 'u'):
        d = pf.cmp_vec('%s.%s' % (name, v), model[v], implj[v], tol)
        if d:
            out.append(d)
    d = pf.cmp_rows(name + '.rows', model['rows'], implj['rows'], tol, ordered=True)
    if d:
        out.append(d)
    out += cmp_maprows(name + '.mapping', model['mapping'], implj['mapping'], tol=tol)
    return out


def neg_label(pj):
    return False  # negative labels cannot be produced by mapping_rows without raising; see run_periodic


def compare(case, impl_result, drv):
    """runs the model on everything recorded and returns the list of disagreements"""
    dis = []
    # --- coarse frequency
    for i, e in enumerate(impl_result['ext']):
        m = drv.ok({'op': 'extend_minor', 'mapping': e['arg'], 'coarse': e['coarse'], 'dt_fine': e['dt_fine']})
        if 'err' in m or 'err' in e['res']:
            if ('err' in m) != ('err' in e['res']) or m.get('err') != e['res'].get('err'):
                dis.append('extend_minor call %d: %s (model) vs %s (impl)' % (i, m.get('err', 'ok'), e['res'].get('err', 'ok') if isinstance(e['res'], dict) else 'ok'))
            continue
        dis += cmp_maprows('extend_minor call %d' % i, m['mapping'], e['res'], exact_round=not e['has_factor'], tol=1e-12)
    # --- periodicity
    model_labels = None
    for i, e in enumerate(impl_result['per']):
        if 'err' in e['bounds']:
            if 'err' not in e['after']:
                dis.append('periodic call %d: boundaries raise %s in the harness but the code went through' % (i, e['bounds']['err']))
            continue
        lab = drv.ok({'op': 'step_labels', 'pts': e['pts'], 'periods': e['bounds']['periods'], 'durations': e['bounds']['durations'], 'end': e['bounds']['end'], 'raw': True})
        if not lab['equal_spacing']:
            if 'err' not in e['after']:
                dis.append('periodic call %d: periods of unequal length accepted by the code' % i)
            continue
        if 'labels' not in e:
            dis.append('periodic call %d: code raised %s before building labels' % (i, e['after'].get('err')))
            continue
        if lab['labels'] != e['labels']:
            k = next((j for j, (x, y) in enumerate(zip(lab['labels'], e['labels'])) if x != y), None)
            dis.append('step_labels call %d: first difference at step %s: %s (model) vs %s (impl)' % (
                i, k, lab['labels'][k] if k is not None else len(lab['labels']), e['labels'][k] if k is not None else len(e['labels'])))
            continue
        model_labels = lab['labels']
        if e['idx'] != list(range(len(e['idx']))):
            dis.append('periodic call %d: grid index is not 0..T-1 (labels are joined on the index)' % i)
            continue
        m = drv.ok({'op': 'periodic', 'problem': asset_req(e['before']), 'labels': lab['labels']})
        dis += cmp_periodic('periodic call %d' % i, m, e['after'])
        e['model_out'] = m.get('out')
        e['partition'] = m.get('partition')
    # --- with vs without (same object parameters, option removed)
    w, wo = impl_result['with'], impl_result.get('without_per')
    if wo is not None and model_labels is not None and 'err' not in wo:
        m = drv.ok({'op': 'periodic', 'problem': asset_req(wo), 'labels': model_labels})
        dis += cmp_periodic('periodic(without) vs with', m, w)
    return dis


def cmp_periodic(name, m, after):
    if 'err' not in after and any(r['var'] < 0 for r in after['mapping']):
        after = {'err': 'chain'}   # no exception in the code: the mapping index holds -1
    if 'err' in m or 'err' in after:
        me, ie = m.get('err', 'ok'), after.get('err', 'ok')
        if me != ie:
            return ['%s: %s (model) vs %s (impl)' % (name, me, ie)]
        return []
    out = cmp_asset(name, m['problem'], after)
    if not m.get('generic', True):
        out.append('%s: model result differs from the generic merge along its leader map (C13.merge_columns does not apply)' % name)
    return out


# ------------------------------------------------------------------ oracles on the real code
def coarse_intervals(case, tg, asset):
    """fine steps per coarse interval, recomputed from the window and the frequency (not from the code's tables)"""
    tz = tg.tz
    s = asset.start if asset.start is not None else tg.start
    e = asset.end if asset.end is not None else tg.end
    s, e = pd.Timestamp(s), pd.Timestamp(e)
    if s.tzinfo is None:
        s = s.tz_localize(tz) if tz else s
    if e.tzinfo is None:
        e = e.tz_localize(tz) if tz else e
    cuts = pd.date_range(start=s, end=e, freq=case['opt']['freq'], tz=tz)
    tp = tg.timepoints
    out = []
    for a, b in zip(cuts[:-1], cuts[1:]):
        out.append([int(i) for i in np.where((tp >= a) & (tp < b))[0]])
    active = [int(i) for i in np.where((tp >= s) & (tp < e))[0]]
    return out, active, cuts


def active_steps(tg, asset):
    tz = tg.tz
    s = pd.Timestamp(asset.start if asset.start is not None else tg.start)
    e = pd.Timestamp(asset.end if asset.end is not None else tg.end)
    if s.tzinfo is None and tz:
        s = s.tz_localize(tz)
    if e.tzinfo is None and tz:
        e = e.tz_localize(tz)
    tp = tg.timepoints
    return [int(i) for i in np.where((tp >= s) & (tp < e))[0]]


def period_lead(tg, freq_period):
    """number of grid steps that fit between the begin (anchor) of the period the first grid step lies in and the first grid
    step: 0 when the grid starts on a period boundary - always so for plain lengths ('d', '4h': boundaries are counted from the
    first grid point), not for anchored frequencies ('W': Sundays)"""
    tp = tg.timepoints
    periods, _ = raw_boundaries(tp, tg.tz, freq_period, None)
    before = [p for p in periods if p <= tp[0]]
    if not before:
        return 0
    return sum(1 for x in pd.date_range(max(before), tp[0], freq=tg.freq, tz=tg.tz) if x < tp[0])


def step_labels_py(tg, freq_period, freq_duration):
    """labels per step from the harness' own reading of the statement ("the same position of every period within a duration"):
    (duration counter, position in the period), the position counted BY THE CLOCK = number of grid steps since the begin of the
    period, also for a first period that began before the grid (used by the oracle only; the model's `stepLabels` is compared
    with the code in `compare` - the code counts the positions of a partial first period from the grid start, finding F-13m)"""
    tp = tg.timepoints
    periods, durations = raw_boundaries(tp, tg.tz, freq_period, freq_duration, end=tg.end)
    if durations is None:
        durations = [tp[0]]     # no duration given: the whole horizon is ONE duration
    labels = []
    last_p, cnt = None, 0
    for t in tp:
        d = sum(1 for x in durations if x <= t)
        p = sum(1 for x in periods if x <= t)
        if p != last_p:
            cnt = period_lead(tg, freq_period) if last_p is None else 0
            last_p = p
        labels.append((d, cnt))
        cnt += 1
    return labels


def patch_setup(asset, modify):
    orig = asset.setup_optim_problem

    def wrapped(*args, **kw):
        op = orig(*args, **kw)
        if kw.get('costs_only', False) or (len(args) > 2 and args[2]):
            return op
        return modify(op)
    asset.__dict__['setup_optim_problem'] = wrapped


def add_rows(op, rows):
    """rows: list of dict {col: coeff}; all of type 'S' with rhs 0"""
    if not rows:
        return op
    n = len(op.c)
    A = sp.lil_matrix((len(rows), n))
    for i, r in enumerate(rows):
        for j, v in r.items():
            A[i, j] = v
    if op.A is None:
        op.A, op.b, op.cType = A, np.zeros(len(rows)), 'S' * len(rows)
    else:
        op.A = sp.vstack((sp.lil_matrix(op.A), A))
        op.b = np.hstack((op.b, np.zeros(len(rows))))
        op.cType = op.cType + 'S' * len(rows)
    return op


def first_rows(mapping):
    return mapping[~mapping.index.duplicated(keep='first')]


def classes_by_keys(keys_of_var):
    """union-find over variables sharing a key"""
    parent = {}

    def find(x):
        while parent.setdefault(x, x) != x:
            parent[x] = parent[parent[x]]
            x = parent[x]
        return x
    bykey = {}
    for v, ks in keys_of_var.items():
        find(v)
        for k in ks:
            if k in bykey:
                ra, rb = find(bykey[k]), find(v)
                if ra != rb:
                    parent[max(ra, rb)] = min(ra, rb)
            else:
                bykey[k] = v
    cl = {}
    for v in keys_of_var:
        cl.setdefault(find(v), []).append(v)
    return [sorted(c) for c in cl.values()]


def reference_portfolio(case):
    """the SAME portfolio with the focus asset replaced by its ordinary fine version plus explicit equalities.
    Its data are float arrays made here from the case record (never the objects handed to the real portfolio), whatever the
    form in which the real code gets them."""
    tg = scen.make_grid(case['grid'])
    prices = {k: np.asarray(v, dtype=float) for k, v in case['prices'].items()}
    nodes = scen.make_nodes(case['nodes'])
    ref, info = reference_asset(case, tg, prices, nodes)
    others = [scen.build_asset(s, nodes) for s in case['others']]
    return Portfolio([ref] + others), tg, prices, info


def reference_asset(case, tg, prices, nodes):
    """the ordinary fine version of `case['focus']` (options `case['opt']` left out) whose set-up adds the equalities of the
    options explicitly: same rate within each coarse interval, same dispatch at the same position (by the clock) of every period
    within a duration block.  `prices` (float arrays of the reference) receives the averaged series of a coarse asset under
    'mean_<key>'.  Returns (asset, info); used once per asset when a portfolio holds several assets with options
    (comp/multiper.py), each with its OWN labels."""
    opt = case['opt']
    info = {}
    spec = copy.deepcopy(case['focus'])
    dtf = np.asarray(tg.dt, dtype=float)
    ivs = None
    probe = scen.build_asset(focus_spec(case, {}), nodes)
    info['active'] = active_steps(tg, probe)
    info['covered'] = info['active']
    if 'freq' in opt:
        ivs, active, cuts = coarse_intervals(case, tg, probe)
        info['covered'] = sorted(i for I in ivs for i in I)
        info['intervals'] = ivs
        # prices replaced by the plain mean over each coarse interval
        for key in ('price', 'costs_time_series', 'min_cap', 'max_cap'):
            k = spec['args'].get(key)
            if isinstance(k, str):
                arr = prices[k].copy()
                for I in ivs:
                    if I:
                        arr[I] = arr[I].mean()
                prices['mean_' + k] = arr
                spec['args'][key] = 'mean_' + k
    ref = scen.build_asset(spec, nodes)
    labels = None
    if 'periodicity' in opt:
        labels = step_labels_py(tg, opt['periodicity'], opt.get('periodicity_duration'))
        info['labels'] = labels
        info['period_lead'] = period_lead(tg, opt['periodicity'])

    def modify(op):
        m = op.mapping
        if len(m) == 0:
            return op
        rows = []
        fr = first_rows(m)
        if ivs is not None:
            where = {}
            for k, I in enumerate(ivs):
                for t in I:
                    where[t] = k
            groups = {}
            for v, r in zip(fr.index, fr.to_dict('records')):
                if r['type'] != 'd' or impl.isnan(r.get('node')):
                    continue
                k = where.get(int(r['time_step']))
                if k is None:
                    continue
                groups.setdefault((r['var_name'], k), []).append((int(v), int(r['time_step'])))
            for g in groups.values():
                v0, t0 = g[0]
                for v, t in g[1:]:
                    rows.append({v: dtf[t0], v0: -dtf[t]})   # x_v/dt_t = x_v0/dt_t0
        if labels is not None:
            keys = {}
            for v, r in zip(m.index, m.to_dict('records')):
                if impl.isnan(r.get('node')):
                    keys.setdefault(int(v), [])
                    continue
                keys.setdefault(int(v), []).append((r['node'], r['type'], r['var_name']) + tuple(labels[int(r['time_step'])]))
            cls = classes_by_keys(keys)
            l, u = op.l.copy(), op.u.copy()
            for c in cls:
                if len(c) > 1:
                    op.l[c] = l[c].mean()
                    op.u[c] = u[c].mean()
                    for v in c[1:]:
                        rows.append({v: 1.0, c[0]: -1.0})
            info['classes'] = [c for c in cls if len(c) > 1]
        return add_rows(op, rows)
    patch_setup(ref, modify)
    return ref, info


def real_portfolio(case):
    tg = scen.make_grid(case['grid'])
    prices = make_prices(case, tg)          # in the forms drawn for the case; the reference has its own float arrays
    nodes = scen.make_nodes(case['nodes'])
    a = scen.build_asset(focus_spec(case, case['opt']), nodes)
    others = [scen.build_asset(s, nodes) for s in case['others']]
    return Portfolio([a] + others), tg, prices


def solve_portfolio(portf, tg, prices, solver='SCIPY'):
    with Quiet():
        op = portf.setup_optim_problem(prices, tg)
    res = impl.solve(op, solver=solver)
    if isinstance(res, str):
        return op, res, None
    with Quiet():
        out = eao.io.extract_output(portf, op, res, prices)
    return op, res, out


def kind_facts(case, info):
    """classification of a violation by the known deviations"""
    opt = case['opt']
    t = case['focus']['type']
    if 'freq' in opt and info.get('active') is not None and set(info['covered']) != set(info['active']):
        return 'coarse_remainder'
    if 'freq' in opt and not case.get('uniform_dt', True) and ('max_take' in case['focus']['args'] or 'min_take' in case['focus']['args']):
        return 'coarse_take_first_minor'
    if 'periodicity' in opt and info.get('period_lead', 0) > 0:
        # anchored period ('W'), grid not starting on the anchor: the first period is partial and began before the grid
        return 'anchored_period_lead'
    a_ = case['focus']['args']
    if 'freq' in opt and a_.get('wacc'):
        return 'coarse_wacc'
    if 'freq' in opt and (isinstance(a_.get('min_cap'), str) or isinstance(a_.get('max_cap'), str)):
        return 'coarse_varying_limits'
    if 'freq' in opt and a_.get('cost_store'):
        return 'coarse_cost_store'
    if 'freq' in opt and 'periodicity' in opt:
        step = td(case['grid']['freq'])
        c = td(opt['freq']) / step
        p = td(opt['periodicity']) / step
        d = td(opt['periodicity_duration']) / step if opt.get('periodicity_duration') else p
        if p % c != 0 or d % c != 0:
            return 'both_misaligned'
    return 'other'


def oracle(case, impl_result=None):
    """violations of C13 on the real code: {oracle, detail, facts}"""
    viol = []
    opt = case['opt']
    feats = []
    try:
        portf, tg, prices = real_portfolio(case)
        op, res, out = solve_portfolio(portf, tg, prices)
    except Exception as e:
        return [], ['real-setup-error:' + err_class(e)]
    if out is None:
        return [], ['real-unsolved:' + str(res)]
    ch = prices_changed(case, tg, prices)
    if ch is not None:
        feats.append('input-changed')
        if impl_result is not None:
            impl_result['with'].setdefault('input_changed', ch)
    try:
        rportf, rtg, rprices, info = reference_portfolio(case)
        rop, rres, rout = solve_portfolio(rportf, rtg, rprices)
    except Exception as e:
        return [], ['ref-setup-error:' + err_class(e) + ':' + str(e)[:60]]
    kind = kind_facts(case, info)
    facts = {'kind': kind, 'asset_type': case['focus']['type'], 'opt': sorted(opt), 'series_form': focus_series_form(case)}
    if facts['series_form'] is not None:
        feats.append('form:' + facts['series_form'])
        a_ = case['focus']['args']
        k_ = a_.get('price') if isinstance(a_.get('price'), str) else a_.get('costs_time_series')
        if 'freq' in opt and (case.get('forms') or {}).get(k_) in INT_FORMS and any(
                I and float(np.mean([case['prices'][k_][t] for t in I])) % 1 != 0 for I in info['intervals']):
            feats.append('int-series-nonwhole-coarse-mean')
    cols = [c for (a, n), c in impl.disp_cols(portf).items() if a == 'X']
    disp = out['dispatch']
    dtf = np.asarray(tg.dt, dtype=float)
    scale = max(1.0, float(np.abs(disp[cols].values).max()) if len(cols) else 1.0)
    nontrivial = bool(np.abs(disp[cols].values).max() > 1e-7) if len(cols) else False
    feats.append('nontrivial' if nontrivial else 'trivial')
    if 'freq' in opt:
        for col in cols:
            v = disp[col].values.astype(float)
            for I in info['intervals']:
                if len(I) > 1:
                    rate = v[I] / dtf[I]
                    if np.abs(rate - rate[0]).max() > 2e-6 * scale:
                        viol.append({'oracle': 'coarse_constant_rate', 'detail': 'column %s: rates %s within coarse interval of steps %s' % (
                            col, np.round(rate, 6).tolist()[:8], I[:8]), 'facts': facts})
                        break
            else:
                continue
            break
    if 'periodicity' in opt:
        labels = info['labels']
        act = info.get('covered')
        for col in cols:
            v = disp[col].values.astype(float)
            seen = {}
            bad = None
            for t, lab in enumerate(labels):
                if act is not None and t not in act:
                    continue
                if lab in seen and abs(v[t] - v[seen[lab]]) > 2e-6 * scale:
                    bad = (seen[lab], t, lab)
                    break
                seen.setdefault(lab, t)
            if bad:
                f_ = dict(facts)
                if kind == 'anchored_period_lead':
                    # steps of the partial first period: up to the first step with position 0
                    n_lead = next((t for t, lab in enumerate(labels) if lab[1] == 0), len(labels))
                    f_['in_first_period'] = bool(bad[0] < n_lead)
                    if not f_['in_first_period']:
                        f_['kind'] = 'other'
                viol.append({'oracle': 'periodic_repeats', 'detail': 'column %s: dispatch %.6g at step %d vs %.6g at step %d, both (duration, position by the clock) = %s' % (
                    col, v[bad[0]], bad[0], v[bad[1]], bad[1], bad[2]), 'facts': f_})
                break
    if rout is None:
        viol.append({'oracle': 'value_vs_fine_with_equalities', 'detail': 'reference problem (fine + equalities) %s while the real problem has value %.8g' % (rres, res.value),
                     'facts': facts})
    else:
        tol = 1e-6 * max(1.0, abs(res.value), abs(rres.value))
        if abs(res.value - rres.value) > tol:
            viol.append({'oracle': 'value_vs_fine_with_equalities', 'detail': 'value %.10g (real) vs %.10g (fine problem plus equalities)' % (res.value, rres.value),
                         'facts': facts})
        feats.append('value-compared')
    return viol, feats


def oracle_builds(case, with_err):
    """the set-up of the focus asset with its options RAISED.  A violation of C13 ("this works for every asset type that accepts
    the options") when the case is one the statement covers - periodicity without a coarse frequency, period boundaries of equal
    length (the documented requirement; unequal ones are rejected on purpose) - and the fine problem with the equalities added
    explicitly exists and is solved.  Everything else is left unjudged (feature only)."""
    opt = case['opt']
    if 'periodicity' not in opt or 'freq' in opt:
        return [], ['setup-error-unjudged:' + with_err.get('err', '?')]
    try:
        tg = scen.make_grid(case['grid'])
        tp = tg.timepoints
        per, _ = raw_boundaries(tp, tg.tz, opt['periodicity'], opt.get('periodicity_duration'), end=tg.end)
        per = list(per)
        if len(per) > 1 and per[1] <= tp[0]:
            per = per[1:]
        d = [b - a for a, b in zip(per[:-1], per[1:])]
        if not all(x == d[0] for x in d):
            return [], ['rejected:unequal-periods']
    except Exception as e:
        return [], ['rejected:boundaries-' + err_class(e)]
    try:
        rportf, rtg, rprices, info = reference_portfolio(case)
        rop, rres, rout = solve_portfolio(rportf, rtg, rprices)
    except Exception as e:
        return [], ['ref-setup-error:' + err_class(e) + ':' + str(e)[:60]]
    if rout is None:
        return [], ['ref-unsolved:' + str(rres)]
    facts = {'kind': kind_facts(case, info), 'asset_type': case['focus']['type'], 'opt': sorted(opt), 'steps': int(tg.T),
             'error': with_err.get('err')}
    return [{'oracle': 'periodic_builds', 'facts': facts,
             'detail': 'set-up of the periodic %s (%s) on a grid of %d step(s) raises %s: %s; the fine problem with the equalities exists and has value %.8g' % (
                 case['focus']['type'], ', '.join('%s=%s' % kv for kv in sorted(opt.items())), tg.T, with_err.get('err'), with_err.get('msg', ''), rres.value)}], ['builds-judged']


# ------------------------------------------------------------------ synthetic (partly malformed) inputs, methods called directly
def gen_synthetic(rnd):
    T = rnd.randint(2, 10)
    n = rnd.randint(2, 8)
    mode = rnd.choice(['plain', 'multi', 'multi', 'nan', 'factor', 'oob', 'two_assets'])
    rows = []
    for v in range(n):
        k = 1 if mode == 'plain' else rnd.choice([1, 1, 2, 3])
        for _ in range(k):
            r = {'var': v, 'step': rnd.randrange(T) if mode != 'plain' else v % T, 'node': 'n1', 'asset': 'a', 'type': 'd',
                 'var_name': 'x', 'factor': 1.0}
            if mode in ('multi', 'nan', 'two_assets') and rnd.random() < 0.3:
                r['node'] = 'n2'
            if mode == 'nan' and rnd.random() < 0.3:
                r['node'] = None
                r['type'] = 'i'
            if mode == 'two_assets' and rnd.random() < 0.4:
                r['asset'] = 'b'
            if rnd.random() < 0.15:
                r['var_name'] = 'y'
            if mode == 'factor':
                r['factor'] = rnd.choice([1.0, 1.0, 0.5, -1.0])
            if mode == 'oob' and rnd.random() < 0.15:
                r['var'] = n + rnd.randrange(2)
            rows.append(r)
    rnd.shuffle(rows) if rnd.random() < 0.3 else None
    m = rnd.randint(0, 3)
    A = [[(q8(rnd, -2, 2) if rnd.random() < 0.6 else 0.0) for _ in range(n)] for _ in range(m)]
    return {'synthetic': True, 'T': T, 'n': n, 'rows': rows, 'has_factor': mode in ('factor',) or rnd.random() < 0.3,
            'c': [q8(rnd, -4, 4) for _ in range(n)], 'l': [q8(rnd, -4, 0) for _ in range(n)], 'u': [q8(rnd, 0, 4) for _ in range(n)],
            'A': A, 'b': [q8(rnd, -4, 4) for _ in range(m)], 'cType': ''.join(rnd.choice('ULS') for _ in range(m)),
            'per': rnd.choice(['2h', '3h', '4h']), 'dur': rnd.choice([None, None, '4h', '6h']), 'mode': mode}


def run_synthetic(case):
    import datetime as dt
    tg = eao.Timegrid(dt.datetime(2021, 1, 1), dt.datetime(2021, 1, 1) + dt.timedelta(hours=case['T']), freq='h')
    rows = case['rows']
    mp = pd.DataFrame({'time_step': [r['step'] for r in rows], 'node': [r['node'] if r['node'] is not None else np.nan for r in rows],
                       'asset': [r['asset'] for r in rows], 'type': [r['type'] for r in rows], 'var_name': [r['var_name'] for r in rows]},
                      index=[r['var'] for r in rows])
    if case['has_factor']:
        mp['disp_factor'] = [r['factor'] for r in rows]
    A = sp.lil_matrix(np.asarray(case['A'], dtype=float)) if case['A'] else None
    rec = Recorder()
    res = {'ext': []}
    try:
        with Quiet(), rec:
            op = OptimProblem(c=np.asarray(case['c']), l=np.asarray(case['l']), u=np.asarray(case['u']), A=A,
                              b=np.asarray(case['b']) if case['A'] else None, cType=case['cType'] if case['A'] else None,
                              mapping=mp, timegrid=tg, periodic_period_length=case['per'], periodic_duration=case['dur'])
        res['with'] = {'ok': True}
    except Exception as e:
        res['with'] = {'err': err_class(e)}
    res['per'] = rec.per
    return res


def gen_synth_extend(rnd):
    T = rnd.choice([4, 6, 8, 9, 12])
    freq = rnd.choice(['2h', '3h', '4h'])
    k = rnd.randint(1, 6)
    return {'T': T, 'freq': freq, 'has_factor': rnd.random() < 0.5,
            'rows': [{'var': rnd.randrange(4), 'step': rnd.randrange(T) if rnd.random() < 0.25 else None, 'pos': rnd.randrange(8),
                      'factor': rnd.choice([1.0, 0.5, -1.0, 2.0]), 'node': rnd.choice(['n1', 'n2', None])} for _ in range(k)] if rnd.random() < 0.95 else []}


def run_synth_extend(case):
    import datetime as dt
    tg = eao.Timegrid(dt.datetime(2021, 1, 1), dt.datetime(2021, 1, 1) + dt.timedelta(hours=case['T']), freq='h')
    a = eao.assets.SimpleContract(name='a', nodes=eao.Node('n1'), min_cap=-1, max_cap=1, freq=case['freq'])
    a.set_timegrid(tg)
    I = [int(i) for i in a.timegrid.restricted.I]
    rows = case['rows']
    steps = [r['step'] if r['step'] is not None else I[r['pos'] % len(I)] for r in rows]
    mp = pd.DataFrame({'time_step': steps, 'node': [r['node'] if r['node'] is not None else np.nan for r in rows],
                       'asset': ['a'] * len(rows), 'type': ['d'] * len(rows), 'var_name': ['disp'] * len(rows)},
                      index=[r['var'] for r in rows]) if rows else pd.DataFrame()
    if case['has_factor'] and rows:
        mp['disp_factor'] = [r['factor'] for r in rows]
    rec = Recorder()
    try:
        with Quiet(), rec:
            a.__extend_mapping_to_minor_grid__(mp)
    except Exception:
        pass
    return {'ext': rec.ext, 'per': [], 'with': {}}


def selftest_synthetic(n, seed, drv, verbose=False):
    rnd = random.Random(seed * 7907 + 5)
    st = {'cases': 0, 'outcomes': {}, 'disagreements': []}
    for i in range(n):
        r = random.Random(rnd.getrandbits(48))
        if i % 3 == 2:
            case = gen_synth_extend(r)
            res = run_synth_extend(case)
            key = 'extend:' + ('err:' + res['ext'][0]['res']['err'] if res['ext'] and isinstance(res['ext'][0]['res'], dict) else 'ok')
        else:
            case = gen_synthetic(r)
            res = run_synthetic(case)
            e = res['per'][0]['after'] if res['per'] else {'err': 'no-call'}
            neg = 'err' not in e and any(x['var'] < 0 for x in e['mapping'])
            key = 'periodic:' + ('chain' if neg else ('err:' + e['err'] if 'err' in e else ('merged' if len(e['c']) < case['n'] else 'nothing-merged')))
        st['cases'] += 1
        st['outcomes'][key] = st['outcomes'].get(key, 0) + 1
        for x in compare(case, res, drv):
            st['disagreements'].append(('syn%d' % i, x))
            if verbose:
                print('DISAGREE syn%d' % i, x, json.dumps(case)[:600])
    return st


# ------------------------------------------------------------------ self test
def selftest(n, seed, drv, with_oracle=True, verbose=False, log=None):
    stats = {'cases': 0, 'ext_calls': 0, 'per_calls': 0, 'with_err': 0, 'oracle_cases': 0, 'oracle_nontrivial': 0, 'value_compared': 0,
             'disagreements': [], 'violations': [], 'features': {}}
    for tag, case in cases(seed, n):
        stats['cases'] += 1
        r = run_impl(case)
        stats['ext_calls'] += len(r['ext'])
        stats['per_calls'] += len(r['per'])
        k = '%s/%s' % (case['focus']['type'], case['kind'])
        stats['features'][k] = stats['features'].get(k, 0) + 1
        if 'err' in r['with']:
            stats['with_err'] += 1
            stats['features']['err:' + r['with']['err']] = stats['features'].get('err:' + r['with']['err'], 0) + 1
        d = compare(case, r, drv)
        for e in r['per']:
            if e.get('partition') is not None:
                stats['per_ok'] = stats.get('per_ok', 0) + 1
                stats['per_partition'] = stats.get('per_partition', 0) + bool(e['partition'])
        for x in d:
            stats['disagreements'].append((tag, x))
            if verbose:
                print('DISAGREE', tag, x)
        if with_oracle and case['oracle'] and 'err' not in r['with']:
            v, feats = oracle(case, r)
            stats['oracle_cases'] += 1
            stats['oracle_nontrivial'] += 'nontrivial' in feats
            stats['value_compared'] += 'value-compared' in feats
            for f in feats:
                if f not in ('nontrivial', 'trivial', 'value-compared'):
                    stats['features'][f] = stats['features'].get(f, 0) + 1
            for x in v:
                stats['violations'].append((tag, x))
                if verbose:
                    print('VIOLATION', tag, x['oracle'], x['facts']['kind'], x['detail'][:150])
        if log and stats['cases'] % 50 == 0:
            log('%d cases, %d disagreements, %d violations' % (stats['cases'], len(stats['disagreements']), len(stats['violations'])))
    return stats


class ScratchDriver:
    """development driver: a scratch `Main.lean` run by the Lean interpreter, or a compiled binary"""

    def __init__(self, path):
        import subprocess
        from ..lean import LEAN_DIR
        cmd = [path] if not path.endswith('.lean') else ['lake', 'env', 'lean', '--run', path]
        self.p = subprocess.Popen(cmd, cwd=LEAN_DIR, stdin=subprocess.PIPE, stdout=subprocess.PIPE, text=True, bufsize=1)

    def ask(self, req):
        self.p.stdin.write(json.dumps(req) + '\n')
        self.p.stdin.flush()
        line = self.p.stdout.readline()
        if not line:
            raise RuntimeError('driver died on request op=%s' % req.get('op'))
        return json.loads(line)

    def ok(self, req):
        r = self.ask(req)
        if 'ok' not in r:
            raise RuntimeError('driver error: %s' % r.get('err'))
        return r['ok']

    def close(self):
        try:
            self.p.stdin.close()
            self.p.wait(timeout=5)
        except Exception:
            self.p.kill()


if __name__ == '__main__':
    import sys
    import time
    path = sys.argv[1]
    if len(sys.argv) > 2 and sys.argv[2] == 'syn':
        drv = ScratchDriver(path)
        st = selftest_synthetic(int(sys.argv[3]), int(sys.argv[4]) if len(sys.argv) > 4 else 1, drv, verbose=True)
        drv.close()
        print(json.dumps({k: v for k, v in st.items() if k != 'disagreements'}, indent=1))
        print('disagreements:', len(st['disagreements']))
        sys.exit(0)
    n = int(sys.argv[2]) if len(sys.argv) > 2 else 50
    seed = int(sys.argv[3]) if len(sys.argv) > 3 else 1
    orc = (sys.argv[4] != 'no') if len(sys.argv) > 4 else True
    drv = ScratchDriver(path)
    t0 = time.time()
    st = selftest(n, seed, drv, with_oracle=orc, verbose=True, log=lambda s: print('..', s, '%.0fs' % (time.time() - t0), flush=True))
    drv.close()
    kinds = {}
    for tag, v in st['violations']:
        kk = (v['oracle'], v['facts']['kind'], v['facts']['asset_type'])
        kinds[kk] = kinds.get(kk, 0) + 1
    print(json.dumps({k: v for k, v in st.items() if k not in ('disagreements', 'violations')}, indent=1))
    print('disagreements:', len(st['disagreements']))
    print('violations by kind:', kinds)
