"""Correspondence of the contract / transport builders (SimpleContract, Contract, MultiCommodityContract,
Transport, ExtendedTransport) with the Lean model `EAO.Model.Contract`, and metamorphic oracles on the real
code for C08 (horizon and windows) and C12 (time bookkeeping).

A case is a plain JSON value:
  {kind, grid: {start, end, freq, unit, tz}, wacc (inside args), prices: {key: [floats]},
   spec: {type, name, nodes, args}}          (spec as in harness.scen; `$dt`, `$arr` encodings)
"""
import copy
import random
import traceback
from fractions import Fraction

import numpy as np
import pandas as pd

import eaopack as eao
from .. import scen, pf
from ..impl import problem_json, Quiet, err_class
from ..lean import fs
from .common import grid_json, param_json, prices_json, instant

KINDS = {'simple_contract': 'SimpleContract', 'contract': 'Contract', 'multi': 'MultiCommodityContract',
         'transport': 'Transport', 'ext_transport': 'ExtendedTransport'}

# registry entries for the property modules (module, theorem, reading)
THEOREMS_C08 = [
    ('EAO.Properties.C08', 'EAO.C08.built_wf', 'whatever one of the five contract/transport builders returns on an asset grid g is well formed: bound vectors as long as the cost vector, T or 2T variables, every mapping row has a variable index below n, the asset name, kind d, a step of g.idx and one of the asset nodes; every row is a U or L row with at least one coefficient and column indices below n'),
    ('EAO.Properties.C08', 'EAO.C08.empty_window_inert', 'on a grid without steps (window outside the horizon, empty, reversed) every builder that succeeds returns no variable, no row and no mapping row'),
    ('EAO.Properties.C08', 'EAO.C08.vars_only_in_window', 'every mapping row of a built problem sits at a step of the restricted grid'),
    ('EAO.Properties.C08', 'EAO.C08.no_dispatch_outside_window', 'hence the dispatch read off any solution at a step outside the restricted grid is zero'),
    ('EAO.Properties.C08', 'EAO.C08.take_outside_inert', 'a take period covering no step of the restricted grid yields no row'),
    ('EAO.Properties.C08', 'EAO.C08.take_outside_inert_contract_min', 'a contract with such a period anywhere in its minimum takes is built exactly like the contract without it'),
    ('EAO.Properties.C08', 'EAO.C08.take_outside_inert_contract_max', 'the same for maximum takes'),
    ('EAO.Properties.C08', 'EAO.C08.take_outside_inert_transport_min', 'the same for minimum takes of an extended transport'),
    ('EAO.Properties.C08', 'EAO.C08.take_outside_inert_transport_max', 'the same for maximum takes of an extended transport'),
    ('EAO.Properties.C08', 'EAO.C08.coveredPos_nil_of_outside', 'a period [s,e) containing no point of the restricted grid covers no step'),
    ('EAO.Properties.C08', 'EAO.C08.take_prorated', 'the right-hand side of a take row is V * (sum of dt over the covered steps) / ((e-s)/unit); its coefficients are the factors of the mapping rows at the covered steps'),
    ('EAO.Properties.C08', 'EAO.C08.contract_rows_prorated', 'every row of a built contract is such a prorated row: U for a maximum take, L for a minimum take'),
    ('EAO.Properties.C08', 'EAO.C08.ext_transport_rows_prorated', 'every row of an extended transport is a prorated row at the first node with negated volume: L for a maximum, U for a minimum take'),
    ('EAO.Properties.C08', 'EAO.C08.multi_mapping', 'a multi-commodity contract is the contract with its mapping copied once per node, factors multiplied by the node factor; cost, bounds and rows untouched'),
]
THEOREMS_C12 = [
    ('EAO.Properties.C12', 'EAO.C12.limits_follow_dt', 'bounds of a (simple) contract are rate_t * dt_t of the asset grid, in the two-variable form split into negative and positive part'),
    ('EAO.Properties.C12', 'EAO.C12.limits_total', 'so lower/upper limits add up to sum_t rate_t * dt_t in both forms'),
    ('EAO.Properties.C12', 'EAO.C12.limits_total_const', 'constant rates: total limit = rate * sum of dt (rate x elapsed time) for any step lengths'),
    ('EAO.Properties.C12', 'EAO.C12.limits_total_const_contract', 'the same with take restrictions'),
    ('EAO.Properties.C12', 'EAO.C12.limits_follow_dt_transport', 'transport bounds are capacity * dt_t; totals = capacity * elapsed time'),
    ('EAO.Properties.C12', 'EAO.C12.limits_follow_dt_ext_transport', 'the same for the extended transport'),
    ('EAO.Properties.C12', 'EAO.C12.unit_change', 'every dt multiplied by k > 0 and every (non-key) rate divided by k: buildSimpleContract returns the SAME problem'),
    ('EAO.Properties.C12', 'EAO.C12.unit_change_contract', 'the same for Contract when the unit length in seconds is divided by k (take volumes unchanged)'),
    ('EAO.Properties.C12', 'EAO.C12.unit_change_multi', 'the same for MultiCommodityContract'),
    ('EAO.Properties.C12', 'EAO.C12.unit_change_transport', 'the same for Transport'),
    ('EAO.Properties.C12', 'EAO.C12.unit_change_ext_transport', 'the same for ExtendedTransport'),
]

# model error class -> class of the exception the implementation raises
ERR_MAP = {'nan': 'assert', 'assert': 'assert', 'ill-posed': 'value', 'length': 'value', 'overlap': 'value',
           'missing-price': 'value', 'index': 'index', 'not-implemented': 'not-implemented'}


# ------------------------------------------------------------------------------------------ helpers
def unit_sec(unit):
    return int(pd.Timedelta(1, unit).total_seconds())


def iso(ts):
    return pd.Timestamp(ts).strftime('%Y-%m-%dT%H:%M:%S')


def D(ts):
    return {'$dt': iso(ts)}


def localizable(ts, tz):
    if tz is None:
        return True
    try:
        pd.Timestamp(ts).tz_localize(tz)
        return True
    except Exception:
        return False


# grids: (start, number of steps, freq, step as Timedelta or None for calendar, units, tz)
GRIDS = [
    ('2021-01-01', 'h', ['h', 'd', 'min'], None),
    ('2021-01-01', '4h', ['h', 'd', 'min'], None),
    ('2021-01-01', '15min', ['h', 'min', 'd'], None),
    ('2021-01-01', '30min', ['h', 'min'], None),
    ('2021-01-01', '2h', ['h'], None),
    ('2021-01-01', 'd', ['d', 'h'], None),
    ('2021-01-01', 'MS', ['d', 'h'], None),
    ('2021-03-27T20:00:00', 'h', ['h', 'd', 'min'], 'CET'),      # DST: 28 March 2021, 02:00 -> 03:00
    ('2021-10-30T20:00:00', 'h', ['h', 'd'], 'CET'),             # DST: 31 October 2021, 03:00 -> 02:00
    ('2021-03-26', 'd', ['h', 'd'], 'CET'),                      # calendar days of 23 h
    ('2021-10-29', 'd', ['h', 'd'], 'CET'),                      # calendar days of 25 h
    ('2021-03-27T12:00:00', '4h', ['h'], 'Europe/Berlin'),
]


def gen_grid(rnd, tmax=10, exact=False):
    while True:
        start, freq, units, tz = rnd.choice(GRIDS)
        unit = rnd.choice(units)
        if exact:
            # step / unit must be a power of two
            if tz is not None and freq == 'd':
                continue
            ok = {('h', 'h'), ('4h', 'h'), ('15min', 'h'), ('30min', 'h'), ('2h', 'h'), ('d', 'd'), ('MS', 'd')}
            if (freq, unit) not in ok:
                continue
        n = rnd.randint(1, tmax) if rnd.random() < 0.9 else 1
        # points as pandas generates them in the zone (tick frequencies are absolute, 'd'/'MS' are calendar steps);
        # the grid's end is the last point, so the horizon is exactly [first point, last point)
        pts = pd.date_range(start=pd.Timestamp(start, tz=tz), periods=n + 1, freq=freq)
        s0, e0 = pts[0].tz_localize(None), pts[-1].tz_localize(None)
        if not (localizable(s0, tz) and localizable(e0, tz)):
            continue
        if tz is not None and (pd.Timestamp(s0, tz=tz) != pts[0] or pd.Timestamp(e0, tz=tz) != pts[-1]):
            continue
        return {'start': iso(s0), 'end': iso(e0), 'freq': freq, 'unit': unit, 'tz': tz}


def grid_points(g):
    """naive wall-clock points of the grid incl. the end point, from pandas directly (not from eaopack)"""
    tz = g.get('tz')
    pts = pd.date_range(start=pd.Timestamp(g['start'], tz=tz), end=pd.Timestamp(g['end'], tz=tz), freq=g['freq'])
    return [pd.Timestamp(p).tz_localize(None) for p in pts]


PLACEMENTS = ['none', 'inside', 'before', 'after', 'straddle_start', 'straddle_end', 'superset', 'empty',
              'off_grid', 'only_start', 'only_end', 'reversed', 'inside', 'straddle_start', 'straddle_end', 'off_grid']


def place(rnd, pts, how, tz):
    """(start, end) naive timestamps (or None) in a given placement relative to the points `pts`
    (pts[0] = first point, pts[-1] = end of the last step)"""
    n = len(pts) - 1
    span = pts[-1] - pts[0]
    step = pts[1] - pts[0]
    for _ in range(50):
        if how == 'none':
            r = (None, None)
        elif how == 'inside':
            i = rnd.randint(0, n - 1)
            j = rnd.randint(i + 1, n)
            r = (pts[i], pts[j])
        elif how == 'before':
            r = (pts[0] - 2 * span - step, pts[0] - rnd.choice([0, 1]) * step)
        elif how == 'after':
            r = (pts[-1] + rnd.choice([0, 1]) * step, pts[-1] + 2 * span)
        elif how == 'straddle_start':
            r = (pts[0] - rnd.randint(1, 3) * step, pts[rnd.randint(1, n)])
        elif how == 'straddle_end':
            r = (pts[rnd.randint(0, n - 1)], pts[-1] + rnd.randint(1, 3) * step)
        elif how == 'superset':
            r = (pts[0] - rnd.randint(0, 2) * step, pts[-1] + rnd.randint(0, 2) * step)
        elif how == 'empty':
            i = rnd.randint(0, n)
            r = (pts[i], pts[i])
        elif how == 'off_grid':
            i = rnd.randint(0, n - 1)
            j = rnd.randint(i, n - 1)
            r = (pts[i] + (pts[i + 1] - pts[i]) / rnd.choice([2, 4]), pts[j] + (pts[j + 1] - pts[j]) / rnd.choice([2, 4, 1]))
            r = (r[0].floor('min'), r[1].floor('min'))
        elif how == 'only_start':
            r = (pts[rnd.randint(0, n - 1)], None)
        elif how == 'only_end':
            r = (None, pts[rnd.randint(1, n)])
        elif how == 'reversed':
            i = rnd.randint(0, n - 1)
            r = (pts[rnd.randint(i + 1, n)], pts[i])
        else:
            raise ValueError(how)
        if all(x is None or localizable(x, tz) for x in r):
            return r
    return (None, None)


def restricted_points(g, win):
    """naive points of the restricted grid (what eaopack will compute), for sizing arrays"""
    tg = scen.make_grid(g)
    tg.set_restricted_grid(None if win[0] is None else win[0].to_pydatetime(), None if win[1] is None else win[1].to_pydatetime())
    tp = tg.restricted.timepoints
    return [pd.Timestamp(p).tz_localize(None) for p in tp], tg


def val(rnd, exact, lo, hi):
    """a value in [lo, hi]: multiple of 1/8 (exact stream) or a decimal"""
    if exact:
        return rnd.randint(int(lo * 8), int(hi * 8)) / 8.0
    return round(rnd.uniform(lo, hi), rnd.choice([1, 2, 3]))


def gen_series(rnd, exact, n, lo, hi):
    return [val(rnd, exact, lo, hi) for _ in range(n)]


def gen_param(rnd, exact, form, rpts, gpts, prices, lo, hi, tz, gaps=False, const=None):
    """a make_vector parameter in one of the forms; values in [lo, hi]"""
    T = len(rpts)
    if form == 'scalar':
        return float(val(rnd, exact, lo, hi)) if const is None else float(const)
    if form == 'array':
        return {'$arr': gen_series(rnd, exact, T, lo, hi)}
    if form == 'array1':
        return {'$arr': gen_series(rnd, exact, 1, lo, hi)}
    if form == 'key':
        k = 'k%d' % len(prices)
        prices[k] = gen_series(rnd, exact, len(gpts) - 1, lo, hi)
        return k
    # interval dictionaries over cut points chosen among the grid points (and beyond)
    n = len(gpts) - 1
    step = gpts[1] - gpts[0]
    cuts = sorted(set(rnd.sample(range(1, n), min(n - 1, rnd.randint(0, 2))))) if n > 1 else []
    first = gpts[0] - rnd.choice([0, 1, 5]) * step
    starts = [first] + [gpts[c] for c in cuts]
    if gaps and rnd.random() < 0.7:
        starts[0] = gpts[min(n - 1, 1)] if len(starts) == 1 else starts[0]
        if len(starts) > 1 and rnd.random() < 0.5:
            starts = starts[1:]
    starts = [s for s in starts if localizable(s, tz)] or [gpts[0]]
    vals = gen_series(rnd, exact, len(starts), lo, hi)
    d = {'start': [D(s) for s in starts], 'values': vals}
    if form == 'dict_end':
        ends = starts[1:] + [gpts[-1] + rnd.choice([0, 1, 3]) * step]
        if gaps and rnd.random() < 0.5:
            ends[-1] = gpts[max(1, n - 1)] if n > 1 else ends[-1]
        ends = [e if localizable(e, tz) else gpts[-1] for e in ends]
        d['end'] = [D(e) for e in ends]
    elif form == 'dict_scalar':
        d = {'start': D(starts[0]), 'values': vals[0]}
    return d


CAP_FORMS = ['scalar', 'scalar', 'array', 'key', 'dict_end', 'dict_noend', 'dict_scalar', 'array1']


def gen_takes(rnd, exact, gpts, wpts, tz, unit):
    """0-3 take periods in placements relative to horizon (gpts) and window (wpts)"""
    k = rnd.choice([0, 1, 1, 2, 3])
    if k == 0:
        return None
    starts, ends, vals = [], [], []
    for _ in range(k):
        ref = gpts if (rnd.random() < 0.5 or len(wpts) < 2) else wpts
        how = rnd.choice(['inside', 'before', 'after', 'straddle_start', 'straddle_end', 'superset', 'empty', 'off_grid'])
        if exact and how == 'off_grid':
            how = 'inside'
        s, e = place(rnd, ref, how, tz)
        if s is None or e is None:
            s, e = gpts[0], gpts[-1]
        starts.append(D(s))
        ends.append(D(e))
        vals.append(float(val(rnd, exact, -20, 40)))
    if k == 1 and rnd.random() < 0.4:
        return {'start': starts[0], 'end': ends[0], 'values': vals[0]}
    return {'start': starts, 'end': ends, 'values': vals}


def window_points(g, win):
    rp, _ = restricted_points(g, win)
    if not rp:
        return []
    gp = grid_points(g)
    # end of the last restricted step
    i = gp.index(rp[-1]) if rp[-1] in gp else None
    return rp + ([gp[i + 1]] if i is not None else [])


# ------------------------------------------------------------------------------------------ generator
def gen_case(rnd, malformed=False):
    exact = rnd.random() < 0.5
    kind = rnd.choice(['simple_contract', 'contract', 'contract', 'multi', 'transport', 'ext_transport'])
    g = gen_grid(rnd, exact=exact)
    tz = g['tz']
    gpts = grid_points(g)
    how = rnd.choice(PLACEMENTS)
    win = place(rnd, gpts, how, tz)
    rpts, _ = restricted_points(g, win)
    wpts = window_points(g, win)
    T = len(gpts) - 1
    prices = {}
    args = {}
    if win[0] is not None:
        args['start'] = D(win[0])
    if win[1] is not None:
        args['end'] = D(win[1])
    args['wacc'] = 0.0 if (exact or rnd.random() < 0.4) else rnd.choice([0.05, 0.1, 0.02])
    feats = ['kind:' + kind, 'window:' + how, 'exact' if exact else 'tolerant', 'freq:%s/%s' % (g['freq'], g['unit']),
             'tz' if tz else 'naive', 'wacc0' if args['wacc'] == 0 else 'wacc', 'T%d' % min(len(rpts), 3)]
    names = ['a', 'contract 1', '1', 'tr']
    name = rnd.choice(names)
    bad = rnd.choice(['minmax_scalar', 'minmax_vec', 'nan_gap', 'price_len', 'price_missing', 'cap_key_short',
                      'cap_key_missing', 'array_len', 'overlap', 'factors_len', 'tr_nodes', 'tr_eff', 'tr_minmax',
                      'tr_mixed', 'tr_cost_missing', 'tr_cost_len']) if malformed else None
    if kind in ('simple_contract', 'contract', 'multi'):
        if bad and bad.startswith('tr_'):
            bad = 'minmax_vec'
        if bad == 'factors_len' and kind != 'multi':
            bad = 'nan_gap'
        sign = rnd.choice(['both', 'both', 'buy', 'sell', 'zero', 'touch'])
        fmin = rnd.choice(CAP_FORMS)
        fmax = rnd.choice(CAP_FORMS)
        if len(gpts) <= 2:
            fmin = fmin if not fmin.startswith('dict') else 'scalar'
            fmax = fmax if not fmax.startswith('dict') else 'scalar'
        if T == 1 or len(rpts) == 1:   # numpy broadcasts a k-array against a one-step grid the other way round
            fmin = 'scalar' if fmin.startswith('array') else fmin
            fmax = 'scalar' if fmax.startswith('array') else fmax
        rng = {'both': ((-10, -0.125), (0.125, 10)), 'buy': ((-10, -1), (-1, 0)), 'sell': ((0, 1), (1, 10)),
               'zero': ((0, 0), (0, 0)), 'touch': ((-5, 0), (0, 5))}[sign]
        args['min_cap'] = gen_param(rnd, exact, fmin, rpts, gpts, prices, rng[0][0], rng[0][1], tz)
        args['max_cap'] = gen_param(rnd, exact, fmax, rpts, gpts, prices, rng[1][0], rng[1][1], tz)
        spread = rnd.choice(['zero', 'zero', 'scalar', 'dict_end', 'dict_noend', 'key', 'array', 'neg', 'dict_gap'])
        if len(gpts) <= 2 and spread.startswith('dict'):
            spread = 'scalar'
        if (T == 1 or len(rpts) == 1) and spread == 'array':
            spread = 'scalar'
        if spread == 'zero':
            args['extra_costs'] = rnd.choice([0.0, 0])
        elif spread == 'neg':
            args['extra_costs'] = float(val(rnd, exact, -2, -0.125))
        elif spread == 'dict_gap':
            args['extra_costs'] = gen_param(rnd, exact, rnd.choice(['dict_end', 'dict_noend']), rpts, gpts, prices, 0, 3, tz, gaps=True)
        else:
            args['extra_costs'] = gen_param(rnd, exact, spread, rpts, gpts, prices, 0, 3, tz)
        if rnd.random() < 0.85:
            prices['p'] = gen_series(rnd, exact, T, -5, 60)
            args['price'] = 'p'
        feats += ['sign:' + sign, 'min:' + fmin, 'max:' + fmax, 'spread:' + spread, 'price' if 'price' in args else 'noprice']
        nodes = ['n1']
        if kind in ('contract', 'multi'):
            mt = gen_takes(rnd, exact, gpts, wpts, tz, g['unit'])
            xt = gen_takes(rnd, exact, gpts, wpts, tz, g['unit'])
            if mt is not None:
                args['min_take'] = mt
            if xt is not None:
                args['max_take'] = xt
            feats.append('takes:%d' % ((mt is not None) + (xt is not None)))
        if kind == 'multi':
            nodes = rnd.choice([['n1', 'n2'], ['n1', 'n2', 'n3'], ['n1'], ['n1', 'n1']])
            args['factors_commodities'] = [float(val(rnd, exact, -2, 3)) for _ in nodes]
        # malformed variants
        if bad == 'minmax_scalar':
            args['min_cap'], args['max_cap'] = 2.0, 1.0
        elif bad == 'minmax_vec' and len(rpts) > 0 and len(rpts) != 1 and T != 1:
            a = gen_series(rnd, exact, len(rpts), 0, 3)
            b = list(a)
            i = rnd.randrange(len(rpts))
            b[i] = a[i] + 1
            args['max_cap'] = {'$arr': a}
            args['min_cap'] = {'$arr': [x - 1 for x in b[:i]] + [b[i]] + [x - 1 for x in b[i + 1:]]}
        elif bad == 'nan_gap' and len(gpts) > 2:
            which = rnd.choice(['min_cap', 'max_cap'])
            args[which] = gen_param(rnd, exact, rnd.choice(['dict_end', 'dict_noend']), rpts, gpts, prices, 0, 0, tz, gaps=True)
        elif bad == 'price_len':
            prices['p'] = gen_series(rnd, exact, T + rnd.choice([-1, 1, 2]), 0, 5)
            args['price'] = 'p'
        elif bad == 'price_missing':
            args['price'] = 'nokey'
        elif bad == 'cap_key_short':
            prices['short'] = gen_series(rnd, exact, max(0, T - rnd.choice([1, 2])), 0, 5)
            args['max_cap'] = 'short'
        elif bad == 'cap_key_missing':
            args[rnd.choice(['max_cap', 'min_cap', 'extra_costs'])] = 'nokey'
        elif bad == 'array_len' and len(rpts) != 1 and T != 1:
            args[rnd.choice(['max_cap', 'min_cap', 'extra_costs'])] = {'$arr': gen_series(rnd, exact, len(rpts) + rnd.choice([1, 2, 3]), 0, 5)}
        elif bad == 'overlap' and len(gpts) > 2:
            args[rnd.choice(['max_cap', 'extra_costs'])] = {'start': [D(gpts[0]), D(gpts[1])], 'end': [D(gpts[2]), D(gpts[-1])], 'values': [1.0, 2.0]}
        elif bad == 'factors_len':
            args['factors_commodities'] = args['factors_commodities'] + [1.0]
        if bad:
            feats.append('bad:' + bad)
        spec = {'type': KINDS[kind], 'name': name, 'nodes': nodes, 'args': args}
    else:
        direction = rnd.choice(['pos', 'pos', 'neg', 'mixed_free', 'zero'])
        lohi = {'pos': ((0, 2), (2, 10)), 'neg': ((-10, -2), (-2, 0)), 'mixed_free': ((-5, -0.125), (0.125, 5)), 'zero': ((0, 0), (0, 0))}[direction]
        args['min_cap'] = float(val(rnd, exact, *lohi[0]))
        args['max_cap'] = float(val(rnd, exact, *lohi[1]))
        if rnd.random() < 0.3:
            args['min_cap'] = int(args['min_cap'])
            args['max_cap'] = max(int(args['max_cap']), args['min_cap'])
        args['efficiency'] = rnd.choice([1.0, 0.5, 0.25, 1.5] if exact else [1.0, 0.9, 0.95, 0.5, 1.1])
        if direction != 'mixed_free':
            costs = rnd.choice(['none', 'const', 'series', 'both'])
            if costs in ('const', 'both'):
                args['costs_const'] = float(val(rnd, exact, -1, 4))
            if costs in ('series', 'both'):
                prices['tc'] = gen_series(rnd, exact, T, 0, 5)
                args['costs_time_series'] = 'tc'
        else:
            costs = rnd.choice(['none', 'zero_series'])
            if costs == 'zero_series':
                prices['tc'] = [0.0] * T
                args['costs_time_series'] = 'tc'
        feats += ['dir:' + direction, 'costs:' + costs, 'eff:%s' % args['efficiency']]
        nodes = rnd.choice([['n1', 'n2'], ['n1', 'n2'], ['n2', 'n1'], ['n1', 'n1']])
        if kind == 'ext_transport':
            mt = gen_takes(rnd, exact, gpts, wpts, tz, g['unit'])
            xt = gen_takes(rnd, exact, gpts, wpts, tz, g['unit'])
            if mt is not None:
                args['min_take'] = mt
            if xt is not None:
                args['max_take'] = xt
            feats.append('takes:%d' % ((mt is not None) + (xt is not None)))
        if bad and not bad.startswith('tr_'):
            bad = rnd.choice(['tr_nodes', 'tr_eff', 'tr_minmax', 'tr_mixed', 'tr_cost_missing', 'tr_cost_len'])
        if bad == 'tr_nodes':
            nodes = rnd.choice([['n1'], ['n1', 'n2', 'n3']])
        elif bad == 'tr_eff':
            args['efficiency'] = rnd.choice([0.0, -1.0])
        elif bad == 'tr_minmax':
            args['min_cap'], args['max_cap'] = 3.0, 1.0
        elif bad == 'tr_mixed':
            args['min_cap'], args['max_cap'] = -1.0, 2.0
            args['costs_const'] = 1.0
            args.pop('costs_time_series', None)
        elif bad == 'tr_cost_missing':
            args['costs_time_series'] = 'nokey'
        elif bad == 'tr_cost_len':
            prices['tc'] = gen_series(rnd, exact, T + rnd.choice([1, 2]), 0, 5)
            args['costs_time_series'] = 'tc'
        if bad:
            feats.append('bad:' + bad)
        spec = {'type': KINDS[kind], 'name': name, 'nodes': nodes, 'args': args}
    return {'kind': kind, 'grid': g, 'prices': prices, 'spec': spec, 'features': feats, 'exact': exact}


# ------------------------------------------------------------------------------------------ implementation side
def build_objects(case):
    tg = scen.make_grid(case['grid'])
    nodes = scen.make_nodes(sorted(set(case['spec']['nodes'])) or ['n1'])
    prices = {k: np.asarray(v, dtype=float) for k, v in case['prices'].items()}
    return tg, nodes, prices


def restricted_json(case):
    """the restricted grid the asset will see, computed by the real Timegrid on a fresh object"""
    g = case['grid']
    a = scen.dec(copy.deepcopy(case['spec']['args']))
    tg = scen.make_grid(g)
    tg.set_wacc(a.get('wacc', 0))
    tg.set_restricted_grid(a.get('start'), a.get('end'), None)
    return grid_json(tg.restricted, g.get('tz')), int(tg.T)


def run_impl(case):
    """{'problem': …} | {'error': class}; plus the restricted grid as data"""
    out = {}
    try:
        out['grid'], out['fullT'] = restricted_json(case)
    except Exception as e:
        out['grid_error'] = err_class(e)
        return out
    try:
        with Quiet():
            tg, nodes, prices = build_objects(case)
            asset = scen.build_asset(case['spec'], nodes)
            op = asset.setup_optim_problem(prices, tg)
            # the grid the asset really used must be the one handed to the model
            used = grid_json(asset.timegrid.restricted, case['grid'].get('tz'))
        if used != out['grid']:
            out['grid_mismatch'] = True
        out['problem'] = problem_json(op, name=asset.name, nodes=[n.name for n in asset.nodes])
    except Exception as e:
        out['error'] = err_class(e)
        out['error_text'] = '%s: %s' % (type(e).__name__, str(e)[:200])
    return out


def takes_json(t, tz):
    if t is None:
        return []
    st, en, va = t['start'], t['end'], t['values']
    if not isinstance(va, (list, np.ndarray)):
        st, en, va = [st], [en], [va]
    return [[instant(s, tz), instant(e, tz), fs(v)] for s, e, v in zip(st, en, va)]


def with_implicit_end(v):
    """eaopack derives a missing `end` by arithmetic on the dates AS GIVEN (naive wall-clock times here) and
    localises afterwards; `param_json` would do the arithmetic on instants, which differs across a DST switch"""
    if isinstance(v, dict) and 'end' not in v and isinstance(v.get('start'), list) and len(v['start']) > 1:
        st = [pd.Timestamp(x) for x in v['start']]
        v = dict(v)
        v['end'] = st[1:] + [st[-1] + 2 * (st[-1] - st[-2])]
    return v


def request(case, impl_result=None):
    r = impl_result if impl_result is not None else run_impl(case)
    g = case['grid']
    tz = g.get('tz')
    spec = case['spec']
    a = scen.dec(copy.deepcopy(spec['args']))
    for k in ('extra_costs', 'min_cap', 'max_cap'):
        if k in a:
            a[k] = with_implicit_end(a[k])
    req = {'op': case['kind'], 'grid': r['grid'], 'fullT': r['fullT'], 'unitSec': unit_sec(g.get('unit', 'h')),
           'prices': prices_json(case['prices'])}
    if case['kind'] in ('simple_contract', 'contract', 'multi'):
        p = {'name': spec['name'], 'nodes': spec['nodes'], 'price': a.get('price'),
             'extra_costs': param_json(a.get('extra_costs', 0.), tz),
             'min_cap': param_json(a.get('min_cap', 0.), tz), 'max_cap': param_json(a.get('max_cap', 0.), tz),
             'min_take': takes_json(a.get('min_take'), tz), 'max_take': takes_json(a.get('max_take'), tz)}
        if case['kind'] == 'multi':
            req['factors'] = [fs(v) for v in a.get('factors_commodities', [1, 1])]
    else:
        p = {'name': spec['name'], 'nodes': spec['nodes'], 'costs_const': fs(a.get('costs_const', 0.)),
             'costs_key': a.get('costs_time_series'), 'min_cap': fs(a.get('min_cap', 0.)), 'max_cap': fs(a.get('max_cap', 0.)),
             'efficiency': fs(a.get('efficiency', 1.)),
             'min_take': takes_json(a.get('min_take'), tz), 'max_take': takes_json(a.get('max_take'), tz)}
    req['params'] = p
    return req


def _pow2(n):
    return n > 0 and (n & (n - 1)) == 0


def _small(s):
    f = Fraction(s)
    return _pow2(f.denominator) and f.denominator <= 1024 and abs(f.numerator) < 2 ** 24


def _rats(j):
    """all rational strings of a JSON value"""
    if isinstance(j, str):
        try:
            Fraction(j)
            yield j
        except Exception:
            return
    elif isinstance(j, dict):
        for k, v in j.items():
            if k in ('pts', 'idx', 'Dt', 'start', 'stop', 'name', 'nodes', 'price', 'costs_key', 'key'):
                continue
            yield from _rats(v)
    elif isinstance(j, list):
        for v in j:
            yield from _rats(v)


def is_exact(case, req):
    """every intermediate value of the implementation is exactly representable"""
    if not case.get('exact'):
        return False
    for k in ('prices', 'params', 'factors'):
        if not all(_small(s) for s in _rats(req.get(k, []))):
            return False
    if not all(_small(s) for s in req['grid']['dt']) or any(Fraction(s) != 1 for s in req['grid']['df']):
        return False
    u = req['unitSec']
    for k in ('min_take', 'max_take'):
        for s, e, v in req['params'].get(k, []):
            if e > s:
                d = Fraction(e - s, u)
                if not (_pow2(d.numerator) and _pow2(d.denominator)):
                    return False
            if not _small(v):
                return False
    return True


def cmp_mapping_ordered(model, implj, tol):
    if len(model) != len(implj):
        return 'mapping: %d rows (model) vs %d (impl)' % (len(model), len(implj))
    for i, (x, y) in enumerate(zip(model, implj)):
        for f in ('var', 'asset', 'node', 'kind', 'step', 'bool', 'var_name'):
            if x[f] != y[f]:
                return 'mapping row %d (in order): %s = %r (model) vs %r (impl)' % (i, f, x[f], y[f])
        if not pf.feq(x['factor'], y['factor'], tol):
            return 'mapping row %d: factor %s (model) vs %s (impl)' % (i, x['factor'], y['factor'])
    return None


def compare(case, impl_result, model_result, req=None):
    """list of disagreement strings"""
    out = []
    if 'grid_error' in impl_result:
        return out
    if impl_result.get('grid_mismatch'):
        out.append('restricted grid used by the asset differs from Timegrid.set_restricted_grid on a fresh grid')
    if 'err' in model_result:
        return ['driver rejected the request: %s' % model_result['err']]
    m = model_result['ok']
    if 'error' in impl_result or 'error' in m:
        ie = impl_result.get('error')
        me = m.get('error')
        if ie is None or me is None or ERR_MAP.get(me) != ie:
            out.append('error class: model %r (expects impl %r) vs impl %r %s' % (me, ERR_MAP.get(me), ie, impl_result.get('error_text', '')))
        return out
    req = req or request(case, impl_result)
    tol = 0 if is_exact(case, req) else 1e-9
    mp, ip = m['problem'], impl_result['problem']
    if mp['name'] != ip['name'] or mp['nodes'] != ip['nodes']:
        out.append('name/nodes: %r %r (model) vs %r %r (impl)' % (mp['name'], mp['nodes'], ip['name'], ip['nodes']))
    for v in ('c', 'l', 'u'):
        d = pf.cmp_vec(v, mp[v], ip[v], tol)
        if d:
            out.append(d)
    d = pf.cmp_rows('rows', mp['rows'], ip['rows'], tol, ordered=True)
    if d:
        out.append(d)
    d = cmp_mapping_ordered(mp['mapping'], ip['mapping'], tol)
    if d:
        out.append(d)
    return ['[%s] %s' % ('exact' if tol == 0 else 'tol', x) for x in out]


def run_case(case, drv):
    """one correspondence case -> record"""
    r = run_impl(case)
    rec = {'features': list(case.get('features', [])), 'disagreements': [], 'impl': 'error:' + r['error'] if 'error' in r else 'ok'}
    if 'grid_error' in r:
        rec['features'].append('grid-error:' + r['grid_error'])
        return rec
    if r.get('error') in ('NonExistentTimeError', 'AmbiguousTimeError'):
        rec['features'].append('pandas-tz-error')      # pandas refuses a wall-clock time of the input: not modelled
        return rec
    try:
        req = request(case, r)
    except Exception as e:
        if type(e).__name__ in ('NonExistentTimeError', 'AmbiguousTimeError'):
            # a date of the input (or an implicit end derived from it) is no valid wall-clock time in the grid's zone: the harness
            # cannot hand it to the model as an instant (the implementation did not need it: e.g. it failed a parameter check first)
            rec['features'].append('pandas-tz-error')
            return rec
        raise
    mres = drv.ask(req)
    rec['disagreements'] = compare(case, r, mres, req)
    rec['exact'] = is_exact(case, req) and 'problem' in r
    if 'problem' in r:
        rec['nvars'] = len(r['problem']['c'])
        rec['nrows'] = len(r['problem']['rows'])
    return rec


# ------------------------------------------------------------------------------------------ metamorphic oracles (real code only)
def _solve(scn):
    portf, tg, prices, nodes = scen.build(scn)
    with Quiet():
        op = portf.setup_optim_problem(prices, tg)
        res = op.optimize()
    if isinstance(res, str):
        return {'status': res}
    with Quiet():
        out = eao.io.extract_output(portf, op, res, prices)
    return {'status': 'ok', 'value': float(res.value), 'dispatch': out['dispatch'], 'op': op, 'portf': portf, 'tg': tg, 'x': res.x}


def gen_base_portfolio(rnd, g, two_nodes=None):
    """a small portfolio whose optimum is unique for generic prices: fixed demand at node A, capacity-limited
    supplies with pairwise distinct prices, optionally a second node with a supply and a transport to A"""
    gpts = grid_points(g)
    T = len(gpts) - 1
    tz = g['tz']
    two = rnd.random() < 0.5 if two_nodes is None else two_nodes
    nodes = ['A', 'B'] if two else ['A']
    prices = {}
    base = rnd.sample(range(5, 200), 6 * T)
    def series(k):
        return [base[k * T + t] / 3.0 + rnd.random() * 1e-3 for t in range(T)]
    prices['p1'], prices['p2'], prices['p3'], prices['ps'] = series(0), series(1), series(2), [200 + x for x in series(3)]
    prices['tc'] = [x / 50.0 for x in series(4)]
    dem = [round(rnd.uniform(1, 4), 2) for _ in range(T)]
    prices['dem'] = [-d for d in dem]
    wacc = rnd.choice([0.0, 0.0, 0.07])
    assets = [
        {'type': 'SimpleContract', 'name': 'demand', 'nodes': ['A'], 'args': {'min_cap': 'dem', 'max_cap': 'dem', 'wacc': wacc}},
        {'type': 'SimpleContract', 'name': 'sup1', 'nodes': ['A'], 'args': {'price': 'p1', 'min_cap': 0., 'max_cap': 2.5, 'wacc': wacc}},
        {'type': 'SimpleContract', 'name': 'backup', 'nodes': ['A'], 'args': {'price': 'ps', 'min_cap': 0., 'max_cap': 10., 'wacc': wacc}},
    ]
    # a contract with a window inside the horizon and a binding take
    w = place(rnd, gpts, rnd.choice(['inside', 'straddle_start', 'straddle_end', 'none', 'off_grid']), tz)
    a2 = {'price': 'p2', 'min_cap': 0., 'max_cap': 2.0, 'extra_costs': rnd.choice([0., 0.5]), 'wacc': wacc}
    if w[0] is not None:
        a2['start'] = D(w[0])
    if w[1] is not None:
        a2['end'] = D(w[1])
    if rnd.random() < 0.6:
        a2['max_take'] = {'start': [D(gpts[0])], 'end': [D(gpts[-1])], 'values': [round(rnd.uniform(0.5, 3.0), 2)]}
    assets.append({'type': 'Contract', 'name': 'sup2', 'nodes': ['A'], 'args': a2})
    if two:
        assets.append({'type': 'SimpleContract', 'name': 'sup3', 'nodes': ['B'], 'args': {'price': 'p3', 'min_cap': 0., 'max_cap': 3.0, 'wacc': wacc}})
        w = place(rnd, gpts, rnd.choice(['inside', 'none', 'straddle_end', 'only_start']), tz)
        at = {'min_cap': 0., 'max_cap': 2.0, 'efficiency': rnd.choice([1.0, 0.9, 0.5]), 'costs_time_series': 'tc', 'costs_const': 0.1, 'wacc': wacc}
        if w[0] is not None:
            at['start'] = D(w[0])
        if w[1] is not None:
            at['end'] = D(w[1])
        if rnd.random() < 0.5:
            at['max_take'] = {'start': [D(gpts[0])], 'end': [D(gpts[-1])], 'values': [round(rnd.uniform(0.5, 4.0), 2)]}
            assets.append({'type': 'ExtendedTransport', 'name': 'pipe', 'nodes': ['B', 'A'], 'args': at})
        else:
            assets.append({'type': 'Transport', 'name': 'pipe', 'nodes': ['B', 'A'], 'args': at})
    return {'grid': g, 'nodes': nodes, 'prices': prices, 'assets': assets}


def gen_oracle_case(rnd):
    what = rnd.choice(['c08_inert_asset', 'c08_inert_asset', 'c08_inert_take', 'c08_prorate', 'c12_unit', 'c12_unit', 'c12_totals'])
    g = gen_grid(rnd, tmax=8)
    if what == 'c12_totals':
        g = gen_grid(rnd, tmax=10)
        while not (g['tz'] or g['freq'] == 'MS'):
            g = gen_grid(rnd, tmax=10)
    return {'what': what, 'grid': g, 'seed': rnd.getrandbits(40)}


def _window_mask(tg, start, end, tz):
    """steps of the horizon inside [start, end) — by date arithmetic on instants, independent of eaopack's restricted grid"""
    pts = [instant(p, tz) for p in tg.timepoints]
    s = -10 ** 18 if start is None else instant(start, tz)
    e = 10 ** 18 if end is None else instant(end, tz)
    return np.array([(s <= p < e) for p in pts], dtype=bool)


def orc_dispatch_in_window(scn, sol, tag):
    """an asset is never dispatched outside its window clipped to the horizon"""
    viol = []
    disp = sol['dispatch']
    tz = scn['grid'].get('tz')
    multi = len(scn['nodes']) > 1
    for a in scn['assets']:
        args = scen.dec(copy.deepcopy(a['args']))
        mask = _window_mask(sol['tg'], args.get('start'), args.get('end'), tz)
        for n in dict.fromkeys(a['nodes']):
            col = a['name'] + ' (' + n + ')' if multi else a['name']
            if col not in disp.columns:
                continue
            v = np.asarray(disp[col].values, dtype=float)
            bad = np.where((~mask) & (np.abs(v) > 1e-7))[0]
            if len(bad):
                viol.append({'oracle': 'dispatch_in_window', 'detail': '%s: asset %s dispatched %.6g at step %d outside its window' % (tag, a['name'], v[bad[0]], int(bad[0])),
                             'facts': {'asset_type': a['type'], 'what': tag}})
    return viol


def _cmp_solutions(base, ext, scn_base, tag, rel=1e-6, names=None):
    viol = []
    sc = max(1.0, abs(base['value']))
    if abs(base['value'] - ext['value']) > rel * sc:
        viol.append({'oracle': tag, 'detail': 'optimal value %.9g without vs %.9g with the element' % (base['value'], ext['value']),
                     'facts': {'what': 'value'}})
    db, de = base['dispatch'], ext['dispatch']
    for col in db.columns:
        if col not in de.columns:
            viol.append({'oracle': tag, 'detail': 'dispatch column %r disappeared' % col, 'facts': {'what': 'column'}})
            continue
        d = np.abs(np.asarray(db[col].values, float) - np.asarray(de[col].values, float))
        if d.max() > 1e-5 * max(1.0, float(np.abs(db[col].values).max())):
            t = int(np.argmax(d))
            viol.append({'oracle': tag, 'detail': 'dispatch of %s at step %d: %.8g without vs %.8g with the element' % (
                col, t, db[col].values[t], de[col].values[t]), 'facts': {'what': 'dispatch'}})
    return viol


def _outside(w, gpts):
    """fallback when no localisable dates were found for the placement: a window well after the horizon"""
    if w[0] is None or w[1] is None:
        d = (gpts[-1] + pd.Timedelta(days=10)).normalize() + pd.Timedelta(hours=12)
        return (d, d + pd.Timedelta(days=5))
    return w


def run_oracle(oc):
    """-> {'violations': [...], 'features': [...], 'nontrivial': bool}"""
    rnd = random.Random(oc['seed'])
    g = oc['grid']
    tz = g['tz']
    gpts = grid_points(g)
    T = len(gpts) - 1
    what = oc['what']
    rec = {'violations': [], 'features': [what, 'freq:%s/%s' % (g['freq'], g['unit']), 'tz' if tz else 'naive'], 'nontrivial': False}
    V = rec['violations']
    if what in ('c08_inert_asset', 'c08_inert_take'):
        scn = gen_base_portfolio(rnd, g)
        base = _solve(scn)
        if base['status'] != 'ok':
            rec['features'].append('base-unsolved')
            return rec
        V += orc_dispatch_in_window(scn, base, 'base')
        ext = copy.deepcopy(scn)
        node = rnd.choice(scn['nodes'])
        if what == 'c08_inert_asset':
            how = rnd.choice(['before', 'after', 'empty', 'reversed'])
            w = _outside(place(rnd, gpts, how, tz), gpts)
            kind = rnd.choice(['SimpleContract', 'Contract', 'MultiCommodityContract', 'Transport', 'ExtendedTransport'])
            take = {'start': [D(w[0])], 'end': [D(w[1])], 'values': [50.0]}
            # attractive: sells at a high price / buys for nothing, so any dispatch would change the value
            if kind in ('SimpleContract', 'Contract', 'MultiCommodityContract'):
                a = {'start': D(w[0]), 'end': D(w[1]), 'min_cap': -5., 'max_cap': 5., 'extra_costs': rnd.choice([0., 0.25]), 'price': rnd.choice(['p1', 'tc'])}
                nn = [node]
                if kind != 'SimpleContract':
                    a['min_take'] = take
                if kind == 'MultiCommodityContract':
                    nn = list(scn['nodes'])
                    a['factors_commodities'] = [1.0] * len(nn)
            else:
                a = {'start': D(w[0]), 'end': D(w[1]), 'min_cap': 0., 'max_cap': 5., 'efficiency': 1.5, 'costs_const': -1.0}
                nn = [scn['nodes'][0], scn['nodes'][-1]]
                if kind == 'ExtendedTransport':
                    a['min_take'] = take
            ext['assets'].insert(rnd.randint(0, len(ext['assets'])), {'type': kind, 'name': 'ghost', 'nodes': nn, 'args': a})
            rec['features'] += ['ghost:' + kind, 'ghost-window:' + how]
        else:
            # a take period entirely outside the horizon (or outside the asset's window) on an existing asset
            how = rnd.choice(['before', 'after', 'empty'])
            w = _outside(place(rnd, gpts, how, tz), gpts)
            cands = [a for a in ext['assets'] if a['type'] in ('Contract', 'ExtendedTransport')]
            a = rnd.choice(cands)
            key = rnd.choice(['min_take', 'max_take'])
            old = a['args'].get(key)
            new = {'start': [D(w[0])], 'end': [D(w[1])], 'values': [rnd.choice([100.0, 0.0, -3.0])]}
            if old is not None:
                new = {'start': old['start'] + new['start'], 'end': old['end'] + new['end'], 'values': old['values'] + new['values']}
            a['args'][key] = new
            rec['features'] += ['take:' + key, 'take-window:' + how, 'on:' + a['type']]
        sol = _solve(ext)
        if sol['status'] != 'ok':
            V.append({'oracle': 'inert_element', 'detail': 'problem with the out-of-horizon element is %s, without it solved (value %.6g)' % (sol['status'], base['value']),
                      'facts': {'what': 'status'}})
            return rec
        V += _cmp_solutions(base, sol, scn, 'inert_element')
        V += orc_dispatch_in_window(ext, sol, 'ext')
        rec['nontrivial'] = bool(np.abs(base['x']).max() > 1e-6)
        rec['observed'] = {'value': base['value']}
    elif what == 'c08_prorate':
        # take period partly outside horizon / window, on grid-aligned dates: rhs = V * covered / (e - s)
        how_w = rnd.choice(['none', 'inside', 'straddle_start', 'straddle_end'])
        w = place(rnd, gpts, how_w, tz)
        ws = gpts[0] if w[0] is None else max(w[0], gpts[0])
        we = gpts[-1] if w[1] is None else min(w[1], gpts[-1])
        how_t = rnd.choice(['straddle_start', 'straddle_end', 'superset', 'inside'])
        t = place(rnd, gpts, how_t, tz)
        Vv = round(rnd.uniform(1, 50), 2)
        kind = rnd.choice(['Contract', 'ExtendedTransport', 'MultiCommodityContract'])
        a = {'min_cap': 0., 'max_cap': 5., 'max_take': {'start': [D(t[0])], 'end': [D(t[1])], 'values': [Vv]}}
        if w[0] is not None:
            a['start'] = D(w[0])
        if w[1] is not None:
            a['end'] = D(w[1])
        nn = ['A'] if kind == 'Contract' else ['A', 'B']
        spec = {'type': kind, 'name': 'x', 'nodes': nn, 'args': a}
        tg = scen.make_grid(g)
        asset = scen.build_asset(spec, scen.make_nodes(['A', 'B']))
        with Quiet():
            op = asset.setup_optim_problem({}, tg)
        # independent: overlap of [t0,t1) with the window clipped to the horizon, in absolute seconds
        lo = max(instant(t[0], tz), instant(ws, tz))
        hi = min(instant(t[1], tz), instant(we, tz))
        cov = max(0, hi - lo)
        full = instant(t[1], tz) - instant(t[0], tz)
        rec['features'] += ['take:' + how_t, 'window:' + how_w, kind]
        if cov == 0:
            if op.A is not None and op.A.shape[0] > 0:
                V.append({'oracle': 'take_prorated', 'detail': 'a take period covering nothing produced %d rows' % op.A.shape[0], 'facts': {'what': 'rows'}})
        else:
            exp = Vv * cov / full * (-1 if kind == 'ExtendedTransport' else 1)
            if op.A is None or op.A.shape[0] != 1:
                V.append({'oracle': 'take_prorated', 'detail': 'expected one take row, got %s' % (None if op.A is None else op.A.shape[0]), 'facts': {'what': 'rows'}})
            elif abs(float(op.b[0]) - exp) > 1e-9 * max(1, abs(exp)):
                V.append({'oracle': 'take_prorated', 'detail': 'right-hand side %.10g, expected V*covered/(e-s) = %.10g (V=%s covered=%ds of %ds)' % (op.b[0], exp, Vv, cov, full),
                          'facts': {'what': 'rhs'}})
            rec['nontrivial'] = cov < full
    elif what == 'c12_unit':
        scn = gen_base_portfolio(rnd, g)
        units = ['h', 'd', 'min', 's']
        u2 = rnd.choice([u for u in units if u != g['unit']])
        k = Fraction(unit_sec(u2), unit_sec(g['unit']))      # new unit / old unit; dt' = dt / k, rate' = rate * k
        s2 = copy.deepcopy(scn)
        s2['grid'] = dict(g, unit=u2)
        kf = float(k)
        rate_keys = set()
        for a in s2['assets']:
            for key in ('min_cap', 'max_cap'):
                v = a['args'].get(key)
                if isinstance(v, (int, float)):
                    a['args'][key] = v * kf
                elif isinstance(v, str):
                    rate_keys.add(v)
        for key in rate_keys:
            s2['prices'][key] = [v * kf for v in s2['prices'][key]]
        b1 = _solve(scn)
        b2 = _solve(s2)
        rec['features'] += ['unit:%s->%s' % (g['unit'], u2)]
        if b1['status'] != 'ok' or b2['status'] != 'ok':
            if b1['status'] != b2['status']:
                V.append({'oracle': 'unit_change', 'detail': 'status %s in unit %s vs %s in unit %s' % (b1['status'], g['unit'], b2['status'], u2), 'facts': {'what': 'status'}})
            return rec
        sc = max(1.0, abs(b1['value']))
        if abs(b1['value'] - b2['value']) > 1e-7 * sc:
            V.append({'oracle': 'unit_change', 'detail': 'optimal value %.10g in unit %s vs %.10g in unit %s' % (b1['value'], g['unit'], b2['value'], u2), 'facts': {'what': 'value'}})
        for col in b1['dispatch'].columns:
            d = np.abs(np.asarray(b1['dispatch'][col].values, float) - np.asarray(b2['dispatch'][col].values, float))
            if d.max() > 1e-5 * max(1.0, float(np.abs(b1['dispatch'][col].values).max())):
                t = int(np.argmax(d))
                V.append({'oracle': 'unit_change', 'detail': 'dispatched volume of %s at step %d: %.8g in unit %s vs %.8g in unit %s' % (
                    col, t, b1['dispatch'][col].values[t], g['unit'], b2['dispatch'][col].values[t], u2), 'facts': {'what': 'dispatch'}})
        rec['nontrivial'] = bool(np.abs(b1['x']).max() > 1e-6)
        rec['observed'] = {'value': b1['value'], 'k': str(k)}
    elif what == 'c12_totals':
        # unequal steps: sum of per-step limits = rate * elapsed time (elapsed from the dates)
        how_w = rnd.choice(['none', 'inside', 'straddle_start', 'straddle_end'])
        w = place(rnd, gpts, how_w, tz)
        ws = gpts[0] if w[0] is None else max(w[0], gpts[0])
        we = gpts[-1] if w[1] is None else min(w[1], gpts[-1])
        elapsed = Fraction(max(0, instant(we, tz) - instant(ws, tz)), unit_sec(g['unit']))
        lo, hi = -round(rnd.uniform(0, 5), 2), round(rnd.uniform(0, 5), 2)
        kind = rnd.choice(['SimpleContract', 'Contract', 'Transport', 'ExtendedTransport'])
        a = {'min_cap': lo if kind in ('SimpleContract', 'Contract') else 0., 'max_cap': hi}
        if kind in ('SimpleContract', 'Contract') and rnd.random() < 0.5:
            a['extra_costs'] = 1.0
        if w[0] is not None:
            a['start'] = D(w[0])
        if w[1] is not None:
            a['end'] = D(w[1])
        nn = ['A'] if kind in ('SimpleContract', 'Contract') else ['A', 'B']
        tg = scen.make_grid(g)
        asset = scen.build_asset({'type': kind, 'name': 'x', 'nodes': nn, 'args': a}, scen.make_nodes(['A', 'B']))
        with Quiet():
            op = asset.setup_optim_problem({}, tg)
        su, sl = float(np.sum(op.u)), float(np.sum(op.l))
        eu, el = a['max_cap'] * float(elapsed), a['min_cap'] * float(elapsed)
        rec['features'] += [kind, 'window:' + how_w]
        dts = set(np.round(tg.dt, 9))
        rec['nontrivial'] = len(dts) > 1
        for nm, got, exp in (('upper', su, eu), ('lower', sl, el)):
            if abs(got - exp) > 1e-9 * max(1.0, abs(exp)):
                V.append({'oracle': 'limits_follow_dt', 'detail': 'sum of %s limits %.10g, expected rate x elapsed = %.10g (elapsed %s %s)' % (nm, got, exp, float(elapsed), g['unit']),
                          'facts': {'what': nm, 'asset_type': kind}})
    return rec


# ------------------------------------------------------------------------------------------ self test
def selftest(n, seed, drv, n_oracle=None, verbose=False):
    """n correspondence cases (every 5th malformed) + n_oracle oracle cases; returns counts and findings"""
    rnd = random.Random(seed)
    feats = {}
    dis = []
    counts = {'cases': 0, 'impl_ok': 0, 'impl_error': 0, 'exact': 0, 'with_rows': 0, 'malformed': 0, 'harness_errors': 0}
    for i in range(n):
        case = gen_case(random.Random(rnd.getrandbits(48)), malformed=(i % 5 == 4))
        try:
            rec = run_case(case, drv)
        except Exception as e:
            counts['harness_errors'] += 1
            dis.append({'case': case, 'detail': 'harness error %s: %s' % (type(e).__name__, traceback.format_exc()[-600:])})
            continue
        counts['cases'] += 1
        counts['malformed'] += int(i % 5 == 4)
        counts['impl_ok' if rec['impl'] == 'ok' else 'impl_error'] += 1
        counts['exact'] += int(bool(rec.get('exact')))
        counts['with_rows'] += int(rec.get('nrows', 0) > 0)
        for f in rec['features'] + [rec['impl']]:
            feats[f] = feats.get(f, 0) + 1
        for d in rec['disagreements']:
            dis.append({'case': case, 'detail': d})
            if verbose:
                print('DISAGREE', d)
    viol = []
    ocounts = {'oracle_cases': 0, 'nontrivial': 0, 'harness_errors': 0}
    n_oracle = n // 5 if n_oracle is None else n_oracle
    for i in range(n_oracle):
        oc = gen_oracle_case(random.Random(rnd.getrandbits(48)))
        try:
            rec = run_oracle(oc)
        except Exception as e:
            ocounts['harness_errors'] += 1
            viol.append({'oracle': 'harness-error', 'detail': '%s\n%s' % (oc, traceback.format_exc()[-800:])})
            continue
        ocounts['oracle_cases'] += 1
        ocounts['nontrivial'] += int(rec['nontrivial'])
        for f in rec['features']:
            feats['orc:' + f] = feats.get('orc:' + f, 0) + 1
        for v in rec['violations']:
            v['case'] = oc
            viol.append(v)
            if verbose:
                print('VIOLATION', v['oracle'], v['detail'])
    return {'counts': counts, 'oracle_counts': ocounts, 'disagreements': dis, 'violations': viol, 'features': dict(sorted(feats.items()))}


class ScratchDriver:
    """development driver: interprets a scratch Main.lean (before the handler is linked into eaodrv)"""

    def __init__(self, main='/tmp/pkgc/Main.lean'):
        import subprocess
        import json as _json
        from ..lean import LEAN_DIR
        self._json = _json
        self.p = subprocess.Popen(['lake', 'env', 'lean', '--run', main], cwd=LEAN_DIR, stdin=subprocess.PIPE,
                                  stdout=subprocess.PIPE, text=True, bufsize=1)

    def ask(self, req):
        self.p.stdin.write(self._json.dumps(req) + '\n')
        self.p.stdin.flush()
        line = self.p.stdout.readline()
        if not line:
            raise RuntimeError('driver died')
        return self._json.loads(line)

    def close(self):
        try:
            self.p.stdin.close()
            self.p.wait(timeout=5)
        except Exception:
            self.p.kill()


if __name__ == '__main__':
    import sys
    import json
    n = int(sys.argv[1]) if len(sys.argv) > 1 else 100
    seed = int(sys.argv[2]) if len(sys.argv) > 2 else 0
    no = int(sys.argv[3]) if len(sys.argv) > 3 else None
    drv = ScratchDriver()
    try:
        r = selftest(n, seed, drv, n_oracle=no, verbose=True)
    finally:
        drv.close()
    print(json.dumps(r['counts']), json.dumps(r['oracle_counts']))
    print('disagreements', len(r['disagreements']), 'violations', len(r['violations']))
    for d in r['disagreements'][:8]:
        print('--', d['detail'])
        print('   ', json.dumps(d['case'])[:1500])
    for v in r['violations'][:8]:
        print('**', v['oracle'], v['detail'])
        print('   ', json.dumps(v.get('case'))[:600])
    if '-f' in sys.argv:
        print(json.dumps(r['features'], indent=0))
