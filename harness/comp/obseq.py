"""Component `OrderBook`, stream `books` (property C20): SEVERAL order books in one portfolio and the SAME objects set up
again and again after something changed.

A case is a plain JSON value:
  stream     : 'books'
  grid       : {start, end, freq, unit, tz, step_s}                      grid of the first stage
  nodes      : [names]                                                   one or two nodes
  books      : [{name, node, wacc, full_exec, orders:{start,end,capa,price}, cols}]   1..3 order books (own numbering from 0)
                                                                         cols: 'list' | 'array' | 'frame' (container of the columns)
  markets    : [{name, node, key, M, wacc}]                              one market contract per node
  loads      : [{name, node, load}]                                      fixed off-take (sometimes)
  transport  : None | {name, from, to, M, cost}                          one-directional link between the two nodes (sometimes)
  order      : [asset names]                                             position of the assets in the portfolio
  prices     : {key: [floats]}
  stages     : [{edits: [...], fresh_grid: bool}]                        stage 0 has no edits; a later stage applies its edits to the
                                                                         SAME asset / portfolio objects and sets the portfolio up again
     edit = {what:'unit', unit}                      the same start / end / frequency measured in another main time unit
          | {what:'orders', book, orders, cols}      the order list of a book replaced (attribute `orders`)
          | {what:'wacc', book, wacc}                attribute `wacc` of a book
          | {what:'full_exec', book, value}          attribute `full_exec` of a book
          | {what:'prices', prices}                  new price arrays
          | {what:'tz', tz}                          the same wall-clock start / end / frequency in another time zone
          | {what:'grid', grid, prices}              another horizon (start / end / frequency)
          | {what:'reorder', order}                  a new Portfolio object from the same asset objects in another order
          | {what:'probe', book, unit}               `costs_only` set-up of one book (on the stage's grid measured in `unit`)
          | {what:'none'}

Every stage is judged by C20's own statement, per order book: the fractions reported in the `special` table (one row per
order with a step in the horizon, numbered per book) lie in [0,1] / {0,1}, reproduce the book's dispatch column
(sum fraction x capacity x step length over the orders covering the step) and its cash flow (- sum fraction x capacity x
price x discounted covered duration), and the optimum equals that of an independent formulation with one execution
variable per order (all books, markets, loads and the link in one LP; full execution: enumeration of 0/1 patterns).
Step lengths, discount factors and covers of the reference are computed here from the stage's grid description (never
read from the grid or asset objects).
"""
import copy
import random

import numpy as np
import pandas as pd

import eaopack as eao
from .. import scen, impl, pf
from ..impl import Quiet, problem_json
from .common import grid_json, instant
from . import orderbook as OB

V = OB.V
UNIT_S = {'h': 3600.0, 'd': 86400.0, 'min': 60.0}
BOOK_NAMES = ['ob', 'orders', 'book_1', 'book_2', '1', 'ob_2', 'ob2', 'intraday', 'day_ahead', 'book']
NODE_NAMES = ['n1', 'hub', 'A', 'B', 'north']
MAX_BOOL = 6            # orders of full-execution books per case (the reference enumerates their 0/1 patterns)


# ------------------------------------------------------------------------------------------- generator
def gen_orders(rnd, g, pts, generic):
    n = rnd.randint(1, 5)
    numkinds = OB.gen_numkinds(rnd)
    orders = [OB.gen_order(rnd, g, pts, generic=generic and numkinds[1] == 'float', numkinds=numkinds) for _ in range(n)]
    return {k: [o[k] for o in orders] for k in ('start', 'end', 'capa', 'price')}


def gen_prices(rnd, keys, T):
    generic = rnd.random() < 0.7
    return {k: [round(rnd.uniform(-3, 25), 4) if generic else OB.q8(rnd, -3, 25) for _ in range(T)] for k in keys}


def n_bool(books):
    return sum(len(b['orders']['capa']) for b in books if b['full_exec'])


def localisable(g, books, tz):
    """can the grid's start / end and every naive order date be read in zone `tz`?"""
    try:
        pd.date_range(pd.Timestamp(g['start'], tz=tz), pd.Timestamp(g['end'], tz=tz), freq=g['freq'])
        for b in books:
            o = scen.dec(copy.deepcopy(b['orders']))
            for x in list(o['start']) + list(o['end']):
                instant(x, tz)
        return True
    except Exception:
        return False


def n_steps(g):
    return len(OB.all_points(g)) - 1


def gen_case(rnd):
    g = OB.gen_grid(rnd, tmax=8)
    pts = OB.all_points(g)
    T = len(pts) - 1
    nodes = rnd.sample(NODE_NAMES, 1 if rnd.random() < 0.5 else 2)
    K = rnd.choice([2, 2, 2, 3, 3, 1])
    generic = rnd.random() < 0.5
    books = []
    for name in rnd.sample(BOOK_NAMES, K):
        b = {'name': name, 'node': rnd.choice(nodes), 'orders': gen_orders(rnd, g, pts, generic),
             'wacc': 0.0 if rnd.random() < 0.5 else rnd.choice([0.05, 0.1, 0.5, 0.0725]),
             'full_exec': rnd.random() < 0.35, 'cols': rnd.choice(['list', 'list', 'array', 'frame'])}
        if b['full_exec'] and n_bool(books + [b]) > MAX_BOOL:
            b['full_exec'] = False
        books.append(b)
    if K >= 2:
        mode = rnd.choice(['same', 'split', 'random']) if len(nodes) == 2 else 'same'
        if mode == 'same':                     # two market places at one node
            books[1]['node'] = books[0]['node']
        elif mode == 'split':                  # one book per node
            books[0]['node'], books[1]['node'] = nodes[0], nodes[1]
    markets, loads = [], []
    for i, nd in enumerate(nodes):
        load = OB.q8(rnd, 0.5, 3) if rnd.random() < 0.4 else None
        M = (load or 0.0) + OB.q8(rnd, 0.25, 5)
        markets.append({'name': 'market' if i == 0 else 'market_' + nd, 'node': nd, 'key': 'p' if i == 0 else 'p_' + nd, 'M': M,
                        'wacc': rnd.choice([0.0, 0.0, 0.1, 0.03])})
        if load is not None:
            loads.append({'name': 'load' if i == 0 else 'load_' + nd, 'node': nd, 'load': load})
    transport = None
    if len(nodes) == 2 and rnd.random() < 0.6:
        a, b = rnd.sample(nodes, 2)
        transport = {'name': 'link', 'from': a, 'to': b, 'M': OB.q8(rnd, 0.25, 4), 'cost': rnd.choice([0.0, 0.0, 0.125, 1.5])}
    names = [b['name'] for b in books] + [m['name'] for m in markets] + [x['name'] for x in loads] + ([transport['name']] if transport else [])
    rnd.shuffle(names)
    keys = [m['key'] for m in markets]
    case = {'stream': 'books', 'grid': g, 'nodes': nodes, 'books': books, 'markets': markets, 'loads': loads, 'transport': transport,
            'order': names, 'prices': gen_prices(rnd, keys, T), 'stages': [{'edits': [], 'fresh_grid': True}]}
    # ---- later stages: edits of the same objects
    cur_g = dict(g)
    cur = copy.deepcopy(books)
    for _ in range(rnd.choice([0, 1, 2, 2, 3, 3])):
        edits = []
        grid_changed = False
        for _k in range(rnd.choice([1, 1, 2])):
            what = rnd.choice(['unit', 'unit', 'unit', 'orders', 'orders', 'orders', 'wacc', 'wacc', 'full_exec', 'full_exec',
                               'prices', 'prices', 'tz', 'grid', 'reorder', 'probe', 'none'])
            bi = rnd.randrange(K)
            if what == 'unit':
                u = rnd.choice([x for x in ('h', 'd', 'min') if x != cur_g['unit']])
                cur_g['unit'] = u
                edits.append({'what': 'unit', 'unit': u})
                grid_changed = True
            elif what == 'orders':
                o = gen_orders(rnd, cur_g, OB.all_points(cur_g), generic)
                if cur[bi]['full_exec'] and n_bool(cur) - len(cur[bi]['orders']['capa']) + len(o['capa']) > MAX_BOOL:
                    continue
                cur[bi]['orders'] = o
                edits.append({'what': 'orders', 'book': bi, 'orders': o, 'cols': rnd.choice(['list', 'list', 'array'])})
            elif what == 'wacc':
                w = rnd.choice([x for x in (0.0, 0.05, 0.1, 0.5, 0.0725) if x != cur[bi]['wacc']])
                cur[bi]['wacc'] = w
                edits.append({'what': 'wacc', 'book': bi, 'wacc': w})
            elif what == 'full_exec':
                val = not cur[bi]['full_exec']
                if val and n_bool(cur) + len(cur[bi]['orders']['capa']) > MAX_BOOL:
                    continue
                cur[bi]['full_exec'] = val
                edits.append({'what': 'full_exec', 'book': bi, 'value': val})
            elif what == 'prices':
                edits.append({'what': 'prices', 'prices': gen_prices(rnd, keys, n_steps(cur_g))})
            elif what == 'tz':
                tz = rnd.choice([z for z in OB.ZONES if z != cur_g['tz']])
                g2 = dict(cur_g, tz=tz)
                if not localisable(g2, cur, tz) or n_steps(g2) != n_steps(cur_g):
                    continue
                cur_g = g2
                edits.append({'what': 'tz', 'tz': tz})
                grid_changed = True
            elif what == 'grid':
                if cur_g['freq'] == 'MS':
                    continue
                step = cur_g['step_s']
                s0 = pd.Timestamp(cur_g['start'])
                if cur_g['freq'] == 'd':
                    s2 = s0 + pd.DateOffset(days=rnd.randint(-1, 2))
                    e2 = s2 + pd.DateOffset(days=rnd.randint(1, 6))
                else:
                    s2 = s0 + rnd.randint(-2, 3) * pd.Timedelta(seconds=step)
                    e2 = s2 + rnd.randint(1, 8) * pd.Timedelta(seconds=step)
                g2 = dict(cur_g, start=OB.iso(s2), end=OB.iso(e2))
                if cur_g['tz'] is not None and not localisable(g2, cur, cur_g['tz']):
                    continue
                try:
                    T2 = n_steps(g2)
                except Exception:
                    continue
                if T2 < 1:
                    continue
                cur_g = g2
                edits.append({'what': 'grid', 'grid': dict(g2), 'prices': gen_prices(rnd, keys, T2)})
                grid_changed = True
            elif what == 'reorder':
                names = list(names)
                rnd.shuffle(names)
                edits.append({'what': 'reorder', 'order': list(names)})
            elif what == 'probe':
                edits.append({'what': 'probe', 'book': bi, 'unit': rnd.choice(['h', 'd', 'min', cur_g['unit']])})
            else:
                edits.append({'what': 'none'})
        case['stages'].append({'edits': edits, 'fresh_grid': grid_changed or rnd.random() < 0.6})
    return case


# ------------------------------------------------------------------------------------------- real objects
def shape_cols(orders, cols):
    """decoded order columns in the container the case asks for"""
    o = scen.dec(copy.deepcopy(orders))
    if cols == 'array':
        return {'start': list(o['start']), 'end': list(o['end']), 'capa': np.asarray(o['capa']), 'price': np.asarray(o['price'])}
    if cols == 'frame':
        return pd.DataFrame({k: list(o[k]) for k in ('start', 'end', 'capa', 'price')})
    return {k: list(o[k]) for k in ('start', 'end', 'capa', 'price')}


def build_assets(case, nodes):
    assets = {}
    for b in case['books']:
        assets[b['name']] = eao.assets.OrderBook(name=b['name'], nodes=nodes[b['node']], orders=shape_cols(b['orders'], b.get('cols')),
                                                 wacc=b['wacc'], full_exec=b['full_exec'])
    for m in case['markets']:
        assets[m['name']] = eao.assets.SimpleContract(name=m['name'], nodes=nodes[m['node']], price=m['key'], min_cap=-m['M'], max_cap=m['M'], wacc=m['wacc'])
    for x in case['loads']:
        assets[x['name']] = eao.assets.SimpleContract(name=x['name'], nodes=nodes[x['node']], min_cap=-x['load'], max_cap=-x['load'])
    tr = case['transport']
    if tr:
        assets[tr['name']] = eao.assets.Transport(name=tr['name'], nodes=[nodes[tr['from']], nodes[tr['to']]], min_cap=0.0, max_cap=tr['M'],
                                                  costs_const=tr['cost'], efficiency=1.0)
    return assets


# ------------------------------------------------------------------------------------------- independent reference
def grid_facts(g):
    """points (instants), step lengths and elapsed time at the end of each step in the main time unit - from the description"""
    pts = OB.all_points(g)
    u = UNIT_S[g['unit']]
    dt = [(b - a) / u for a, b in zip(pts[:-1], pts[1:])]
    Dt = list(np.cumsum(dt))
    return {'pts': pts[:-1], 'dt': dt, 'Dt': Dt, 'unit': g['unit'], 'T': len(dt)}


def book_facts(g, G, book):
    """exact cover and discounted duration of every order of one book on the stage's grid"""
    o = scen.dec(copy.deepcopy(book['orders']))
    tz = g['tz']
    ss = [instant(x, tz) for x in o['start']]
    ee = [instant(x, tz) for x in o['end']]
    cover = [[t for t, p in enumerate(G['pts']) if s <= p < e] for s, e in zip(ss, ee)]
    df = OB.discount(book['wacc'], G['Dt'], G['unit'])
    W = [sum(G['dt'][t] * df[t] for t in cv) for cv in cover]
    return {'cover': cover, 'capa': [float(v) for v in o['capa']], 'price': [float(v) for v in o['price']], 'W': W,
            'live': [k for k, cv in enumerate(cover) if cv]}


def reference(case, state, G, BF):
    """one LP for the whole portfolio: per order one execution variable, per market and step one variable, per step one flow
    of the link; balance per node and step.  Returns (value, ref) or (None, message)"""
    T = G['T']
    dt = G['dt']
    nodes = case['nodes']
    off, N = {}, 0
    for b in state['books']:
        off[b['name']] = N
        N += len(BF[b['name']]['capa'])
    for m in case['markets']:
        off[m['name']] = N
        N += T
    tr = case['transport']
    if tr:
        off[tr['name']] = N
        N += T
    c, lo, hi = np.zeros(N), np.zeros(N), np.ones(N)
    A = np.zeros((len(nodes) * T, N))
    rhs = np.zeros(len(nodes) * T)
    row = {(nd, t): i * T + t for i, nd in enumerate(nodes) for t in range(T)}
    for b in state['books']:
        F = BF[b['name']]
        for k in range(len(F['capa'])):
            j = off[b['name']] + k
            c[j] = F['capa'][k] * F['price'][k] * F['W'][k]
            for t in F['cover'][k]:
                A[row[(b['node'], t)], j] += F['capa'][k] * dt[t]
    for m in case['markets']:
        df = OB.discount(m['wacc'], G['Dt'], G['unit'])
        p = state['prices'][m['key']]
        for t in range(T):
            j = off[m['name']] + t
            c[j] = p[t] * df[t]
            lo[j], hi[j] = -m['M'] * dt[t], m['M'] * dt[t]
            A[row[(m['node'], t)], j] = 1.0
    for x in case['loads']:
        for t in range(T):
            rhs[row[(x['node'], t)]] += x['load'] * dt[t]
    if tr:
        for t in range(T):
            j = off[tr['name']] + t
            c[j] = tr['cost']
            lo[j], hi[j] = 0.0, tr['M'] * dt[t]
            A[row[(tr['from'], t)], j] = -1.0
            A[row[(tr['to'], t)], j] = 1.0
    ref = {'c': c, 'lo': lo, 'hi': hi, 'A': A, 'rhs': rhs, 'off': off, 'N': N}
    bools = [off[b['name']] + k for b in state['books'] if b['full_exec'] for k in BF[b['name']]['live']]
    best, bx, msg = None, None, 'no feasible execution pattern'
    for pat in range(1 << len(bools)):
        l2, h2 = lo.copy(), hi.copy()
        for i, j in enumerate(bools):
            l2[j] = h2[j] = float((pat >> i) & 1)
        v, x = OB.solve_lp(c, A, rhs, rhs, l2, h2)
        if v is not None and (best is None or v > best):
            best, bx = v, x
        elif v is None:
            msg = x
    if best is None:
        return None, msg
    ref['x'] = bx
    return best, ref


# ------------------------------------------------------------------------------------------- one stage
def special_rows(out, name):
    sp = out['special']
    rows = []
    for _, r in sp[sp['asset'] == name].iterrows():
        rows.append({'name': str(r['name']), 'value': float(r['value']), 'costs': float(r['costs'])})
    return rows


def judge_stage(case, state, rec, si, whats):
    """C20's statement on one solved stage: (violations, observations)"""
    viol, obs = [], {}
    g = state['grid']
    G = grid_facts(g)
    T = G['T']
    base = {'stream': 'books', 'stage': si, 'edits': whats, 'books': len(state['books']), 'nodes': len(case['nodes'])}
    tag = 'stage %d%s' % (si, (' (after ' + '+'.join(whats) + ')') if whats else '')
    if int(rec['tg'].T) != T:
        raise RuntimeError('generator: grid of stage %d has %d steps, description gives %d' % (si, int(rec['tg'].T), T))
    BF = {b['name']: book_facts(g, G, b) for b in state['books']}
    if isinstance(rec['res'], str):
        viol.append(V('order_reference', '%s: portfolio with %d order book(s) not solved (%s) although zero execution is feasible' % (tag, len(state['books']), rec['res']),
                      what='unsolved', **base))
        return viol, obs
    out = rec['out']
    cols = impl.disp_cols(rec['portf'])
    val = float(rec['res'].value)
    fracs = {}
    tol = 1e-6
    executed = 0
    for b in state['books']:
        F = BF[b['name']]
        fb = dict(base, book=b['name'], book_position=[x['name'] for x in state['books']].index(b['name']))
        rows = special_rows(out, b['name'])
        names = [r['name'] for r in rows]
        if sorted(names) != sorted(str(k) for k in F['live']):
            viol.append(V('order_report', '%s: order book %r: special table lists orders %s, orders with a step in the horizon are %s' % (tag, b['name'], names, F['live']),
                          what='rows', **fb))
        frac = {}
        for r in rows:
            try:
                k = int(float(r['name']))
            except ValueError:
                continue
            if 0 <= k < len(F['capa']):
                frac[k] = r['value']
        fracs[b['name']] = frac
        for k, f in frac.items():
            if not (-tol <= f <= 1 + tol):
                viol.append(V('order_fraction', '%s: order book %r: order %d executed at fraction %.9g outside [0,1]' % (tag, b['name'], k, f), order=k, **fb))
            if b['full_exec'] and min(abs(f), abs(f - 1)) > tol:
                viol.append(V('order_full_exec', '%s: order book %r: full execution enforced but order %d executed at fraction %.9g' % (tag, b['name'], k, f), order=k, **fb))
        executed += sum(1 for f in frac.values() if f > tol)
        sc = 1.0 + max([abs(v) for v in F['capa']] + [0]) * max(G['dt'] + [0])
        disp = out['dispatch'][cols[(b['name'], b['node'])]].values.astype(float)
        for t in range(T):
            exp = sum(frac.get(k, 0.0) * F['capa'][k] * G['dt'][t] for k in F['live'] if t in F['cover'][k])
            if abs(disp[t] - exp) > 1e-6 * sc:
                viol.append(V('order_delivery', '%s: order book %r, step %d: delivers %.9g, sum over covering orders of reported fraction*capa*dt is %.9g' % (
                    tag, b['name'], t, disp[t], exp), step=t, **fb))
                break
        cash = float(np.nansum(out['DCF'][b['name']].values.astype(float)))
        exp = -sum(frac.get(k, 0.0) * F['capa'][k] * F['price'][k] * F['W'][k] for k in F['live'])
        csc = 1.0 + sum(abs(F['capa'][k] * F['price'][k] * F['W'][k]) for k in F['live'])
        if abs(cash - exp) > 1e-6 * csc:
            viol.append(V('order_cash', '%s: order book %r: cash flow %.9g, expected -sum reported fraction*capa*price*discounted covered duration = %.9g' % (
                tag, b['name'], cash, exp), what='dcf', **fb))
        for r in rows:
            try:
                k = int(float(r['name']))
            except ValueError:
                continue
            if 0 <= k < len(F['capa']):
                e = r['value'] * F['capa'][k] * F['price'][k] * F['W'][k]
                if abs(r['costs'] - e) > 1e-6 * csc:
                    viol.append(V('order_report', '%s: order book %r: special table reports costs %.9g for order %d, expected %.9g' % (tag, b['name'], r['costs'], k, e),
                                  what='costs', order=k, **fb))
    obs.update({'value': val, 'executed': executed, 'live': sum(len(BF[b['name']]['live']) for b in state['books']),
                'shared_numbers': sum(1 for k in set().union(*[set(BF[b['name']]['live']) for b in state['books']])
                                       if sum(1 for b in state['books'] if k in BF[b['name']]['live']) >= 2)})
    # ---- optimum = independent per-order formulation
    rv, ref = reference(case, state, G, BF)
    if rv is None:
        viol.append(V('order_reference', '%s: reference formulation not solved: %s' % (tag, ref), what='reference_unsolved', **base))
        return viol, obs
    vs = 1e-6 * (1.0 + abs(rv) + float(np.abs(ref['c']).sum()))
    obs['ref_value'] = rv
    if abs(rv - val) > vs:
        viol.append(V('order_reference', '%s: optimum with %d order book(s) %.9g, optimum of the independent per-order formulation %.9g' % (tag, len(state['books']), val, rv),
                      what='value', **base))
    x = np.zeros(ref['N'])
    for b in state['books']:
        for k, f in fracs[b['name']].items():
            x[ref['off'][b['name']] + k] = f
    for m in case['markets']:
        x[ref['off'][m['name']]:ref['off'][m['name']] + T] = out['dispatch'][cols[(m['name'], m['node'])]].values.astype(float)
    tr = case['transport']
    if tr:
        x[ref['off'][tr['name']]:ref['off'][tr['name']] + T] = out['dispatch'][cols[(tr['name'], tr['to'])]].values.astype(float)
    sc = 1.0 + float(np.abs(x).max())
    ax = ref['A'] @ x
    worst = max(float(np.max(ref['lo'] - x)), float(np.max(x - ref['hi'])), float(np.max(np.abs(ax - ref['rhs'])))) / sc
    own = -float(ref['c'] @ x)
    if worst > 1e-6:
        viol.append(V('order_reference', '%s: reported fractions and dispatch of the output violate the independent formulation by %.3g' % (tag, worst), what='feasible', **base))
    elif abs(own - val) > vs:
        viol.append(V('order_reference', '%s: reported value %.9g but reported fractions and dispatch are worth %.9g in the independent formulation' % (tag, val, own),
                      what='worth', **base))
    return viol, obs


def tie_stage(case, state, captured, drv, si):
    """correspondence of each book's own problem (as set up in this stage) with the model's builder"""
    dis = []
    for b in state['books']:
        op = captured.get(b['name'])
        if op is None:
            continue
        pc = {'grid': state['grid'], 'frame': False, 'form': None,
              'ob': {'type': 'OrderBook', 'name': b['name'], 'nodes': [b['node']], 'args': {'orders': b['orders'], 'wacc': b['wacc'], 'full_exec': b['full_exec']}}}
        tz = state['grid']['tz']
        ir = {'grid': grid_json(OB.own_grid(pc).restricted, tz), 'problem': problem_json(op, name=b['name'], nodes=[b['node']]),
              'raw_order': [(int(i), int(t)) for i, t in zip(op.mapping.index, op.mapping['time_step'])] if len(op.mapping) else []}
        mr = drv.ask(OB.request(pc, ir))
        if 'ok' not in mr:
            dis.append('orderbook: stage %d book %r: driver rejected the request: %s' % (si, b['name'], str(mr)[:200]))
        else:
            dis += ['stage %d book %r: %s' % (si, b['name'], d) for d in OB.compare(pc, ir, mr['ok'])]
    return dis


def run_case(case, drv):
    r = {'evaluated': 1, 'nontrivial': False, 'disagreements': [], 'violations': [], 'features': ['stream:books'], 'observed': {}}
    f = r['features']
    nodes = scen.make_nodes(case['nodes'])
    with Quiet():
        assets = build_assets(case, nodes)
        portf = eao.portfolio.Portfolio([assets[n] for n in case['order']])
    state = {'grid': dict(case['grid']), 'books': copy.deepcopy(case['books']), 'prices': copy.deepcopy(case['prices'])}
    tg = None
    f += ['books:%d' % len(case['books']), 'nodes:%d' % len(case['nodes']), 'stages:%d' % len(case['stages'])]
    if len({b['node'] for b in case['books']}) < len(case['books']):
        f.append('books_share_node')
    if len({b['node'] for b in case['books']}) > 1:
        f.append('books_on_different_nodes')
    if case['transport']:
        f.append('link')
    dis = []
    stages_obs = []
    for si, st in enumerate(case['stages']):
        whats = []
        for e in st['edits']:
            w = e['what']
            whats.append(w)
            f.append('edit:' + w)
            if w == 'unit':
                state['grid']['unit'] = e['unit']
            elif w == 'tz':
                state['grid']['tz'] = e['tz']
            elif w == 'grid':
                state['grid'] = dict(e['grid'])
                state['prices'] = copy.deepcopy(e['prices'])
            elif w == 'prices':
                state['prices'] = copy.deepcopy(e['prices'])
            elif w == 'orders':
                b = state['books'][e['book']]
                b['orders'] = copy.deepcopy(e['orders'])
                assets[b['name']].orders = shape_cols(e['orders'], e.get('cols'))
            elif w == 'wacc':
                b = state['books'][e['book']]
                b['wacc'] = e['wacc']
                assets[b['name']].wacc = e['wacc']
            elif w == 'full_exec':
                b = state['books'][e['book']]
                b['full_exec'] = e['value']
                assets[b['name']].full_exec = e['value']
            elif w == 'reorder':
                with Quiet():
                    portf = eao.portfolio.Portfolio([assets[n] for n in e['order']])
            elif w == 'probe':
                # the cost vector of one book alone (`costs_only`): capacity x price x discounted covered duration per order
                b = state['books'][e['book']]
                gp = dict(state['grid'], unit=e['unit'])
                Gp = grid_facts(gp)
                Fp = book_facts(gp, Gp, b)
                with Quiet():
                    cvec = np.asarray(assets[b['name']].setup_optim_problem(None, scen.make_grid(gp), costs_only=True), dtype=float)
                exp = np.asarray([Fp['capa'][k] * Fp['price'][k] * Fp['W'][k] for k in range(len(Fp['capa']))])
                csc = 1.0 + float(np.abs(exp).sum())
                if len(cvec) != len(exp) or float(np.abs(cvec - exp).max(initial=0.0)) > 1e-9 * csc:
                    r['violations'].append(V('order_cash', 'stage %d: cost vector of order book %r alone (costs_only, main time unit %s): %s, capacity*price*discounted covered duration per order: %s' % (
                        si, b['name'], e['unit'], [round(float(v), 6) for v in cvec][:8], [round(float(v), 6) for v in exp][:8]),
                        what='costs_only', stream='books', stage=si, edits=whats[:], book=b['name'], books=len(state['books']), nodes=len(case['nodes'])))
        if tg is None or st.get('fresh_grid', True):
            tg = scen.make_grid(state['grid'])
        prices = {k: np.asarray(v, dtype=float) for k, v in state['prices'].items()}
        rec = {'portf': portf, 'tg': tg, 'prices': prices}
        with Quiet(), impl.Capture(portf) as cap:
            rec['op'] = portf.setup_optim_problem(prices, tg)
        captured = {k: v[-1] for k, v in cap.caught.items()}
        pf.solve_rec(rec)
        v, obs = judge_stage(case, state, rec, si, whats)
        r['violations'] += v
        stages_obs.append(obs)
        if obs.get('executed', 0) > 0:
            r['nontrivial'] = True
        if obs.get('shared_numbers', 0) > 0:
            f.append('equal_order_numbers_live')
        if drv is not None:
            dis += tie_stage(case, state, captured, drv, si)
        if r['violations']:
            break               # later stages start from objects in an unknown state
    r['observed'] = {'stages': stages_obs}
    r['features'] = sorted(set(f))
    r['disagreements'] = [{'component': 'orderbook', 'detail': d} for d in dis]
    return r


if __name__ == '__main__':
    import sys
    import json
    nn = int(sys.argv[1]) if len(sys.argv) > 1 else 50
    sd = int(sys.argv[2]) if len(sys.argv) > 2 else 0
    use_drv = len(sys.argv) > 3 and sys.argv[3] == 'drv'
    d = None
    if use_drv:
        from ..lean import Driver
        d = Driver()
    rnd0 = random.Random(sd)
    feats, nv, nd_, nt = {}, 0, 0, 0
    import time
    t0 = time.time()
    for i in range(nn):
        cs = gen_case(random.Random(rnd0.getrandbits(48)))
        cs = json.loads(json.dumps(cs))
        try:
            rr = run_case(cs, d)
        except Exception as ex:
            import traceback
            print('ERR', i, type(ex).__name__, ex)
            traceback.print_exc()
            continue
        for x in rr['features']:
            feats[x] = feats.get(x, 0) + 1
        nt += rr['nontrivial']
        for vv in rr['violations']:
            nv += 1
            print('VIOL', i, vv['oracle'], vv['detail'][:300])
        for dd in rr['disagreements']:
            nd_ += 1
            print('DIS', i, dd['detail'][:300])
    print(json.dumps(feats, indent=1, sort_keys=True))
    print('cases', nn, 'nontrivial', nt, 'violations', nv, 'disagreements', nd_, 'wall %.1fs' % (time.time() - t0))
