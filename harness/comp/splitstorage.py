"""C14 for portfolios WITH storages: the split set-up (`Portfolio.setup_split_optim_problem`) of a portfolio of contracts,
transports and `eaopack.assets.Storage` against the Lean model `EAO.Model.SplitStorage` (driver op `split_storage`), and the
registry of the theorems of `EAO.Properties.C14Storage`.

A case is a plain JSON value (as for `harness.comp.splitbuild`):
  {grid: {start, end, freq, unit, tz, ...}, nodes: [names], prices: {key: [floats]}, assets: [spec as in harness.scen],
   interval: pandas frequency string, skip: [node names], stream: 'lp' | 'mip', exact: bool}

* run_impl(case)           real code on fresh objects: the unsplit problem, the interval problems (`SplitOptimProblem.ops`), the
                           cut instants as the code computes them, every asset's window and discount factors on the full grid
* request(case, impl)      JSON request for the Lean driver (op `split_storage`)
* compare(case, impl, m)   disagreement strings: unsplit problem, every interval problem (cost, bounds, rows in order, mapping in
                           order, nodal record with the original steps), error classes, the explicit matching of the variables
* oracle(case, impl, m)    (a) `hyps` (splitHypsS) true and the unsplit set-up succeeds with a variable => the model's
                               `witness_restart` and `restart_same_vars` are true (EAO.C14S.split_is_restart_builders evaluated);
                           (b) `hyps` and `level` (start level = end level in [0, size]) => on the REAL problems the concatenated
                               interval optima, transported along `perm`, satisfy every row and bound of the real unsplit problem
                               and the sum of the interval values does not exceed the unsplit optimum;
                           (c) `hyps` without `level` because start level != end level (known finding F-14g): nothing is claimed,
                               it is only recorded (`impl['_f14g']`) whether the concatenation is infeasible for the unsplit problem.
"""
import copy
import json
import os
import random
import sys
import tempfile
import traceback

import numpy as np
import pandas as pd

if os.environ.get('EAO_REPO', '/repo') not in sys.path:
    sys.path.insert(0, os.environ.get('EAO_REPO', '/repo'))
import eaopack as eao
from .. import gen, scen
from ..impl import Quiet, problem_json, err_class
from ..lean import fs
from .common import prices_json
from .contract import unit_sec
from . import splitbuild as sb
from . import storage as st

NAME = 'splitstorage'
TOL = 1e-9
FEAS_TOL = 1e-7          # rows / bounds of the unsplit problem at the transported interval optima
VALUE_TOL = 1e-6         # sum of the interval values against the unsplit optimum

M = 'EAO.Properties.C14Storage'
# filled in by the package agent
THEOREMS_C14_STORAGE = [
    (M, 'EAO.C14S.storage_interval_is_restart',
     'LP storage (no blocks, no boolean options, cost_store = 0): in an interval the split set-up builds the storage afresh on the asset grid picked at the interval steps '
     '(storageOn, no error when the unsplit set-up succeeds), and that problem IS the restriction to the interval of the restart form of the unsplit storage '
     '(same variables, costs, bounds, mapping; the level rows of every interval instead of the cumulative ones)'),
    (M, 'EAO.C14S.storage_interval_rows',
     'the rows of the interval storage written with the unsplit variables hold iff the level rows of a storage that starts with start_level at the interval\'s first position '
     'and pins end_level at its last position hold (restartUpper / restartLower): the level rows restart in every interval'),
    (M, 'EAO.C14S.storage_split_feasible_in_unsplit',
     'start level = end level in [0, size], intervals cutting the storage grid into consecutive pieces: every point satisfying the bounds and ALL interval level rows '
     'satisfies the bounds and all cumulative level rows of the unsplit storage (any cost_store, inflow, efficiency, costs, price)'),
    (M, 'EAO.C14S.storage_split_value',
     'cost vectors with cost_store: for EVERY dispatch the unsplit cost c.y = sum over intervals of (interval cost of the interval part of y + storage costs of all LATER steps '
     'times the net level change of the interval); no condition on the levels'),
    (M, 'EAO.C14S.storage_split_value_const',
     'start = end: on points satisfying the interval level rows the unsplit cost = sum of interval costs minus the CONSTANT sum_I storeAfter(end of I) * inflow of I '
     '(unsplit value = sum of interval values + constant)'),
    (M, 'EAO.C14S.storage_split_value_eq',
     'with cost_store = 0 or inflow = 0 that constant vanishes: unsplit cost of a split-feasible dispatch = sum of the interval costs'),
    (M, 'EAO.C14S.split_is_restart_builders',
     'portfolios of contracts, transports and storages: under the decidable hypotheses splitHypsS the split set-up succeeds and its interval problems ARE, as a block sum, '
     'the restart problem setupRestart (unsplit portfolio with every storage in restart form) renamed along the explicit matching: witness of EAO.C14 TRUE, whatever the start/end levels'),
    (M, 'EAO.C14S.restart_in_unsplit_builders',
     'with levelHypsS (every storage start = end in [0, size]): the restart problem has the costs, bounds, mapping, nodal record of the unsplit problem and every feasible point of it '
     '(with and without integrality) is feasible for the unsplit problem with the same value'),
    (M, 'EAO.C14S.split_le_unsplit_builders',
     'mixed portfolios, no certificate: under splitHypsS and levelHypsS the split set-up succeeds, every feasible point of the block sum of the interval problems, transported along splitPerm, '
     'satisfies ALL restrictions and bounds of the unsplit problem and has the same value; every upper bound of the unsplit values bounds the split values (split never exceeds unsplit)'),
    (M, 'EAO.C14S.split_solution_le_unsplit_builders',
     'interval solutions feasible for the interval problems of the split set-up: their concatenation (np.hstack), transported, is feasible for the unsplit problem, '
     'its unsplit value is the sum of the interval values, and that sum is below every upper bound of the unsplit value set'),
]

GRIDS = [('h', 'h', pd.Timedelta(hours=1)), ('2h', 'h', pd.Timedelta(hours=2))]


# ------------------------------------------------------------------------------------------ generator
def _interval(g, T, parts, odd):
    """interval size for at most `parts` intervals; `odd`: a size that does not divide the horizon (partial last interval)"""
    step = g['step_s']
    k = max(1, -(-T // parts))
    if odd and T > 2 and T % k == 0:
        k = k + 1          # fewer or as many intervals, the last one partial (or one interval longer than the horizon)
    tot = step * k
    return ('%dmin' % (tot // 60)) if tot % 3600 else ('%dh' % (tot // 3600)), k


def gen_storage(rnd, g, prices, T, name, nodes, stream):
    size = gen.q8(rnd, 1, 8)
    args = {'size': size, 'cap_in': gen.q8(rnd, 0.25, 4), 'cap_out': gen.q8(rnd, 0.25, 4)}
    r = rnd.random()
    if r < 0.7:
        lvl = gen.q8(rnd, 0, size)
        args['start_level'] = lvl
        args['end_level'] = lvl
    elif r < 0.8:
        pass                                  # both 0
    else:
        a = gen.q8(rnd, 0, size)
        b = gen.q8(rnd, 0, size)
        if a == b:
            b = a - 0.125 if a > 0 else a + 0.125
        args['start_level'], args['end_level'] = a, b
    if rnd.random() < 0.4:
        args['eff_in'] = rnd.choice([0.5, 0.75, 0.875, 0.25])
    if rnd.random() < 0.25:
        args['cost_in'] = gen.q8(rnd, 0.125, 1)
    if rnd.random() < 0.25:
        args['cost_out'] = gen.q8(rnd, 0.125, 1)
    if rnd.random() < 0.12:
        args['cost_store'] = gen.q8(rnd, 0.125, 0.5)
    if rnd.random() < 0.12:
        args['inflow'] = gen.q8(rnd, 0.125, 0.5) if rnd.random() < 0.8 else -0.125
    if rnd.random() < 0.3:
        args['price'] = gen.price_key(rnd, prices, T)
    if stream == 'mip':
        w = rnd.choice(['ns', 'ns', 'hold', 'both'])
        if w in ('ns', 'both'):
            args['no_simult_in_out'] = True
            if 'eff_in' not in args and 'cost_in' not in args and rnd.random() < 0.85:
                args['eff_in'] = 0.5
        if w in ('hold', 'both'):
            args['max_store_duration'] = float(rnd.randint(1, 4))
    if rnd.random() < 0.4:
        gen.put_window(args, gen.window(rnd, g))
    return {'type': 'Storage', 'name': name, 'nodes': nodes, 'args': args}


def gen_case(rnd, stream=None):
    stream = stream or rnd.choice(['lp'] * 6 + ['mip'])
    g = gen.gen_grid(rnd, tmin=2, tmax=12, tz_prob=0.1, grids=GRIDS)
    T = g['T_nominal']
    parts = rnd.choice([1, 2, 2, 3, 3])
    odd = rnd.random() < 0.35
    interval, k = _interval(g, T, parts, odd)
    nodes = ['n1', 'n2'] if rnd.random() < 0.4 else ['n1']
    prices = {}
    assets = []
    exact = rnd.random() < 0.6
    # storages
    ns = 1 if rnd.random() < 0.8 else 2
    for i in range(ns):
        if len(nodes) == 2 and rnd.random() < 0.4:
            nn = list(nodes) if rnd.random() < 0.5 else list(reversed(nodes))
        else:
            nn = [rnd.choice(nodes)]
        assets.append(gen_storage(rnd, g, prices, T, 's%d' % i, nn, stream))
    # a market on every node: the problem is bounded and (mostly) feasible
    for n in nodes:
        key = 'mkt_' + n
        prices[key] = [gen.q8(rnd, 1, 20) for _ in range(T)]
        cap = gen.q8(rnd, 4, 12)
        assets.append({'type': 'SimpleContract', 'name': 'mkt_' + n, 'nodes': [n],
                       'args': {'price': key, 'min_cap': -cap, 'max_cap': cap}})
    # contracts and transports, from the pieces of the builders' generator
    keep_takes = rnd.random() < 0.15
    for i in range(rnd.randint(0, 2)):
        name = 'a%d' % i
        kind = rnd.choice(['SimpleContract', 'SimpleContract', 'Contract', 'MultiCommodityContract', 'Transport', 'ExtendedTransport'])
        if kind in ('Transport', 'ExtendedTransport') and len(nodes) < 2:
            kind = 'SimpleContract'
        if kind == 'SimpleContract':
            a = gen.gen_simple_contract(rnd, g, prices, T, name, rnd.choice(nodes))
        elif kind == 'Contract':
            a = gen.gen_contract(rnd, g, prices, T, name, rnd.choice(nodes))
        elif kind == 'MultiCommodityContract':
            a = gen.gen_multi(rnd, g, prices, T, name, rnd.sample(nodes, rnd.randint(1, len(nodes))))
        else:
            n1, n2 = rnd.sample(nodes, 2)
            a = gen.gen_transport(rnd, g, prices, T, name, n1, n2, ext=(kind == 'ExtendedTransport'))
        if not keep_takes:
            a['args'].pop('min_take', None)
            a['args'].pop('max_take', None)
        if rnd.random() < 0.3:
            gen.put_window(a['args'], gen.window(rnd, g))
        assets.append(a)
    rnd.shuffle(assets)
    for a in assets:
        a['args']['wacc'] = 0.0 if (exact or rnd.random() < 0.5) else rnd.choice([0.05, 0.1])
    skip = [rnd.choice(nodes)] if (len(nodes) > 1 and rnd.random() < 0.08) else []
    return {'grid': g, 'nodes': nodes, 'prices': prices, 'assets': assets, 'interval': interval, 'skip': skip,
            'stream': stream, 'exact': exact}


# ------------------------------------------------------------------------------------------ implementation side
def run_impl(case):
    """the unsplit and the split set-up of the real code, captured as `splitbuild.run_impl` does (errors by class)"""
    return sb.run_impl(case)


def asset_json(a, spec, tz):
    if a['type'] == 'Storage':
        return {'kind': 'storage', 'params': st.params_json(a, None), 'start': spec['start'], 'stop': spec['stop'],
                'df': spec['df']}
    return sb.asset_json(a, spec, tz)


def request(case, impl_result=None):
    r = impl_result if impl_result is not None else run_impl(case)
    tz = case['grid'].get('tz')
    return {'op': 'split_storage', 'grid': r['grid'], 'cuts': r['cuts'], 'prices': prices_json(case['prices']),
            'unitSec': unit_sec(case['grid'].get('unit', 'h')), 'skip': list(case.get('skip', [])),
            'assets': [asset_json(a, s, tz) for a, s in zip(case['assets'], r['specs'])]}


def is_exact(case, req):
    return sb.is_exact(case, req)


def compare(case, impl_result, model_result, req=None):
    """unsplit problem and every interval problem equal (exact Fractions where exact), error classes equal, matching equal"""
    req = req or request(case, impl_result)
    return sb.compare(case, impl_result, model_result, req)


# ------------------------------------------------------------------------------------------ oracles
def _solve_intervals(sop):
    """[(x, value)] of the interval LPs, or None when one of them is not solved to optimality"""
    out = []
    for op in sop.ops:
        with Quiet():
            res = op.optimize()
        if isinstance(res, str) or res.x is None:
            return None
        out.append((np.asarray(res.x, dtype=float).reshape(-1), float(res.value)))
    return out


def _infeasibility(op, x):
    """largest violation of a row or bound of `op` at `x` and where"""
    worst, where = 0.0, ''
    lo = np.asarray(op.l, dtype=float) - x
    hi = x - np.asarray(op.u, dtype=float)
    for name, v in (('lower bound', lo), ('upper bound', hi)):
        if v.size and float(v.max()) > worst:
            worst, where = float(v.max()), '%s of variable %d' % (name, int(v.argmax()))
    if op.A is not None and op.A.shape[0] > 0:
        ax = np.asarray(op.A @ x).reshape(-1)
        b = np.asarray(op.b, dtype=float).reshape(-1)
        for i, t in enumerate(op.cType):
            d = ax[i] - b[i]
            v = d if t == 'U' else -d if t == 'L' else abs(d)
            if v > worst:
                worst, where = float(v), 'row %d (type %s): A.x = %r, b = %r' % (i, t, float(ax[i]), float(b[i]))
    return worst, where


def _levels_differ(case):
    return any(a['type'] == 'Storage' and a['args'].get('start_level', 0.) != a['args'].get('end_level', 0.) for a in case['assets'])


def oracle(case, impl_result, model_result=None, drv=None):
    viol = []
    if model_result is None:
        return viol
    m = model_result.get('ok', {})
    facts = {'stream': case['stream']}
    op = impl_result.get('_op')
    sop = impl_result.get('_sop')
    if not m.get('hyps') or op is None or len(op.c) == 0:
        return viol
    if 'bool' in op.mapping.columns and bool(op.mapping['bool'].fillna(False).astype(bool).any()):
        viol.append({'oracle': 'hyps_lp', 'facts': facts, 'detail': 'hypotheses hold (LP form) but the real unsplit problem has boolean variables'})
        return viol
    # (a) the theorem split_is_restart_builders evaluated on the model
    if 'witness_restart' not in m:
        viol.append({'oracle': 'restart_witness', 'facts': facts,
                     'detail': 'hypotheses hold and the unsplit set-up succeeds with variables, but model split: %s, restart: %s' % (
                         m.get('split', {}).get('error', 'ok'), m.get('restart', {}).get('error', 'ok'))})
        return viol
    if not m['witness_restart'] or not m.get('restart_same_vars'):
        viol.append({'oracle': 'restart_witness', 'facts': facts,
                     'detail': 'hypotheses hold: witness_restart %s, restart_same_vars %s; %s' % (m['witness_restart'], m.get('restart_same_vars'), m.get('reason'))})
    if sop is None:
        viol.append({'oracle': 'restart_witness', 'facts': facts,
                     'detail': 'hypotheses hold and the unsplit set-up succeeds with variables, the real split set-up raises: %s' % impl_result['split'].get('text')})
        return viol
    # (b), (c) on the real problems
    level = bool(m.get('level'))
    if not level and not _levels_differ(case):
        return viol                     # level outside [0, size]: not generated; nothing claimed
    perm = [int(i) for i in m['perm']]
    n = len(op.c)
    if sorted(perm) != list(range(n)) or sum(len(o.c) for o in sop.ops) != n:
        if level:
            viol.append({'oracle': 'split_le_unsplit', 'facts': facts, 'detail': 'perm is not a matching of the %d unsplit variables' % n})
        return viol
    sols = _solve_intervals(sop)
    if sols is None:
        impl_result['_lp'] = 'interval-unsolved'
        return viol
    xs = np.hstack([s[0] for s in sols])
    x = np.zeros(n)
    x[perm] = xs                                  # variable j of the block sum is variable perm[j] of the unsplit problem
    worst, where = _infeasibility(op, x)
    if not level:
        impl_result['_f14g'] = bool(worst > FEAS_TOL)
        return viol
    impl_result['_lp'] = 'checked'
    if worst > FEAS_TOL:
        viol.append({'oracle': 'split_le_unsplit', 'facts': dict(facts, worst=worst),
                     'detail': 'hyps and level: the transported interval optima violate the unsplit problem by %.3g at %s' % (worst, where)})
        return viol
    with Quiet():
        res = op.optimize()
    if isinstance(res, str):
        viol.append({'oracle': 'split_le_unsplit', 'facts': facts,
                     'detail': 'hyps and level: every interval LP is solved and the concatenation is feasible, the unsplit LP is %r' % res})
        return viol
    total = sum(s[1] for s in sols)
    if total > float(res.value) + VALUE_TOL * max(1.0, abs(float(res.value))):
        viol.append({'oracle': 'split_le_unsplit', 'facts': dict(facts, split=total, unsplit=float(res.value)),
                     'detail': 'hyps and level: sum of the interval values %r exceeds the unsplit optimum %r' % (total, float(res.value))})
    return viol


# ------------------------------------------------------------------------------------------ self test
SCRATCH_MAIN = """import EAO.Driver.Core
import EAO.Driver.Split
import EAO.Driver.SplitBuild
import EAO.Driver.Storage
import EAO.Driver.SplitStorage
open Lean EAO EAO.Driver

def handlers : List (String → Json → Option (Except String Json)) :=
  [handleCore, handleSplit, handleSplitBuild, handleStorage, handleSplitStorage]

def handle (j : Json) : Except String Json := do
  let op ← field j "op" Json.getStr?
  match handlers.findSome? (fun h => h op j) with
  | some r => r
  | none => throw s!"unknown op {op}"

partial def loop (h : IO.FS.Stream) (out : IO.FS.Stream) : IO Unit := do
  let line ← h.getLine
  if line.isEmpty then return ()
  let resp := match Json.parse line with
    | .error e => Json.mkObj [("err", Json.str s!"bad-request: {e}")]
    | .ok j => match handle j with
      | .ok r => Json.mkObj [("ok", r)]
      | .error e => Json.mkObj [("err", Json.str s!"bad-request: {e}")]
  out.putStrLn resp.compress
  out.flush
  loop h out

def main : IO Unit := do loop (← IO.getStdin) (← IO.getStdout)
"""


class ScratchDriver(sb.ScratchDriver):
    """development driver: interprets a scratch Main.lean with the handler `handleSplitStorage` (before it is linked into
    eaodrv; needs `lake build EAO.Driver.SplitStorage`), or runs a compiled driver binary given as `main`"""

    def __init__(self, main=None):
        tmp = None
        if main is None:
            tmp = tempfile.mkdtemp(prefix='splitstorage_drv_')
            main = os.path.join(tmp, 'Main.lean')
            with open(main, 'w') as f:
                f.write(SCRATCH_MAIN)
        sb.ScratchDriver.__init__(self, main)
        self._tmp = tmp


def selftest(n, seed, drv, verbose=False, stream=None):
    rnd = random.Random(seed)
    keys = ('cases', 'unsplit_ok', 'split_ok', 'both_error', 'hyps_true', 'level_true', 'witness_restart_true',
            'witness_restart_false', 'restart_same_vars', 'exact', 'intervals', 'lp_checked', 'lp_unsolved',
            'f14g_checked', 'f14g_infeasible', 'disagreements', 'violations')
    counts = {'harness_errors': 0}
    per = {}
    dis, viol = [], []
    for i in range(n):
        case = gen_case(random.Random(rnd.getrandbits(48)), stream=stream)
        c = per.setdefault(case['stream'], {k: 0 for k in keys})
        try:
            r = run_impl(case)
            req = request(case, r)
            mres = drv.ask(req)
            d = compare(case, r, mres, req)
            v = oracle(case, r, mres, drv)
        except Exception:
            counts['harness_errors'] += 1
            dis.append({'case': case, 'detail': 'harness error %s' % traceback.format_exc()[-800:]})
            continue
        m = mres.get('ok', {})
        c['cases'] += 1
        c['unsplit_ok'] += int('problem' in r['unsplit'])
        c['split_ok'] += int('intervals' in r['split'])
        c['both_error'] += int('error' in r['unsplit'] and 'error' in r['split'])
        c['intervals'] += len(r['split'].get('intervals', []))
        c['exact'] += int(is_exact(case, req))
        c['hyps_true'] += int(bool(m.get('hyps')))
        c['level_true'] += int(bool(m.get('level')))
        if 'witness_restart' in m:
            c['witness_restart_true' if m['witness_restart'] else 'witness_restart_false'] += 1
            c['restart_same_vars'] += int(bool(m.get('restart_same_vars')))
        c['lp_checked'] += int(r.get('_lp') == 'checked')
        c['lp_unsolved'] += int(r.get('_lp') == 'interval-unsolved')
        if '_f14g' in r:
            c['f14g_checked'] += 1
            c['f14g_infeasible'] += int(r['_f14g'])
        c['disagreements'] += int(bool(d))
        c['violations'] += int(bool(v))
        for x in d:
            dis.append({'case': case, 'detail': x})
            if verbose:
                print('DISAGREE', x[:300])
        for x in v:
            x['case'] = case
            viol.append(x)
            if verbose:
                print('VIOLATION', x['detail'][:300])
    tot = {k: sum(c[k] for c in per.values()) for k in keys}
    counts.update(tot)
    return {'counts': counts, 'streams': per, 'disagreements': dis, 'violations': viol,
            'f14g_infeasible': tot['f14g_infeasible']}


if __name__ == '__main__':
    import warnings
    warnings.filterwarnings('ignore')
    n = int(sys.argv[1]) if len(sys.argv) > 1 else 100
    seed = int(sys.argv[2]) if len(sys.argv) > 2 else 0
    stream = sys.argv[3] if len(sys.argv) > 3 else None
    drv = ScratchDriver()
    try:
        r = selftest(n, seed, drv, verbose=True, stream=stream)
    finally:
        drv.close()
    print(json.dumps(r['counts']))
    for s, c in sorted(r['streams'].items()):
        print(s, json.dumps(c))
    print('disagreements', len(r['disagreements']), 'violations', len(r['violations']), 'F-14g infeasible concatenations', r['f14g_infeasible'])
    for d in r['disagreements'][:6]:
        print('--', d['detail'][:600])
        print('   ', json.dumps(d['case'])[:2500])
    for v in r['violations'][:6]:
        print('**', v['oracle'], v['detail'][:600])
        print('   ', json.dumps(v.get('case'))[:2500])
