"""Entry points of the package other than the explicit pipeline setup_optim_problem -> optimize -> extract_output:
`eaopack.io.optimize` (data cast into the grid, plain or split), `serialization.run_from_json` (portfolio from JSON, optimised,
read out), `io.get_param` / `io.set_param` (object re-created through serialisation).

The properties are statements about what a user gets back, whichever door was used; the generated streams of the property
modules go through the explicit pipeline.  This module runs the SAME generated scenario through the other doors and applies
(a) the property oracles to what comes back (nodal balance C01, value accounting C04), and (b) the comparison with the explicit
pipeline: same optimum (ties in the dispatch are allowed: only values are compared), same status.  It is a failing-input
search on the real code; no theorem rests on it.

Every function returns (violations, features); a violation = {oracle, detail, facts}."""
import copy
import io as _io
import json
import os
import random
import tempfile

import numpy as np
import pandas as pd

import eaopack as eao
from .. import scen, impl, pf
from ..impl import Quiet

VAL_TOL = 2e-6


def _scale(*v):
    return max([1.0] + [abs(float(x)) for x in v if x is not None and np.isfinite(x)])


def data_forms(prices, tg, rnd):
    """the price data in one of the containers the documentation of Timegrid.prices_to_grid lists (values at the grid points:
    the cast must hand them through unchanged)"""
    form = rnd.choice(['dict', 'df_dates', 'df_numeric', 'dict', 'df_dates_more'])
    if not prices:
        return 'none', None
    if form == 'dict':
        return form, {k: np.array(v, dtype=float) for k, v in prices.items()}
    if form == 'df_numeric':
        return form, pd.DataFrame({k: np.array(v, dtype=float) for k, v in prices.items()})
    df = pd.DataFrame({k: np.array(v, dtype=float) for k, v in prices.items()}, index=tg.timepoints)
    if form == 'df_dates_more':
        # additional rows strictly after the last grid point: they must not influence the values at the grid points
        step = tg.timepoints[-1] - tg.timepoints[-2] if tg.T > 1 else pd.Timedelta(hours=1)
        extra = pd.DataFrame({k: [float(rnd.randint(-50, 50)), float(rnd.randint(-50, 50))] for k in prices},
                             index=[tg.timepoints[-1] + 3 * step, tg.timepoints[-1] + 5 * step])
        df = pd.concat([df, extra])
    return form, df


def _balance(out, portf, tag):
    rec = {'out': out, 'portf': portf}
    v, nt = pf.orc_nodal_balance(rec, tag)
    return v


def _accounting(out, tag):
    viol = []
    dcf = out['DCF']
    sval = float(out['summary'].loc['value', 'Values'])
    total = float(np.nansum(np.asarray(dcf.values, dtype=float)))
    tol = 1e-6 * _scale(sval, float(np.nansum(np.abs(np.asarray(dcf.values, dtype=float)))))
    if abs(total - sval) > tol:
        viol.append({'oracle': 'value_accounting', 'detail': '%s: reported value %.8g but the DCF table sums to %.8g' % (tag, sval, total),
                     'facts': {'mode': tag, 'what': 'total'}})
    return viol


def _status(out):
    if out is None:
        return 'none'
    s = out['summary']
    if isinstance(s, dict):
        return str(s.get('status'))
    return str(s.loc['status', 'Values'])


def reference(scn, split=None):
    """explicit pipeline on fresh objects: (status, value or None)"""
    portf, tg, prices, nodes = scen.build(scn)
    with Quiet():
        if split:
            op = portf.setup_split_optim_problem(prices, tg, interval_size=split)
        else:
            op = portf.setup_optim_problem(prices, tg)
    if not split and len(op.c) == 0:
        return 'empty', None
    res = impl.solve(op)
    if isinstance(res, str):
        return 'failed', None
    return 'ok', float(res.value)


def via_io_optimize(scn, rnd, split=None, ref=None):
    """eaopack.io.optimize on fresh objects, data in a random container"""
    viol, feats = [], []
    portf, tg, prices, nodes = scen.build(scn)
    form, data = data_forms(prices, tg, rnd)
    feats.append('io.optimize:data=' + form + (':split' if split else ''))
    if ref is None:
        ref = reference(scn, split)
    if ref[0] == 'empty':
        feats.append('io.optimize:empty-problem')
        return viol, feats
    tag = 'io.optimize(%s%s)' % (form, ', split ' + split if split else '')
    try:
        with Quiet():
            out = eao.io.optimize(portf, tg, data=data, split_interval_size=split)
    except Exception as e:
        if ref[0] == 'ok':
            viol.append({'oracle': 'entry_point', 'detail': '%s raised %s: %s, the explicit pipeline on the same scenario gives %.8g' % (
                tag, type(e).__name__, str(e)[:200], ref[1]), 'facts': {'door': 'io.optimize', 'what': 'raised', 'form': form, 'split': bool(split)}})
        else:
            feats.append('io.optimize:raised-like-reference')
        return viol, feats
    st = _status(out)
    if st != 'successful':
        if ref[0] == 'ok':
            viol.append({'oracle': 'entry_point', 'detail': '%s reports "%s", the explicit pipeline on the same scenario gives %.8g' % (tag, st, ref[1]),
                         'facts': {'door': 'io.optimize', 'what': 'status', 'form': form, 'split': bool(split)}})
        return viol, feats
    feats.append('io.optimize:solved')
    val = float(out['summary'].loc['value', 'Values'])
    if ref[0] == 'ok' and abs(val - ref[1]) > VAL_TOL * _scale(val, ref[1]):
        viol.append({'oracle': 'entry_point', 'detail': '%s: optimum %.10g, the explicit pipeline on the same scenario gives %.10g' % (tag, val, ref[1]),
                     'facts': {'door': 'io.optimize', 'what': 'value', 'form': form, 'split': bool(split)}})
    if ref[0] == 'failed':
        viol.append({'oracle': 'entry_point', 'detail': '%s: optimum %.10g, the explicit pipeline on the same scenario reports failure' % (tag, val),
                     'facts': {'door': 'io.optimize', 'what': 'status', 'form': form, 'split': bool(split)}})
    viol += _balance(out, portf, tag)
    viol += _accounting(out, tag)
    return viol, feats


def via_run_from_json(scn, rnd, ref=None):
    """serialise the portfolio, run_from_json with prices and grid (string or file), compare"""
    viol, feats = [], []
    portf, tg, prices, nodes = scen.build(scn)
    if ref is None:
        ref = reference(scn)
    if ref[0] == 'empty':
        return viol, feats
    try:
        with Quiet():
            js = eao.serialization.to_json(portf)
    except Exception as e:
        feats.append('run_from_json:not-serialisable:' + type(e).__name__)
        return viol, feats
    how = rnd.choice(['string', 'file', 'string_grid_in_json'])
    feats.append('run_from_json:' + how)
    tag = 'run_from_json(%s)' % how
    tmp = None
    try:
        with Quiet():
            if how == 'file':
                fd, tmp = tempfile.mkstemp(suffix='.json', prefix='eao_entry_')
                os.close(fd)
                open(tmp, 'w').write(js)
                out = eao.serialization.run_from_json(file_name_in=tmp, prices=prices, timegrid=tg)
            elif how == 'string_grid_in_json':
                portf.set_timegrid(tg)
                js2 = eao.serialization.to_json(portf)
                out = eao.serialization.run_from_json(json_str=js2, prices=prices)
            else:
                out = eao.serialization.run_from_json(json_str=js, prices=prices, timegrid=tg)
    except Exception as e:
        kind = impl.err_class(e)
        if ref[0] == 'ok':
            viol.append({'oracle': 'entry_point', 'detail': '%s raised %s: %s, the explicit pipeline on the same scenario gives %.8g' % (
                tag, type(e).__name__, str(e)[:200], ref[1]),
                'facts': {'door': 'run_from_json', 'what': 'raised', 'how': how, 'error': kind, 'types': sorted(set(a['type'] for a in scen.all_asset_specs(scn)))}})
        return viol, feats
    finally:
        if tmp and os.path.exists(tmp):
            os.remove(tmp)
    if out is None:
        if ref[0] == 'ok':
            viol.append({'oracle': 'entry_point', 'detail': '%s returns nothing (not successful), the explicit pipeline gives %.8g' % (tag, ref[1]),
                         'facts': {'door': 'run_from_json', 'what': 'status', 'how': how}})
        return viol, feats
    feats.append('run_from_json:solved')
    val = float(out['summary'].loc['value', 'Values'])
    if ref[0] == 'ok' and abs(val - ref[1]) > VAL_TOL * _scale(val, ref[1]):
        viol.append({'oracle': 'entry_point', 'detail': '%s: optimum %.10g, the explicit pipeline on the original objects gives %.10g' % (tag, val, ref[1]),
                     'facts': {'door': 'run_from_json', 'what': 'value', 'how': how}})
    if ref[0] == 'failed':
        viol.append({'oracle': 'entry_point', 'detail': '%s: optimum %.10g, the explicit pipeline reports failure' % (tag, val),
                     'facts': {'door': 'run_from_json', 'what': 'status', 'how': how}})
    # the read-out of run_from_json refers to the LOADED portfolio: take names / nodes from a second load
    with Quiet():
        p2 = eao.serialization.load_from_json(js)
        p2.set_timegrid(tg)
    viol += _balance(out, p2, tag)
    viol += _accounting(out, tag)
    return viol, feats


def _problem_sig(op):
    import scipy.sparse as sp
    A = None if op.A is None else sp.csr_matrix(op.A)
    return {'c': np.asarray(op.c, dtype=float), 'l': np.asarray(op.l, dtype=float), 'u': np.asarray(op.u, dtype=float),
            'b': None if op.b is None else np.asarray(op.b, dtype=float), 'cType': op.cType,
            'A': None if A is None else A.toarray() if A.shape[0] * A.shape[1] < 400000 else A}


def same_problem(op1, op2):
    s1, s2 = _problem_sig(op1), _problem_sig(op2)
    for k in ('c', 'l', 'u', 'b'):
        a, b = s1[k], s2[k]
        if (a is None) != (b is None):
            return '%s present in one problem only' % k
        if a is None:
            continue
        if a.shape != b.shape:
            return '%s: length %s vs %s' % (k, a.shape, b.shape)
        if not np.allclose(a, b, rtol=1e-9, atol=1e-9, equal_nan=True):
            i = int(np.argmax(np.abs(np.nan_to_num(a - b))))
            return '%s[%d]: %r vs %r' % (k, i, float(a[i]), float(b[i]))
    if (s1['cType'] or '') != (s2['cType'] or ''):
        return 'row kinds differ'
    if s1['A'] is not None:
        a, b = s1['A'], s2['A']
        if a.shape != b.shape:
            return 'A: shape %s vs %s' % (a.shape, b.shape)
        d = abs(a - b)
        if d.max() > 1e-9:
            return 'A differs (max %.3g)' % d.max()
    m1, m2 = op1.mapping, op2.mapping
    if len(m1) != len(m2) or list(m1.index) != list(m2.index):
        return 'mapping: different variable index'
    for col in ('asset', 'node', 'type', 'time_step', 'var_name'):
        if col in m1.columns or col in m2.columns:
            if col not in m1.columns or col not in m2.columns:
                return 'mapping column %s in one problem only' % col
            x1 = m1[col].astype(object).where(m1[col].notna(), None).tolist()
            x2 = m2[col].astype(object).where(m2[col].notna(), None).tolist()
            if x1 != x2:
                return 'mapping column %s differs' % col
    return None


def _leaf_paths(keys):
    return [k if isinstance(k, list) else [k] for k in keys]


def via_set_param(scn, rnd):
    """(1) set_param(obj, path, get_param(obj, path)) re-creates an object that sets up the SAME problem;
    """
    viol, feats = [], []
    portf, tg, prices, nodes = scen.build(scn)
    try:
        with Quiet():
            keys, tree = eao.io.get_params_tree(portf)
    except Exception as e:
        feats.append('set_param:not-serialisable:' + type(e).__name__)
        return viol, feats
    paths = _leaf_paths(keys)
    if not paths:
        return viol, feats
    try:
        with Quiet():
            op0 = portf.setup_optim_problem(prices, tg)
    except Exception as e:
        feats.append('set_param:setup-error')
        return viol, feats
    types = sorted(set(a['type'] for a in scen.all_asset_specs(scn)))
    for trial in range(3):
        path = rnd.choice(paths)
        try:
            with Quiet():
                v = eao.io.get_param(portf, path)
                p2 = eao.io.set_param(portf, path, copy.deepcopy(v))
        except Exception as e:
            viol.append({'oracle': 'entry_point', 'detail': 'set_param(portfolio, %s, <the value get_param returns>) raised %s: %s' % (path, type(e).__name__, str(e)[:200]),
                         'facts': {'door': 'set_param', 'what': 'raised', 'types': types, 'error': impl.err_class(e)}})
            continue
        feats.append('set_param:identity')
        try:
            with Quiet():
                op2 = p2.setup_optim_problem(prices, tg)
        except Exception as e:
            viol.append({'oracle': 'entry_point', 'detail': 'portfolio re-created by set_param(%s, same value) cannot be set up: %s: %s' % (path, type(e).__name__, str(e)[:200]),
                         'facts': {'door': 'set_param', 'what': 'setup', 'types': types, 'error': impl.err_class(e)}})
            continue
        d = same_problem(op0, op2)
        if d:
            viol.append({'oracle': 'entry_point', 'detail': 'portfolio re-created by set_param(%s, same value) sets up a different problem: %s' % (path, d),
                         'facts': {'door': 'set_param', 'what': 'problem', 'types': types}})
    # (writing NEW values is not checked: which leaves are genuine parameters - and which are derived, fixed by a subclass or
    # normalised by a constructor, e.g. conversion_factor_power_heat of a Plant - is not part of any statement of the list)
    return viol, feats


def run_all(scn, seed, doors=('io', 'io_split', 'json', 'param')):
    """one scenario through the named doors; returns (violations, features)"""
    rnd = random.Random(seed)
    viol, feats = [], []
    try:
        ref = reference(scn)
    except Exception as e:
        feats.append('entry:reference-error:' + impl.err_class(e))
        return viol, feats
    if 'io' in doors:
        v, f = via_io_optimize(scn, rnd, ref=ref)
        viol += v
        feats += f
    if 'io_split' in doors:
        portf, tg, prices, nodes = scen.build(scn)
        iv = pf.split_interval(scn, tg, parts=rnd.choice([2, 3]))
        try:
            rs = reference(scn, split=iv)
        except Exception as e:
            rs = None
            feats.append('entry:split-reference-error:' + impl.err_class(e))
        if rs is not None:
            v, f = via_io_optimize(scn, rnd, split=iv, ref=rs)
            viol += v
            feats += f
    if 'json' in doors:
        v, f = via_run_from_json(scn, rnd, ref=ref)
        viol += v
        feats += f
    if 'param' in doors:
        v, f = via_set_param(scn, rnd)
        viol += v
        feats += f
    return viol, feats


def selftest(n=40, seed=0, doors=('io', 'io_split', 'json', 'param')):
    from .. import gen
    rnd = random.Random(seed)
    import collections
    fc = collections.Counter()
    allv = []
    for i in range(n):
        s = gen.gen_portfolio(random.Random(rnd.getrandbits(48)), tmax=10)
        v, f = run_all(s, rnd.getrandbits(32), doors)
        fc.update(f)
        for x in v:
            allv.append((i, x['detail'][:300], x['facts']))
    return fc, allv


# ------------------------------------------------------------------ stream for the property modules
def stream(seed, n, doors, tmax=10, kinds=None, tag='entry'):
    """yields (case id, scenario) for a property module's `scenarios`; the scenario carries its own sub-seed"""
    from .. import gen
    rnd = random.Random(seed * 104729 + 77)
    for i in range(n):
        kw = {'tmax': tmax}
        if kinds:
            kw['kinds'] = kinds
        s = gen.gen_portfolio(random.Random(rnd.getrandbits(48)), **kw)
        yield '%s%d' % (tag, i), {'_stream': 'entry', 'case': s, 'seed': rnd.getrandbits(32), 'doors': list(doors)}


def run_stream_case(scn, keep_oracles):
    """result dictionary of a property module's run_case for a case of `stream`; only the violations whose oracle is in
    keep_oracles belong to the calling property's statement"""
    viol, feats = run_all(scn['case'], scn['seed'], tuple(scn['doors']))
    solved = any(f.endswith(':solved') for f in feats) or any(f.startswith('set_param:identity') for f in feats)
    return {'evaluated': max(1, len(scn['doors'])), 'nontrivial': bool(solved), 'features': ['stream:entry'] + sorted(set(feats)),
            'disagreements': [], 'violations': [v for v in viol if v['oracle'] in keep_oracles]}
