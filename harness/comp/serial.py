"""C11 — JSON round trip: ORACLE on the real code, translator self-check, value-codec checks.

A case is a plain JSON value: a generated portfolio scenario (harness.gen) with its parameter values
rewritten into one of the accepted *forms*, a target (one asset, or the portfolio itself, with or without
its own time grid) and a second (grid, prices) pair.  `run_impl` saves / loads / re-saves the target before
and after a `setup_optim_problem` call and compares the optimisation problems built from the original
and from the loaded object exactly (`harness.impl.problem_json`, `harness.pf.cmp_problem`, tol 0).

No Lean driver is involved: the model of this component is the schema table that `schema_gen.py`
regenerates from the sources; its tie to the code is `schema_selfcheck` below (real JSON keys and real
`inspect.signature` against the schema) — a disagreement there means the TRANSLATOR misreads the source.
"""
import copy
import datetime as dt
import inspect
import json
import random

import numpy as np
import pandas as pd

import eaopack as eao
from eaopack import serialization as ser
from eaopack.portfolio import Portfolio, StructuredAsset, LinkedAsset

from .. import gen, scen, impl, pf, schema_gen
from ..impl import Quiet, problem_json, err_class

FORMS = ['plain', 'aware', 'array', 'index', 'ts', 'date', 'datearr']
ZONES = ['CET', 'Europe/Berlin', 'US/Eastern', 'UTC', 'Asia/Kolkata']


# ------------------------------------------------------------------ generator
def _walk_args(a, f):
    """apply f(key, value, spec) -> new value to every entry of the args of an asset spec (and base / inner)"""
    for k in list(a.get('args', {})):
        a['args'][k] = f(k, a['args'][k], a)
    if 'base' in a:
        _walk_args(a['base'], f)
    for b in a.get('inner', []):
        _walk_args(b, f)


def _map_dt(v, fn):
    if isinstance(v, dict):
        if '$dt' in v:
            return fn(v['$dt'])
        return {k: _map_dt(x, fn) for k, x in v.items()}
    if isinstance(v, list):
        return [_map_dt(x, fn) for x in v]
    return v


def apply_form(scn, form, rnd):
    """rewrite the parameter values of a scenario into another accepted form (in place)"""
    g = scn['grid']
    tz = g.get('tz')
    T = len(g['_pts']) - 1
    if form == 'plain':
        return
    if form == 'aware':
        if tz is None:
            return
        _walk_args_all(scn, lambda k, v, a: _map_dt(v, lambda s: {'$ts': s, 'tz': tz}))
    elif form == 'ts':       # pandas Timestamps instead of datetime.datetime (naive)
        _walk_args_all(scn, lambda k, v, a: _map_dt(v, lambda s: {'$ts': s}))
    elif form == 'date':     # datetime.date for windows that fall on midnight
        def f(k, v, a):
            if k in ('start', 'end') and isinstance(v, dict) and '$dt' in v and v['$dt'].endswith('T00:00:00'):
                return {'$date': v['$dt'][:10]}
            return v
        _walk_args_all(scn, f)
    elif form == 'array':    # scalar capacities / costs as numpy arrays over the whole horizon
        def f(k, v, a):
            if k in ('min_cap', 'max_cap', 'extra_costs') and isinstance(v, (int, float)) and not isinstance(v, bool) \
                    and 'start' not in a['args'] and 'end' not in a['args'] and 'freq' not in a['args'] \
                    and a['type'] in ('SimpleContract', 'Contract', 'MultiCommodityContract') and not a.get('_in_window'):
                return {'$arr': [float(v)] * T}
            if k in ('min_take', 'max_take') and isinstance(v, dict):
                v = dict(v)
                v['values'] = {'$arr': [float(x) for x in v['values']]}
                return v
            if k == 'orders' and isinstance(v, dict):
                v = dict(v)
                v['capa'] = {'$arr': [float(x) for x in v['capa']]}
                v['price'] = {'$arr': [float(x) for x in v['price']]}
                return v
            return v
        _walk_args_all(scn, f)
    elif form == 'datearr':
        _datearr_form(scn, rnd)
    elif form == 'index':    # date lists of interval data as DatetimeIndex
        def f(k, v, a):
            if isinstance(v, dict) and 'start' in v and isinstance(v['start'], list) and v['start'] \
                    and all(isinstance(x, dict) and '$dt' in x for x in v['start']):
                v = dict(v)
                v['start'] = {'$idx': [x['$dt'] for x in v['start']]}
                if 'end' in v and isinstance(v['end'], list):
                    v['end'] = {'$idx': [x['$dt'] for x in v['end']]}
                return v
            return v
        _walk_args_all(scn, f)


def _datearr_form(scn, rnd):
    """date lists of interval data as numpy date arrays of a random resolution ([D] only when all dates are midnights)"""
    def f(k, v, a):
        if isinstance(v, dict) and 'start' in v and isinstance(v['start'], list) and v['start'] \
                and all(isinstance(x, dict) and '$dt' in x for x in v['start']) \
                and (not isinstance(v.get('end'), list) or all(isinstance(x, dict) and '$dt' in x for x in v['end'])):
            v = dict(v)
            alld = [x['$dt'] for x in v['start']] + ([x['$dt'] for x in v['end']] if isinstance(v.get('end'), list) else [])
            res = rnd.choice(['D', 's', 'us', 'ns'] if all(x.endswith('T00:00:00') for x in alld) else ['s', 'us', 'ns', 'm'])
            v['start'] = {'$darr': [x['$dt'] for x in v['start']], 'res': res}
            if isinstance(v.get('end'), list):
                v['end'] = {'$darr': [x['$dt'] for x in v['end']], 'res': res}
            return v
        return v
    _walk_args_all(scn, f)


def _walk_args_all(scn, f):
    for a in scn['assets']:
        if a['type'] == 'StructuredAsset' and ('start' in a['args'] or 'end' in a['args']):
            for b in a.get('inner', []):
                b['_in_window'] = True
        _walk_args(a, f)


def ramp_options(rnd, a):
    """start / shutdown ramps, heat ramps, min-load costs for plants and CHPs (not drawn by harness.gen)"""
    args = a['args']
    mc = args.get('min_cap', 0.0)
    if not isinstance(mc, (int, float)) or mc <= 0:
        return
    n = rnd.randint(1, 3)
    lo = sorted(gen.q8(rnd, 0.125, mc) for _ in range(n))
    r = rnd.random()
    if r < 0.5:
        args['start_ramp_lower_bounds'] = lo
        if rnd.random() < 0.5:
            args['start_ramp_upper_bounds'] = [x + 0.25 for x in lo]
    if r > 0.3:
        args['shutdown_ramp_lower_bounds'] = list(reversed(lo))
        if rnd.random() < 0.5:
            args['shutdown_ramp_upper_bounds'] = [x + 0.5 for x in reversed(lo)]
    if rnd.random() < 0.3:
        args['ramp_freq'] = rnd.choice(['h', '2h', '30min'])
    if a['type'] == 'CHPAsset' and 'start_ramp_lower_bounds' in args and rnd.random() < 0.4:
        args['start_ramp_lower_bounds_heat'] = [x / 2 for x in args['start_ramp_lower_bounds']]
        args['start_ramp_upper_bounds_heat'] = [x / 2 + 0.5 for x in args.get('start_ramp_upper_bounds', args['start_ramp_lower_bounds'])]
        if 'start_ramp_upper_bounds' not in args:
            args['start_ramp_upper_bounds'] = list(args['start_ramp_lower_bounds'])


def storage_all_options(rnd, g, prices, T, name, nodes):
    size = gen.q8(rnd, 2, 8)
    return {'type': 'Storage', 'name': name, 'nodes': nodes,
            'args': {'size': size, 'cap_in': gen.q8(rnd, 0.5, 3), 'cap_out': gen.q8(rnd, 0.5, 3),
                     'start_level': gen.q8(rnd, 0, size), 'end_level': gen.q8(rnd, 0, size),
                     'cost_out': gen.q8(rnd, 0, 1), 'cost_in': gen.q8(rnd, 0, 1), 'cost_store': gen.q8(rnd, 0, 0.5),
                     'block_size': rnd.choice([None, 'd', '8h']), 'eff_in': rnd.choice([0.5, 0.75, 1.0]),
                     'inflow': gen.q8(rnd, 0, 0.5), 'no_simult_in_out': rnd.random() < 0.5,
                     'max_store_duration': rnd.choice([None, 3.0]), 'price': gen.price_key(rnd, prices, T),
                     'wacc': rnd.choice([0.0, 0.05])}}


def gen_case(rnd, i=0):
    """one C11 case"""
    kind_sets = [None, ['simple', 'contract', 'ext_transport', 'multi'], ['plant', 'chp'], ['storage', 'storage2', 'orderbook'],
                 ['scaled', 'structured'], ['chp', 'plant', 'contract']]
    tzp = [0.15, 0.6][i % 2]
    scn = gen.gen_portfolio(random.Random(rnd.getrandbits(48)), kinds=kind_sets[i % len(kind_sets)], tmax=10,
                            tz_prob=tzp, nodes_max=3, max_assets=4)
    g = scn['grid']
    T = len(g['_pts']) - 1
    names = [a['name'] for a in scn['assets']]
    extra = i % 7
    # kinds harness.gen does not draw
    for a in scn['assets']:
        if a['type'] in ('Plant', 'CHPAsset') and rnd.random() < 0.6:
            ramp_options(rnd, a)
        if a['type'] == 'CHPAsset' and rnd.random() < 0.35:
            a['type'] = 'CHPAsset_with_min_load_costs'
            a['args']['min_load_threshhold'] = gen.q8(rnd, 0.5, 3)
            a['args']['min_load_costs'] = gen.q8(rnd, 0.5, 3)
        if a['type'] == 'OrderBook' and rnd.random() < 0.5:
            a['df_orders'] = True
        if a['type'] == 'ScaledAsset' and rnd.random() < 0.6:
            # the scaled asset's OWN life time (the duration its fixed costs are charged for and, since fix F-08f, a restriction of the base's window)
            gen.put_window(a['args'], gen.window(rnd, g, kinds=['inside', 'start_only', 'end_only', 'straddle_end', 'straddle_start']))
            a['args']['fix_costs'] = max(0.125, a['args'].get('fix_costs', 0))
    if extra == 1:
        scn['assets'].append(storage_all_options(rnd, g, scn['prices'], T, 'st_all', [scn['nodes'][0]]))
    if extra == 2 and len(scn['nodes']) >= 2:
        n1, n2 = scn['nodes'][0], scn['nodes'][1]
        inner = [{'type': 'CHPAsset', 'name': 'lk_a', 'nodes': [n1, n2], 'args': {'min_cap': 1.0, 'max_cap': 4.0, 'extra_costs': 2.0}},
                 {'type': 'CHPAsset', 'name': 'lk_b', 'nodes': [n1, n2], 'args': {'min_cap': 1.0, 'max_cap': 5.0, 'extra_costs': 1.0}}]
        scn['assets'].append({'type': 'LinkedAsset', 'name': 'linked', 'nodes': [n1, n2], 'inner': inner,
                              'args': {'asset1_variable': ['lk_b', 'disp', n1], 'asset2_variable': ['lk_a', 'bool_on', None],
                                       'time_back': rnd.choice([0, 1, 2])}})
    form = FORMS[i % len(FORMS)] if rnd.random() < 0.8 else 'plain'
    apply_form(scn, form, rnd)
    n_assets = len(scn['assets'])
    r = i % 5
    if r < 3:
        target = {'kind': 'asset', 'index': rnd.randrange(n_assets)}
        if extra in (1, 2) and len(scn['assets']) > len(names):
            target['index'] = n_assets - 1
    elif r == 3:
        target = {'kind': 'portfolio', 'own_grid': False}
    else:
        target = {'kind': 'portfolio', 'own_grid': True}
    # a second grid (first part of the horizon) with its own prices
    g2 = None
    for T2 in [max(1, T // 2), max(1, T // 2) + 1, max(1, T // 2) - 1, T]:
        if not (1 <= T2 <= T):
            continue
        cand = dict(g)
        cand['end'] = g['_pts'][T2]
        try:                    # (a local end point may be ambiguous / missing on a DST day)
            gen.fix_grid(cand)
            scen.make_grid(cand)
            g2 = cand
            break
        except Exception:
            continue
    if g2 is None:
        g2 = dict(g)
    T2r = scen.make_grid(g2).T
    prices2 = {k: [gen.q8(rnd, -4, 20) for _ in range(T2r)] for k in scn['prices']}
    return {'scn': scn, 'form': form, 'target': target, 'grid2': g2, 'prices2': prices2, 'solve': (i % 5 == 4)}


# ------------------------------------------------------------------ building
def _patch_df_orders(spec, obj):
    if spec.get('df_orders'):
        return eao.assets.OrderBook(name=obj.name, nodes=obj.nodes[0], wacc=obj.wacc,
                                    orders=pd.DataFrame(obj.orders), full_exec=obj.full_exec)
    return obj


def build_case(case):
    scn = case['scn']
    tg = scen.make_grid(scn['grid'])
    nodes = scen.make_nodes(scn['nodes'])
    assets = []
    for s in scn['assets']:
        if s['type'] == 'LinkedAsset':
            inner = [scen.build_asset(x, nodes) for x in s['inner']]
            args = scen.dec(copy.deepcopy(s['args']))
            for k in ('asset1_variable', 'asset2_variable'):
                a, v, n = args[k]
                args[k] = [a, v, nodes[n] if n is not None else None]
            assets.append(LinkedAsset(Portfolio(inner), name=s['name'], nodes=[nodes[n] for n in s['nodes']], **args))
        else:
            assets.append(_patch_df_orders(s, scen.build_asset(s, nodes)))
    prices = {k: np.asarray(v, dtype=float) for k, v in scn.get('prices', {}).items()}
    tg2 = scen.make_grid(case['grid2'])
    prices2 = {k: np.asarray(v, dtype=float) for k, v in case['prices2'].items()}
    portf = Portfolio(assets)
    t = case['target']
    if t['kind'] == 'asset':
        obj = assets[t['index']]
    else:
        obj = portf
        if t['own_grid']:
            portf.set_timegrid(tg)
    return obj, [(tg, prices), (tg2, prices2)]


def contains_linked(spec):
    return any(a['type'] == 'LinkedAsset' for a in scen.all_asset_specs({'assets': [spec]}))


# ------------------------------------------------------------------ the oracle
def _setup(obj, prices, tg):
    """('ok', problem json) | ('err', class)"""
    try:
        with Quiet():
            op = obj.setup_optim_problem(prices, tg) if tg is not None else obj.setup_optim_problem(prices)
        return 'ok', problem_json(op), op
    except Exception as e:
        return 'err', err_class(e), None


def _first_diff(a, b, path=''):
    if type(a) != type(b):
        return '%s: %s vs %s' % (path, type(a).__name__, type(b).__name__)
    if isinstance(a, dict):
        for k in sorted(set(a) | set(b)):
            if k not in a:
                return '%s: key %r only after reload' % (path, k)
            if k not in b:
                return '%s: key %r lost' % (path, k)
            d = _first_diff(a[k], b[k], path + '/' + k)
            if d:
                return d
        return None
    if isinstance(a, list):
        if len(a) != len(b):
            return '%s: length %d vs %d' % (path, len(a), len(b))
        for i, (x, y) in enumerate(zip(a, b)):
            d = _first_diff(x, y, '%s[%d]' % (path, i))
            if d:
                return d
        return None
    return None if a == b else '%s: %r vs %r' % (path, a, b)


def _strip_pf_grid(r):
    if isinstance(r, dict):
        return {k: _strip_pf_grid(v) for k, v in r.items() if not (k == 'timegrid' and r.get('__class__') == 'Portfolio')}
    if isinstance(r, list):
        return [_strip_pf_grid(x) for x in r]
    return r


def run_impl(case):
    """runs the round trips on the real code; returns {'violations': [...], 'features': [...], 'nontrivial': bool}"""
    out = {'violations': [], 'features': [], 'nontrivial': False, 'json': None}
    feats = out['features']
    scn = case['scn']
    t = case['target']
    if t['kind'] == 'asset':
        spec = scn['assets'][t['index']]
        cls = spec['type']
        linked = contains_linked(spec)
    else:
        cls = 'Portfolio'
        linked = any(contains_linked(a) for a in scn['assets'])
    facts0 = {'class': cls, 'form': case['form'], 'tz': scn['grid'].get('tz')}
    if linked:
        facts0['kind'] = 'linked_asset'
    feats += ['class:' + cls, 'form:' + case['form']] + (['tz'] if scn['grid'].get('tz') else [])
    if cls == 'Portfolio':
        feats.append('own-grid' if t['own_grid'] else 'no-grid')
        feats += ['asset:' + a['type'] for a in scn['assets']]

    def viol(oracle, detail, **kw):
        f = dict(facts0)
        f.update(kw)
        out['violations'].append({'oracle': oracle, 'detail': detail, 'facts': f})

    try:
        with Quiet():
            obj, variants = build_case(case)
    except Exception as e:
        feats.append('build-error:' + err_class(e))
        return out
    s_first = None
    for phase in ('fresh', 'after-setup'):
        if phase == 'after-setup':
            # computed attributes: at least one set-up call on the original before saving
            st = _setup(obj, variants[0][1], variants[0][0])
            feats.append('setup:' + st[0])
        try:
            s = ser.to_json(obj)
        except Exception as e:
            viol('c11-save', 'to_json raises %s: %s' % (type(e).__name__, str(e)[:120]), phase=phase)
            continue
        if s_first is None:
            s_first = s
            out['json'] = s
        elif _strip_pf_grid(json.loads(s)) != _strip_pf_grid(json.loads(s_first)):
            # (a set-up call with a grid argument stores that grid in a portfolio: that key may appear)
            viol('c11-save-stable', 'JSON of the same object changed after a set-up call: ' +
                 str(_first_diff(_strip_pf_grid(json.loads(s_first)), _strip_pf_grid(json.loads(s)))), phase=phase)
        try:
            with Quiet():
                obj2 = ser.load_from_json(s)
        except Exception as e:
            viol('c11-load', 'load_from_json raises %s: %s' % (type(e).__name__, str(e)[:160]), phase=phase)
            continue
        out['nontrivial'] = True
        if type(obj2) is not type(obj):
            viol('c11-load', 'loaded object has type %s, saved %s' % (type(obj2).__name__, type(obj).__name__), phase=phase)
            continue
        # (i) saving the loaded object reproduces the JSON
        try:
            s2 = ser.to_json(obj2)
            if s2 != s:
                viol('c11-resave', 'to_json(load(s)) differs from s: ' + str(_first_diff(json.loads(s), json.loads(s2))), phase=phase)
        except Exception as e:
            viol('c11-resave', 'to_json of the loaded object raises %s: %s' % (type(e).__name__, str(e)[:120]), phase=phase)
        # (iii) a portfolio's own grid survives: same points, same zone; can be set up and optimised
        # (checked first: a set-up call WITH a grid argument replaces the portfolio's grid)
        if cls == 'Portfolio' and t['own_grid']:
            g1, g2 = obj.timegrid, getattr(obj2, 'timegrid', None)
            if g2 is None:
                viol('c11-grid', 'loaded portfolio has no time grid', phase=phase)
            else:
                if str(g1.tz) != str(g2.tz):
                    viol('c11-grid', 'time zone %s became %s' % (g1.tz, g2.tz), phase=phase)
                p1 = [int(pd.Timestamp(x).value) if pd.Timestamp(x).tzinfo is None else int(pd.Timestamp(x).tz_convert('UTC').value) for x in g1.timepoints]
                p2 = [int(pd.Timestamp(x).value) if pd.Timestamp(x).tzinfo is None else int(pd.Timestamp(x).tz_convert('UTC').value) for x in g2.timepoints]
                if p1 != p2 or [str(x) for x in g1.timepoints] != [str(x) for x in g2.timepoints]:
                    viol('c11-grid', 'time points differ (%d vs %d points)' % (len(p1), len(p2)), phase=phase)
                if list(g1.dt) != list(g2.dt) or g1.main_time_unit != g2.main_time_unit or g1.freq != g2.freq:
                    viol('c11-grid', 'step lengths / unit / freq differ', phase=phase)
                own_prices = variants[0][1]     # (the after-setup phase starts with a set-up on variant 0)
                a = _setup(obj, own_prices, None)
                b = _setup(obj2, own_prices, None)
                if a[0] == 'ok' and b[0] != 'ok':
                    viol('c11-grid', 'original can be set up on its own grid, loaded portfolio raises %s' % b[1], phase=phase)
                elif a[0] == 'ok':
                    d = pf.cmp_problem('loaded-vs-original', b[1], a[1], tol=0)
                    if d:
                        viol('c11-problem', 'own grid: ' + d[0], phase=phase)
                    if case.get('solve') and phase == 'fresh':
                        ra, rb = impl.solve(a[2]), impl.solve(b[2])
                        if not isinstance(ra, str):
                            feats.append('solved')
                            if isinstance(rb, str):
                                viol('c11-optimise', 'original optimises (value %g), loaded portfolio: %s' % (ra.value, rb), phase=phase)
                            elif abs(ra.value - rb.value) > 1e-6 * max(1.0, abs(ra.value)):
                                viol('c11-optimise', 'optimal value %r (original) vs %r (loaded)' % (ra.value, rb.value), phase=phase)
                elif a[0] != b[0] or a[1] != b[1]:
                    viol('c11-problem', 'own grid: original %s, loaded %s' % (a[:2], b[:2]), phase=phase)
        # (ii) identical optimisation problem for two (grid, prices) pairs
        for vi, (tg, prices) in enumerate(variants):
            a = _setup(obj, prices, tg)
            b = _setup(obj2, prices, tg)
            if a[0] != b[0]:
                viol('c11-problem', 'variant %d: original set-up %s (%s), loaded set-up %s (%s)' % (
                    vi, a[0], a[1] if a[0] == 'err' else '', b[0], b[1] if b[0] == 'err' else ''), phase=phase, variant=vi)
            elif a[0] == 'ok':
                d = pf.cmp_problem('loaded-vs-original', b[1], a[1], tol=0)
                if d:
                    viol('c11-problem', 'variant %d: %s' % (vi, d[0].replace('(model)', '(loaded)').replace('(impl)', '(original)')),
                         phase=phase, variant=vi)
                feats.append('problem-compared')
            elif a[1] != b[1]:
                viol('c11-problem', 'variant %d: different errors %s vs %s' % (vi, a[1], b[1]), phase=phase, variant=vi)
    return out


def oracle(case, impl_result):
    return impl_result['violations']


# ------------------------------------------------------------------ translator self-check (correspondence)
_SCHEMA = None


def the_schema(repo='/repo'):
    global _SCHEMA
    if _SCHEMA is None:
        _SCHEMA = {c['name']: c for c in schema_gen.schema(repo)}
    return _SCHEMA


def _class_of_dict(d, sch):
    tag = d.get('__class__')
    for c in sch.values():
        if c['tag'] == tag:
            if c['dispatch']:
                return sch.get(d.get(c['dispatch']))
            return c
    return None


def check_json_against_schema(raw, sch, after_setup, where=''):
    """raw: json.loads(to_json(obj)) WITHOUT the object hook; every tagged dict of a schema class is compared
    with the keys the schema predicts.  Returns disagreement strings."""
    out = []
    if isinstance(raw, list):
        for i, x in enumerate(raw):
            out += check_json_against_schema(x, sch, after_setup, where + '[%d]' % i)
        return out
    if not isinstance(raw, dict):
        return out
    if '__class__' in raw:
        c = _class_of_dict(raw, sch)
        if c is not None:
            stored = schema_gen.stored_keys(c, after_setup=True)
            cond = {a['name'] for a in c['attrs'] if a['cond']} | {k for k, _, cd in c['explicit'] if cd} | set(c['computed'])
            allk = {k for k, _ in stored} | {k for k, _ in c['adds']}
            must = {k for k, _ in schema_gen.stored_keys(c, after_setup=False) if k not in cond} | {k for k, _ in c['adds']}
            real = set(raw)
            if not (must <= real <= allk):
                out.append('schema/%s%s: real keys - schema %s ; schema (unconditional) - real %s' % (
                    c['name'], where, sorted(real - allk), sorted(must - real)))
            for k, v in c['adds']:
                if raw.get(k) != v:
                    out.append('schema/%s%s: added key %s = %r, schema says %r' % (c['name'], where, k, raw.get(k), v))
        elif raw['__class__'] not in ('datetime', 'date', 'np_array', 'pd_DateTimeIndex'):
            out.append('schema: tagged dict %r%s has no class in the schema' % (raw.get('__class__'), where))
    for k, v in raw.items():
        out += check_json_against_schema(v, sch, after_setup, where + '/' + k)
    return out


def check_signatures(sch):
    """`inspect.signature` of the real constructors against the schema's parameters"""
    out = []
    import eaopack.assets as A
    import eaopack.portfolio as P
    import eaopack.basic_classes as B
    for name, c in sch.items():
        cls = getattr(A, name, None) or getattr(P, name, None) or getattr(B, name, None)
        if cls is None:
            out.append('signature/%s: class not found in eaopack' % name)
            continue
        if getattr(ser, name, None) is not cls and c['resolvable']:
            out.append('signature/%s: schema says resolvable, serialization module does not export it' % name)
        sig = inspect.signature(cls.__init__)
        own = [(p.name, p.default is inspect.Parameter.empty) for p in list(sig.parameters.values())[1:]
               if p.kind in (p.POSITIONAL_OR_KEYWORD, p.KEYWORD_ONLY)]
        has_kw = any(p.kind == p.VAR_KEYWORD for p in sig.parameters.values())
        sp = {p['name']: p['required'] for p in c['params']}
        for n, req in own:
            if n not in sp:
                out.append('signature/%s: parameter %s missing in schema' % (name, n))
            elif sp[n] != req:
                out.append('signature/%s: parameter %s required=%s, schema says %s' % (name, n, req, sp[n]))
        if not has_kw and set(sp) != {n for n, _ in own}:
            out.append('signature/%s: schema has extra parameters %s' % (name, sorted(set(sp) - {n for n, _ in own})))
        if not has_kw and c['swallows']:
            out.append('signature/%s: schema says **kwargs swallows, constructor has none' % name)
        # python's own view of the chain: parameters reachable through **kwargs are those of the next constructor
        if has_kw:
            chain = set()
            for k in cls.__mro__:
                if '__init__' in k.__dict__:
                    s2 = inspect.signature(k.__init__)
                    chain |= {p.name for p in list(s2.parameters.values())[1:] if p.kind in (p.POSITIONAL_OR_KEYWORD, p.KEYWORD_ONLY)}
                    if not any(p.kind == p.VAR_KEYWORD for p in s2.parameters.values()):
                        break
            if not set(sp) <= chain:
                out.append('signature/%s: schema parameters %s not in any constructor of the chain' % (name, sorted(set(sp) - chain)))
    return out


def check_acceptance(obj, raw, sch):
    """dynamic check of `swallows`: the constructor called with the stored keys plus an unknown key"""
    c = _class_of_dict(raw, sch)
    if c is None or c['ctorMode'] != 'kwargs':
        return []
    try:
        kw = dict(ser.load_from_json(json.dumps({k: v for k, v in raw.items() if k not in c['deserPops']})))
    except Exception:
        return []
    try:
        with Quiet():
            type(obj)(**kw)
    except Exception as e:
        return []      # the plain reload fails: the oracle reports that, not this check
    kw['__no_such_parameter__'] = 1
    try:
        with Quiet():
            type(obj)(**kw)
        swallowed = True
    except TypeError:
        swallowed = False
    except Exception:
        return []
    if swallowed != c['swallows']:
        return ['schema/%s: unknown keyword swallowed=%s, schema says %s' % (c['name'], swallowed, c['swallows'])]
    return []


def schema_selfcheck(case):
    """translator self-check on the objects of one case (before and after a set-up call)"""
    sch = the_schema()
    out = []
    try:
        with Quiet():
            obj, variants = build_case(case)
    except Exception:
        return out, []
    seen = []
    for after in (False, True):
        if after:
            _setup(obj, variants[0][1], variants[0][0])
        try:
            raw = json.loads(ser.to_json(obj))
        except Exception:
            continue
        out += check_json_against_schema(raw, sch, after)
        if not after:
            out += check_acceptance(obj, raw, sch)

        def classes(r):
            if isinstance(r, dict):
                if '__class__' in r:
                    c = _class_of_dict(r, sch)
                    if c:
                        seen.append(c['name'])
                for v in r.values():
                    classes(v)
            elif isinstance(r, list):
                for v in r:
                    classes(v)
        classes(raw)
    return out, seen


# ------------------------------------------------------------------ value codec on the real code
def _eq(a, b):
    if isinstance(a, pd.DatetimeIndex) or isinstance(b, pd.DatetimeIndex):
        return isinstance(a, pd.DatetimeIndex) and isinstance(b, pd.DatetimeIndex) and len(a) == len(b) \
            and all(_eq(x, y) for x, y in zip(a, b)) and a.freqstr == b.freqstr and str(a.tz) == str(b.tz)
    if isinstance(a, np.ndarray) or isinstance(b, np.ndarray):
        return isinstance(a, np.ndarray) and isinstance(b, np.ndarray) and a.shape == b.shape \
            and a.dtype.kind == b.dtype.kind and bool(np.all(a == b))
    if isinstance(a, (dt.datetime, pd.Timestamp)) and isinstance(b, (dt.datetime, pd.Timestamp)):
        a, b = pd.Timestamp(a), pd.Timestamp(b)
        if (a.tzinfo is None) != (b.tzinfo is None):
            return False
        return a == b and str(a.tzinfo) == str(b.tzinfo)
    if isinstance(a, dt.date) and isinstance(b, dt.date):
        return type(a) == type(b) and a == b
    if isinstance(a, dict) and isinstance(b, dict):
        return set(a) == set(b) and all(_eq(a[k], b[k]) for k in a)
    if isinstance(a, list) and isinstance(b, list):
        return len(a) == len(b) and all(_eq(x, y) for x, y in zip(a, b))
    return type(a) == type(b) and a == b


def gen_value(rnd, depth=0):
    """(value, whole_second) — a random value of the codec's domain"""
    k = rnd.choice(['naive', 'aware', 'aware', 'date', 'arr', 'arr2', 'arrint', 'arrdate', 'arrdate_res', 'idx', 'idxtz', 'idxfreq', 'dict', 'list', 'scalar', 'subsec'])
    base = pd.Timestamp('2021-01-01') + pd.Timedelta(seconds=rnd.randrange(0, 3 * 365 * 86400))
    if k == 'naive':
        return (base.to_pydatetime() if rnd.random() < 0.5 else base), True
    if k == 'subsec':
        return base + pd.Timedelta(milliseconds=rnd.randint(1, 999)), False
    if k == 'aware':
        z = rnd.choice(ZONES)
        ts = base.tz_localize('UTC').tz_convert(z)
        return (ts if rnd.random() < 0.6 else ts.to_pydatetime()), True
    if k == 'date':
        return base.date(), True
    if k == 'arr':
        return np.asarray([gen.q8(rnd, -5, 5) for _ in range(rnd.randint(0, 5))], dtype=float), True
    if k == 'arr2':
        return np.asarray([[gen.q8(rnd, -5, 5) for _ in range(3)] for _ in range(rnd.randint(1, 3))], dtype=float), True
    if k == 'arrint':
        return np.asarray([rnd.randint(-5, 5) for _ in range(rnd.randint(1, 5))]), True
    if k == 'arrdate':
        return np.asarray([np.datetime64(base + pd.Timedelta(hours=j), 'ns') for j in range(rnd.randint(1, 4))]), True
    if k == 'arrdate_res':
        # other resolutions than ns (np.arange over dates gives [D], an array of datetime objects [us])
        res = rnd.choice(['D', 's', 'us', 'h', 'm'])
        return np.asarray([np.datetime64(base.floor('D') + pd.Timedelta(days=j), res) for j in range(rnd.randint(1, 4))]), True
    if k == 'idx':
        return pd.DatetimeIndex([base + pd.Timedelta(hours=rnd.randint(0, 100)) for _ in range(rnd.randint(1, 4))]), True
    if k == 'idxtz':
        z = rnd.choice(ZONES)
        return pd.DatetimeIndex([(base + pd.Timedelta(hours=j)).tz_localize('UTC').tz_convert(z) for j in range(rnd.randint(1, 4))]), True
    if k == 'idxfreq':
        return pd.date_range(base.floor('h'), periods=rnd.randint(3, 5), freq=rnd.choice(['h', 'D', '15min'])), True
    if k == 'scalar' or depth >= 2:
        return rnd.choice([None, True, 3, -1, 0.125, 'abc', 2.5, 'p1']), True
    if k == 'dict':
        ws = True
        d = {}
        for j in range(rnd.randint(1, 3)):
            v, w = gen_value(rnd, depth + 1)
            d['k%d' % j] = v
            ws = ws and w
        return d, ws
    ws = True
    l = []
    for j in range(rnd.randint(0, 3)):
        v, w = gen_value(rnd, depth + 1)
        l.append(v)
        ws = ws and w
    return l, ws


EXPECT_TAGGED = {'datetime': {'__class__', '__tz__', '__value__'}, 'date': {'__class__', '__value__'},
                 'np_array': {'__class__', 'is_date', 'np_list'}, 'pd_DateTimeIndex': {'__class__', '__freq__', '__value__'}}


def codec_case(rnd):
    """returns (violations, disagreements) for one random value: decode(encode v) = v under WholeSecond;
    the tagged dicts written have exactly the keys the Lean value codec (`enc`) writes"""
    v, ws = gen_value(rnd)
    viol, dis = [], []
    try:
        s = ser.to_json({'v': v})
        back = ser.load_from_json(s)['v']
    except Exception as e:
        return [{'oracle': 'c11-codec', 'detail': 'value %r: %s: %s' % (v, type(e).__name__, str(e)[:100]), 'facts': {'kind': 'codec'}}], dis
    if ws and not _eq(v, back):
        viol.append({'oracle': 'c11-codec', 'detail': 'value %r came back as %r' % (v, back), 'facts': {'kind': 'codec'}})
    if ws:
        try:
            if ser.to_json({'v': back}) != s:
                viol.append({'oracle': 'c11-codec', 'detail': 'value %r: re-encoding differs' % (v,), 'facts': {'kind': 'codec'}})
        except Exception as e:
            viol.append({'oracle': 'c11-codec', 'detail': 'value %r: re-encoding raises %s' % (v, type(e).__name__), 'facts': {'kind': 'codec'}})

    def shapes(r):
        if isinstance(r, dict):
            if '__class__' in r:
                exp = EXPECT_TAGGED.get(r['__class__'])
                if exp is not None and set(r) != exp:
                    dis.append('codec: tagged dict %s has keys %s, model writes %s' % (r['__class__'], sorted(r), sorted(exp)))
                if r['__class__'] == 'datetime':
                    # the TimeCodec law the Lean theorems assume: strptime inverts strftime
                    t = dt.datetime.strptime(r['__value__'], "%Y-%m-%d %H:%M:%S")
                    if t.strftime("%Y-%m-%d %H:%M:%S") != r['__value__']:
                        dis.append('codec: strftime/strptime not inverse on %s' % r['__value__'])
            for x in r.values():
                shapes(x)
        elif isinstance(r, list):
            for x in r:
                shapes(x)
    shapes(json.loads(s))
    return viol, dis


# ------------------------------------------------------------------ the regenerated obligation
LEAN_OUT = 'EAO/Generated/Schema.lean'
KNOWN_SCHEMA_FINDINGS = {'LinkedAsset'}      # F-11d: excluded BY NAME in EAO.C11.schema_roundtrip

THEOREMS = [
    ('EAO.Properties.C11', 'EAO.C11.schema_roundtrip', 'every class of the table regenerated from the sources (except LinkedAsset, by name) satisfies RoundTripOK; kernel-checked over the regenerated table on every run'),
    ('EAO.Properties.C11', 'EAO.C11.linkedAsset_not_roundtrip', 'F-11d: LinkedAsset stays in the table and is proved not to satisfy RoundTripOK'),
    ('EAO.Properties.C11', 'EAO.C11.schema_table_ok', 'class names distinct, one way to recover the class per tag, no clash with the tags of the value codec'),
    ('EAO.Properties.C11', 'EAO.C11.timegrid_stored_keys', 'a Timegrid is written as exactly start, end, freq, main_time_unit, timezone <- tz'),
    ('EAO.Properties.C11', 'EAO.C11.computed_fields_not_stored', 'computed CHP fields and the base-asset copies of a ScaledAsset are not written'),
    ('EAO.Properties.C11', 'EAO.C11.roundtrip_of_schema', 'for every object tree over classes satisfying RoundTripOK: dec (enc v) = some v (structural induction, any depth)'),
    ('EAO.Properties.C11', 'EAO.C11.encode_decode_encode', 'saving the loaded object reproduces the same JSON'),
    ('EAO.Properties.C11', 'EAO.C11.decode_encode_value', 'value codec: dates, naive/aware datetimes, numeric and datetime64 arrays, DatetimeIndex, nested lists/dicts, under WholeSecond'),
    ('EAO.Properties.C11', 'EAO.C11.computed_fields_ignored', 'an object carrying computed fields (after set-up) is written as the same JSON as without them'),
]


def regenerate(repo='/repo'):
    """step 1 of the check: rewrite EAO/Generated/Schema.lean from the sources (unchanged file keeps its time stamp)"""
    from .. import lean
    import os
    return schema_gen.main(['--repo', repo, '--out', os.path.join(lean.LEAN_DIR, LEAN_OUT)])


def schema_report(timeout=300):
    """when `schema_roundtrip` no longer checks: which class fails which named check (evaluates
    `EAO.Schema.report classes` in Lean on the regenerated table); returns [(class, [checks])] without the
    known findings, or None if Lean could not evaluate it"""
    from .. import lean
    import os
    import re
    import subprocess
    path = os.path.join(lean.LEAN_DIR, '.lake', 'c11_report_%d.lean' % os.getpid())
    os.makedirs(os.path.dirname(path), exist_ok=True)
    open(path, 'w').write('import EAO.Generated.Schema\nopen EAO.Schema\n'
                          '#eval (report classes).map (fun x => x.1 ++ ":" ++ ",".intercalate x.2)\n'
                          '#eval tableOK classes\n')
    try:
        p = subprocess.run(['lake', 'env', 'lean', path], cwd=lean.LEAN_DIR, capture_output=True, text=True, timeout=timeout)
    finally:
        try:
            os.remove(path)
        except OSError:
            pass
    if p.returncode != 0:
        return None
    out = []
    for m in re.finditer(r'"([A-Za-z0-9_]+):([^"]*)"', p.stdout):
        if m.group(1) not in KNOWN_SCHEMA_FINDINGS:
            out.append((m.group(1), m.group(2).split(',')))
    if 'false' in p.stdout.split(']')[-1]:
        out.append(('<table>', ['tableOK']))
    return out


# ------------------------------------------------------------------ property-module style entry points
def scenarios(seed, tier):
    n = 400 if tier == 'quick' else 2400
    rnd = random.Random(seed * 104729 + 11)
    for i in range(n):
        yield 'gen%d' % i, gen_case(random.Random(rnd.getrandbits(48)), i)
    for j in range(3 if tier == 'quick' else 10):
        yield 'codec%d' % j, {'codec': True, 'seed': rnd.getrandbits(32), 'n': 100}


def run_case(case, drv=None):
    """one case through oracle + translator self-check, in the result format of harness.core"""
    r = {'evaluated': 1, 'nontrivial': False, 'features': [], 'disagreements': [], 'violations': []}
    if case.get('codec'):
        rnd = random.Random(case['seed'])
        for _ in range(case['n']):
            v, d = codec_case(rnd)
            r['violations'] += v
            r['disagreements'] += d
        r['nontrivial'] = True
        r['features'].append('codec')
        r['evaluated'] = case['n']
        return r
    res = run_impl(case)
    r['nontrivial'] = res['nontrivial']
    r['features'] = res['features']
    r['violations'] = res['violations']
    d, seen = schema_selfcheck(case)
    r['disagreements'] = d
    r['features'] += ['schema-class:' + c for c in sorted(set(seen))]
    return r


# ------------------------------------------------------------------ self-test
def selftest(n=200, seed=1, drv=None, verbose=False):
    """n generated cases through the oracle and the translator self-check, 3n codec values.
    `drv` is accepted for uniformity with the other components and not used."""
    rnd = random.Random(seed)
    res = {'cases': 0, 'nontrivial': 0, 'violations': [], 'known': 0, 'disagreements': [], 'classes_seen': {},
           'features': {}, 'codec_values': 0}
    res['disagreements'] += check_signatures(the_schema())
    # classes no generated case instantiates directly
    for o in (eao.assets.Asset(name='plain'), eao.Unit(), eao.Node('n', commodity='gas')):
        raw = json.loads(ser.to_json(o))
        res['disagreements'] += check_json_against_schema(raw, the_schema(), False)
        c = _class_of_dict(raw, the_schema())
        res['classes_seen'][c['name']] = res['classes_seen'].get(c['name'], 0) + 1
        if ser.to_json(ser.load_from_json(ser.to_json(o))) != ser.to_json(o):
            res['violations'].append(('static', {'oracle': 'c11-resave', 'detail': type(o).__name__, 'facts': {'class': type(o).__name__}}))
    for i in range(n):
        case = gen_case(random.Random(rnd.getrandbits(48)), i)
        r = run_impl(case)
        res['cases'] += 1
        res['nontrivial'] += bool(r['nontrivial'])
        for f in r['features']:
            res['features'][f] = res['features'].get(f, 0) + 1
        for v in r['violations']:
            if v['facts'].get('kind') == 'linked_asset':
                res['known'] += 1
            else:
                res['violations'].append((i, v))
                if verbose:
                    print('VIOLATION case', i, v)
        d, seen = schema_selfcheck(case)
        for c in seen:
            res['classes_seen'][c] = res['classes_seen'].get(c, 0) + 1
        for x in d:
            res['disagreements'].append((i, x))
            if verbose:
                print('DISAGREEMENT case', i, x)
    for j in range(3 * n):
        v, d = codec_case(rnd)
        res['codec_values'] += 1
        res['violations'] += [('codec%d' % j, x) for x in v]
        res['disagreements'] += [('codec%d' % j, x) for x in d]
    return res


if __name__ == '__main__':
    import sys
    n = int(sys.argv[1]) if len(sys.argv) > 1 else 100
    seed = int(sys.argv[2]) if len(sys.argv) > 2 else 1
    r = selftest(n, seed, verbose=True)
    print(json.dumps({k: (v if not isinstance(v, list) else len(v)) for k, v in r.items()}, indent=1, default=str))
    for x in r['violations'][:20]:
        print('V', x)
    for x in r['disagreements'][:20]:
        print('D', x)
