"""C11 — JSON round trip: ORACLE on the real code, translator self-check, value-codec checks.

A case is a plain JSON value: a generated portfolio scenario (harness.gen) with its parameter values
rewritten into one of the accepted *forms*, a target (one asset, or the portfolio itself, with or without
its own time grid) and a second (grid, prices) pair.  `run_impl` saves / loads / re-saves the target before
and after a `setup_optim_problem` call and compares the optimisation problems built from the original
and from the loaded object exactly (`harness.impl.problem_json`, `harness.pf.cmp_problem`, tol 0).

Streams (all drawn from the seed): `gen` (portfolios of harness.gen + the kinds it does not draw: ramps, min-load
CHP, CHP classes as plain plants with `_no_heat`, linked assets, order books from DataFrames), `dst` (grids a portfolio
OWNS whose start / end are zone-aware time stamps at the daylight-saving switches, with and without the `timezone`
keyword: `gen_grid_dst`), `sweep` (every constructor parameter of every class of the regenerated schema table with
another value than its default: `sweep_groups`, `gen_case_sweep`), `dates` (date containers of every kind — lists / numpy object
arrays of zone-aware time stamps, DatetimeIndex with calendar frequencies, ... — inside interval data, orders and windows on
grids in zones with an offset to UTC around the daylight-saving switches: `gen_case_dates`, harness/comp/datecont.py), and the case `coverage`, which asserts that
parameter coverage against the schema table / inspect.signature and writes every gap to the evidence.

No Lean driver is involved: the model of this component is the schema table that `schema_gen.py`
regenerates from the sources; its tie to the code is `schema_selfcheck` below (real JSON keys and real
`inspect.signature` against the schema) — a disagreement there means the TRANSLATOR misreads the source.
"""
import copy
import datetime as dt
import inspect
import json
import random

import numpy as np
import pandas as pd

import eaopack as eao
from eaopack import serialization as ser
from eaopack.portfolio import Portfolio, StructuredAsset, LinkedAsset

from .. import gen, scen, impl, pf, schema_gen
from . import datecont as DC
from ..impl import Quiet, problem_json, err_class

FORMS = ['plain', 'aware', 'array', 'index', 'ts', 'date', 'datearr']
ZONES = ['CET', 'Europe/Berlin', 'US/Eastern', 'UTC', 'Asia/Kolkata']
# zones with daylight saving time (northern and southern hemisphere, one with a 30 minute shift)
DST_ZONES = ['CET', 'Europe/Berlin', 'US/Eastern', 'Europe/London', 'Australia/Sydney', 'Australia/Lord_Howe']

# Known finding F-11f (zone objects): the datetime hook of the serialiser writes the NAME of a zone and restores the time
# stamp with pandas' default zone objects (pytz).  An asset whose start / end is a datetime.datetime with a zoneinfo zone
# and whose set-up builds a date range from the grid's start to its own end (Storage with `block_size`, any asset with a
# coarser `freq`) can be set up on a grid whose start / end are zoneinfo datetimes before saving; the loaded asset raises
# TypeError 'Start and end cannot both be tz-aware with different timezones' on the same grid (assets.py Storage block
# branch, basic_classes.py Timegrid coarse branch; mirror image: original raises, loaded works, when the grid carries
# pandas' zone objects).  The stream dst generates such cases (grid form `zi` + asset dates in form `zi`); their
# violations carry the fact kind='zoneinfo_dates' (see `_zone_object_clash`) so that known_findings.json can name them.


# ------------------------------------------------------------------ time grids that a portfolio owns
_TRANS = {}


def dst_transitions(zone, year):
    """[(kind, utc instant of the switch as naive UTC Timestamp, shift)] of a zone in a year; kind 'fall' (clocks go
    back: the local time span of length `shift` before the instant is repeated after it) or 'spring' (clocks go forward)"""
    key = (zone, year)
    if key not in _TRANS:
        idx = pd.date_range('%d-01-01' % year, '%d-01-01' % (year + 1), freq='30min', tz='UTC')
        off = idx.tz_convert(zone).tz_localize(None) - idx.tz_localize(None)
        out = []
        for i in range(1, len(idx)):
            if off[i] != off[i - 1]:
                d = off[i] - off[i - 1]
                out.append(('fall' if d < pd.Timedelta(0) else 'spring', idx[i].tz_localize(None), abs(d)))
        _TRANS[key] = out
    return _TRANS[key]


def _boundary(utc_iso, zone, form, off_of=None):
    """one end of a grid from its instant (naive UTC iso) in one of the accepted forms"""
    t = pd.Timestamp(utc_iso, tz='UTC').tz_convert(zone)
    if form == 'ts':            # zone-aware pandas Timestamp
        return t
    if form == 'dt':            # zone-aware datetime.datetime (zone object of pandas' default provider)
        return t.to_pydatetime()
    if form == 'zi':            # datetime.datetime with a zoneinfo zone
        import zoneinfo
        return t.to_pydatetime().astimezone(zoneinfo.ZoneInfo(zone))
    if form == 'off':           # fixed UTC offset (that of `off_of`, the start of the grid) as in an ISO string '...+01:00'
        o = pd.Timestamp(off_of or utc_iso, tz='UTC').tz_convert(zone).utcoffset()
        return pd.Timestamp(utc_iso, tz='UTC').tz_convert(dt.timezone(o))
    if form == 'naive':         # local wall clock time (only with the `timezone` keyword)
        return t.tz_localize(None).to_pydatetime()
    raise ValueError(form)


def make_grid(g):
    """the Timegrid of a grid spec: the plain form of harness.scen (naive local start / end + `timezone` keyword), or
    `aware`: {start_utc, end_utc, start_form, end_form, tz_kw} — start / end given as instants in a form of `_boundary`,
    the `timezone` keyword only when tz_kw"""
    if 'aware' in g:
        a = g['aware']
        return eao.Timegrid(_boundary(a['start_utc'], g['tz'], a['start_form']),
                            _boundary(a['end_utc'], g['tz'], a['end_form'], off_of=a['start_utc']),
                            freq=g['freq'], main_time_unit=g.get('unit', 'h'), timezone=g['tz'] if a['tz_kw'] else None)
    return scen.make_grid(g)


def _utc_iso(ts):
    ts = pd.Timestamp(ts)
    return gen.iso(ts.tz_convert('UTC').tz_localize(None) if ts.tzinfo is not None else ts)


DST_STEPS = [('h', 3600), ('h', 3600), ('30min', 1800), ('15min', 900), ('15min', 900), ('2h', 7200), ('d', 86400)]


def gen_grid_dst(rnd):
    """a grid on a zone with daylight saving time whose start and / or end is a zone-aware time stamp at or next to a
    switch: inside the repeated span when the clocks go back (first and second occurrence), at its borders, at the
    neighbours of the gap when they go forward; with and without the `timezone` keyword; sub-daily and daily steps.
    Returns a grid spec for `make_grid` (validated by constructing it) or None."""
    for _ in range(12):
        zone = rnd.choice(DST_ZONES)
        year = rnd.choice([2021, 2021, 2022])
        kind = rnd.choice(['fall', 'fall', 'fall', 'fall', 'spring', 'spring', 'none'])
        if kind == 'none':       # any time of the year, also zones without daylight saving time
            zone = rnd.choice(ZONES + DST_ZONES)
            X, shift = pd.Timestamp('%d-01-01' % year) + pd.Timedelta(hours=rnd.randrange(0, 8700)), pd.Timedelta(hours=1)
        else:
            cand = [t for t in dst_transitions(zone, year) if t[0] == kind]
            if not cand:
                continue
            _, X, shift = rnd.choice(cand)
        freq, step_s = rnd.choice(DST_STEPS)
        step = pd.Timedelta(seconds=step_s)
        unit = rnd.choice(['h', 'h', 'd', 'min'])
        q = pd.Timedelta(minutes=15)
        nq = int(shift / q)                              # quarter hours in the repeated span / the gap
        if freq == 'd':
            # daily steps: local midnights around the switch (wall clock days of 23 / 25 h), or a start inside / next to the span
            loc = (X.tz_localize('UTC').tz_convert(zone)).tz_localize(None)
            if rnd.random() < 0.7:
                s_loc = loc.normalize() - pd.Timedelta(days=rnd.randint(0, 2))
            else:
                s_loc = loc.floor('h') + rnd.choice([-2, -1, 0, 1]) * pd.Timedelta(hours=1)
            T = rnd.randint(2, 4)
            try:
                s_aw = s_loc.tz_localize(zone, ambiguous=rnd.random() < 0.5)
                e_aw = (s_loc + pd.Timedelta(days=T)).tz_localize(zone, ambiguous=False)
            except Exception:
                continue
            su, eu = _utc_iso(s_aw), _utc_iso(e_aw)
        else:
            where = rnd.choice(['start', 'start', 'end', 'both'])
            m = rnd.randint(-nq - 2, nq + 2)             # quarter hours from the switch: m < 0 before, m >= 0 after
            if rnd.random() < 0.6 and step_s < 86400:    # mostly on multiples of the step
                k = max(1, step_s // 900)
                m = (m // k) * k
            B = X + m * q
            T = rnd.randint(2, 10)
            if where == 'start':
                s, e = B, B + T * step
            elif where == 'end':
                s, e = B - T * step, B
            else:
                m2 = rnd.randint(m + 1, nq + 6)
                s, e = B, X + m2 * q
                if rnd.random() < 0.7:                   # a whole number of steps
                    e = s + max(1, int((e - s) / step)) * step
            su, eu = gen.iso(s), gen.iso(e)
        tz_kw = rnd.random() < 0.6
        if tz_kw:
            sf, ef = rnd.choice(['ts', 'ts', 'dt', 'naive']), rnd.choice(['ts', 'ts', 'dt', 'naive'])
            for which, u in (('s', su), ('e', eu)):      # a wall clock time must exist once in the zone
                if (sf if which == 's' else ef) == 'naive':
                    try:
                        w = pd.Timestamp(u, tz='UTC').tz_convert(zone).tz_localize(None)
                        if w.tz_localize(zone) != pd.Timestamp(u, tz='UTC'):
                            raise ValueError
                    except Exception:
                        if which == 's':
                            sf = 'ts'
                        else:
                            ef = 'ts'
        else:
            sf = ef = rnd.choice(['ts', 'ts', 'ts', 'dt', 'zi', 'off'])
            if sf in ('ts', 'dt') and rnd.random() < 0.3:
                ef = 'dt' if sf == 'ts' else 'ts'
        g = {'start': gen.iso(pd.Timestamp(su, tz='UTC').tz_convert(zone).tz_localize(None)),
             'end': gen.iso(pd.Timestamp(eu, tz='UTC').tz_convert(zone).tz_localize(None)),
             'freq': freq, 'unit': unit, 'tz': zone, 'step_s': step_s,
             'aware': {'start_utc': su, 'end_utc': eu, 'start_form': sf, 'end_form': ef, 'tz_kw': tz_kw},
             'switch': {'kind': kind, 'utc': gen.iso(X), 'shift_s': int(shift.total_seconds())}}
        if _finish_grid(g):
            return g
    return None


def _grid_points(tg):
    """the T + 1 points of a main grid (as the Timegrid constructor computes them)"""
    return list(pd.date_range(start=tg.start, end=tg.end, freq=tg.freq, tz=tg.tz))


def _finish_grid(g):
    """attach the real grid points as naive local times (what harness.gen places windows / interval data on); False if
    pandas / eaopack do not accept the grid"""
    try:
        with Quiet():
            tg = make_grid(g)
        if tg.T < 1:
            return False
        g['_pts'] = [gen.iso(pd.Timestamp(p).tz_localize(None)) for p in _grid_points(tg)]
        g['T_nominal'] = tg.T
        return True
    except Exception:
        return False


def sub_grid(g, tg, T2):
    """the grid spec of the first T2 steps of an `aware` grid"""
    g2 = copy.deepcopy(g)
    g2['aware']['end_utc'] = _utc_iso(_grid_points(tg)[T2])
    if g2['aware']['end_form'] == 'naive':
        g2['aware']['end_form'] = 'ts' if g2['aware']['start_form'] == 'naive' else g2['aware']['start_form']
    return g2 if _finish_grid(g2) else None


def grid_class(g):
    """where the ends of an `aware` grid lie relative to the switch (evidence features)"""
    a, sw = g['aware'], g['switch']
    X, sh = pd.Timestamp(sw['utc']), pd.Timedelta(seconds=sw['shift_s'])
    out = []
    if sw['kind'] == 'none':
        return out
    for nm, u in (('start', a['start_utc']), ('end', a['end_utc'])):
        t = pd.Timestamp(u)
        if sw['kind'] == 'fall':
            if X - sh <= t < X:
                out.append(nm + ':first-occurrence')
            elif X <= t < X + sh:
                out.append(nm + ':second-occurrence')
            elif t == X + sh or (X - sh - pd.Timedelta(hours=1) <= t < X - sh):
                out.append(nm + ':next-to-repeated-span')
        else:
            if t == X:
                out.append(nm + ':just-after-gap')
            elif X - pd.Timedelta(hours=1) <= t < X:
                out.append(nm + ':just-before-gap')
            elif X < t <= X + pd.Timedelta(hours=1):
                out.append(nm + ':after-gap')
    return out


# ------------------------------------------------------------------ generator
def _walk_args(a, f):
    """apply f(key, value, spec) -> new value to every entry of the args of an asset spec (and base / inner)"""
    for k in list(a.get('args', {})):
        a['args'][k] = f(k, a['args'][k], a)
    if 'base' in a:
        _walk_args(a['base'], f)
    for b in a.get('inner', []):
        _walk_args(b, f)


def _map_dt(v, fn):
    if isinstance(v, dict):
        if '$dt' in v:
            return fn(v['$dt'])
        return {k: _map_dt(x, fn) for k, x in v.items()}
    if isinstance(v, list):
        return [_map_dt(x, fn) for x in v]
    return v


def apply_form(scn, form, rnd):
    """rewrite the parameter values of a scenario into another accepted form (in place)"""
    g = scn['grid']
    tz = g.get('tz')
    T = len(g['_pts']) - 1
    if form == 'plain':
        return
    if form == 'aware':
        if tz is None:
            return
        _walk_args_all(scn, lambda k, v, a: _map_dt(v, lambda s: {'$ts': s, 'tz': tz}))
    elif form == 'zi':       # datetime.datetime with a zoneinfo zone (decoded by build_case)
        if tz is None:
            return
        _walk_args_all(scn, lambda k, v, a: _map_dt(v, lambda s: {'$zi': s, 'tz': tz}))
    elif form == 'ts':       # pandas Timestamps instead of datetime.datetime (naive)
        _walk_args_all(scn, lambda k, v, a: _map_dt(v, lambda s: {'$ts': s}))
    elif form == 'date':     # datetime.date for windows that fall on midnight
        def f(k, v, a):
            if k in ('start', 'end') and isinstance(v, dict) and '$dt' in v and v['$dt'].endswith('T00:00:00'):
                return {'$date': v['$dt'][:10]}
            return v
        _walk_args_all(scn, f)
    elif form == 'array':    # scalar capacities / costs as numpy arrays over the whole horizon
        def f(k, v, a):
            if k in ('min_cap', 'max_cap', 'extra_costs') and isinstance(v, (int, float)) and not isinstance(v, bool) \
                    and 'start' not in a['args'] and 'end' not in a['args'] and 'freq' not in a['args'] \
                    and a['type'] in ('SimpleContract', 'Contract', 'MultiCommodityContract') and not a.get('_in_window'):
                return {'$arr': [float(v)] * T}
            if k in ('min_take', 'max_take') and isinstance(v, dict):
                v = dict(v)
                v['values'] = {'$arr': [float(x) for x in v['values']]}
                return v
            if k == 'orders' and isinstance(v, dict):
                v = dict(v)
                v['capa'] = {'$arr': [float(x) for x in v['capa']]}
                v['price'] = {'$arr': [float(x) for x in v['price']]}
                return v
            return v
        _walk_args_all(scn, f)
    elif form == 'datearr':
        _datearr_form(scn, rnd)
    elif form == 'index':    # date lists of interval data as DatetimeIndex
        def f(k, v, a):
            if isinstance(v, dict) and 'start' in v and isinstance(v['start'], list) and v['start'] \
                    and all(isinstance(x, dict) and '$dt' in x for x in v['start']):
                v = dict(v)
                v['start'] = {'$idx': [x['$dt'] for x in v['start']]}
                if 'end' in v and isinstance(v['end'], list):
                    v['end'] = {'$idx': [x['$dt'] for x in v['end']]}
                return v
            return v
        _walk_args_all(scn, f)


def _datearr_form(scn, rnd):
    """date lists of interval data as numpy date arrays of a random resolution ([D] only when all dates are midnights)"""
    def f(k, v, a):
        if isinstance(v, dict) and 'start' in v and isinstance(v['start'], list) and v['start'] \
                and all(isinstance(x, dict) and '$dt' in x for x in v['start']) \
                and (not isinstance(v.get('end'), list) or all(isinstance(x, dict) and '$dt' in x for x in v['end'])):
            v = dict(v)
            alld = [x['$dt'] for x in v['start']] + ([x['$dt'] for x in v['end']] if isinstance(v.get('end'), list) else [])
            res = rnd.choice(['D', 's', 'us', 'ns'] if all(x.endswith('T00:00:00') for x in alld) else ['s', 'us', 'ns', 'm'])
            v['start'] = {'$darr': [x['$dt'] for x in v['start']], 'res': res}
            if isinstance(v.get('end'), list):
                v['end'] = {'$darr': [x['$dt'] for x in v['end']], 'res': res}
            return v
        return v
    _walk_args_all(scn, f)


def _walk_args_all(scn, f):
    for a in scn['assets']:
        if a['type'] == 'StructuredAsset' and ('start' in a['args'] or 'end' in a['args']):
            for b in a.get('inner', []):
                b['_in_window'] = True
        _walk_args(a, f)


def ramp_options(rnd, a):
    """start / shutdown ramps, heat ramps, min-load costs for plants and CHPs (not drawn by harness.gen)"""
    args = a['args']
    mc = args.get('min_cap', 0.0)
    if not isinstance(mc, (int, float)) or mc <= 0:
        return
    n = rnd.randint(1, 3)
    lo = sorted(gen.q8(rnd, 0.125, mc) for _ in range(n))
    r = rnd.random()
    if r < 0.5:
        args['start_ramp_lower_bounds'] = lo
        if rnd.random() < 0.5:
            args['start_ramp_upper_bounds'] = [x + 0.25 for x in lo]
    if r > 0.3:
        args['shutdown_ramp_lower_bounds'] = list(reversed(lo))
        if rnd.random() < 0.5:
            args['shutdown_ramp_upper_bounds'] = [x + 0.5 for x in reversed(lo)]
    if rnd.random() < 0.3:
        args['ramp_freq'] = rnd.choice(['h', '2h', '30min'])
    if a['type'] == 'CHPAsset' and 'start_ramp_lower_bounds' in args and rnd.random() < 0.4:
        args['start_ramp_lower_bounds_heat'] = [x / 2 for x in args['start_ramp_lower_bounds']]
        args['start_ramp_upper_bounds_heat'] = [x / 2 + 0.5 for x in args.get('start_ramp_upper_bounds', args['start_ramp_lower_bounds'])]
        if 'start_ramp_upper_bounds' not in args:
            args['start_ramp_upper_bounds'] = list(args['start_ramp_lower_bounds'])


def storage_all_options(rnd, g, prices, T, name, nodes):
    size = gen.q8(rnd, 2, 8)
    return {'type': 'Storage', 'name': name, 'nodes': nodes,
            'args': {'size': size, 'cap_in': gen.q8(rnd, 0.5, 3), 'cap_out': gen.q8(rnd, 0.5, 3),
                     'start_level': gen.q8(rnd, 0, size), 'end_level': gen.q8(rnd, 0, size),
                     'cost_out': gen.q8(rnd, 0, 1), 'cost_in': gen.q8(rnd, 0, 1), 'cost_store': gen.q8(rnd, 0, 0.5),
                     'block_size': rnd.choice([None, 'd', '8h']), 'eff_in': rnd.choice([0.5, 0.75, 1.0]),
                     'inflow': gen.q8(rnd, 0, 0.5), 'no_simult_in_out': rnd.random() < 0.5,
                     'max_store_duration': rnd.choice([None, 3.0]), 'price': gen.price_key(rnd, prices, T),
                     'wacc': rnd.choice([0.0, 0.05])}}


def no_heat_form(rnd, a):
    """a plant spec (nodes power[, fuel]) written as CHPAsset / CHPAsset_with_min_load_costs with `_no_heat=True`:
    the node configurations these classes accept without heat node (one node; power + fuel node)"""
    a['type'] = rnd.choice(['CHPAsset', 'CHPAsset_with_min_load_costs'])
    a['args']['_no_heat'] = True
    if a['type'] == 'CHPAsset_with_min_load_costs':
        a['args']['min_load_threshhold'] = gen.q8(rnd, 0.5, 3)
        a['args']['min_load_costs'] = gen.q8(rnd, 0.5, 3)
    r = rnd.random()
    if r < 0.3:          # heat parameters are accepted (and have no effect)
        a['args']['conversion_factor_power_heat'] = rnd.choice([0.0, 0.5, 2.0])
    elif r < 0.5:
        a['args']['max_share_heat'] = rnd.choice([0.5, 1.0])


def small_portfolio(rnd, g, T, simple=False, dates=True):
    """a few assets of the kinds of harness.gen on a given grid spec (which carries `_pts`, `T_nominal`, `step_s`, `tz`);
    dates=False: only kinds and options without dates (no windows, interval data, take periods, orders)"""
    prices = {}
    nodes = ['N1', 'N2'][:rnd.randint(1, 2)]
    assets = [{'type': 'SimpleContract', 'name': 'mkt%d' % (j + 1), 'nodes': [n],
               'args': {'min_cap': -40.0, 'max_cap': 40.0, 'price': gen.price_key(rnd, prices, T)}} for j, n in enumerate(nodes)]
    kinds = ['simple', 'contract', 'storage', 'plant', 'orderbook', 'transport', 'ext_transport', 'chp_no_heat', 'scaled']
    if not dates:
        kinds = ['simple', 'storage', 'storage', 'plant', 'transport', 'chp_no_heat', 'scaled']
    for _ in range(rnd.randint(1, 3)):
        k = rnd.choice(kinds)
        nm = '%s%d' % (k[:2], len(assets) + 1)
        n = rnd.choice(nodes)
        if simple:
            a = gen.gen_simple_contract(rnd, g, prices, T, nm, n, allow_opts=False) if k != 'storage' else \
                gen.gen_storage(rnd, g, prices, T, nm, [n], False, False)
        elif k == 'simple':
            a = gen.gen_simple_contract(rnd, g, prices, T, nm, n, allow_opts=dates)
        elif k == 'contract':
            a = gen.gen_contract(rnd, g, prices, T, nm, n)
        elif k == 'storage':
            a = gen.gen_storage(rnd, g, prices, T, nm, [n], allow_blocks=g['step_s'] <= 3600)
        elif k in ('plant', 'chp_no_heat'):
            a = gen.gen_plant(rnd, g, prices, T, nm, nodes if rnd.random() < 0.5 else [n])
            if k == 'chp_no_heat':
                no_heat_form(rnd, a)
        elif k == 'orderbook':
            a = gen.gen_orderbook(rnd, g, prices, T, nm, n)
        elif k == 'scaled':
            a = {'type': 'ScaledAsset', 'name': nm, 'base': gen.gen_simple_contract(rnd, g, prices, T, nm + '_b', n, allow_opts=dates),
                 'args': {'max_scale': rnd.choice([1.0, 2.0]), 'fix_costs': gen.q8(rnd, 0, 1)}}
        elif len(nodes) == 2:
            a = gen.gen_transport(rnd, g, prices, T, nm, nodes[0], nodes[1], ext=(k == 'ext_transport'))
        else:
            a = gen.gen_simple_contract(rnd, g, prices, T, nm, n)
        if not simple and dates and a['type'] not in ('OrderBook', 'ScaledAsset') and rnd.random() < 0.4:
            gen.put_window(a['args'], gen.window(rnd, g, kinds=['inside', 'start_only', 'end_only', 'straddle_end', 'straddle_start', 'covering']))
        assets.append(a)
    return {'grid': g, 'nodes': nodes, 'prices': prices, 'assets': assets}


def gen_case_dst(rnd, i=0):
    """a portfolio that owns a grid of `gen_grid_dst` (some cases: one of its assets, or the portfolio without grid,
    with that grid handed to the set-up call); the second grid is the first part of the same grid"""
    g = gen_grid_dst(random.Random(rnd.getrandbits(48)))
    if g is None:
        return gen_case(rnd, i)
    with Quiet():
        tg = make_grid(g)
    T = tg.T
    case = None
    other_zone_objects = g['aware']['start_form'] in ('zi', 'off')
    for attempt in range(4):
        # (grids whose start / end carry other zone objects than pandas' default ones: pandas refuses date ranges between
        #  time stamps with different zone objects, so asset dates carry the same kind of zone object - form `zi`, known
        #  finding F-11f - or, for fixed offsets, are absent)
        scn = small_portfolio(random.Random(rnd.getrandbits(48)), copy.deepcopy(g), T, simple=(attempt == 3),
                              dates=g['aware']['start_form'] != 'off')
        if other_zone_objects:
            form = 'zi' if g['aware']['start_form'] == 'zi' else 'plain'
            if form == 'zi' and attempt < 3 and g['step_s'] <= 3600 and rnd.random() < 0.5:
                # a storage with blocks and an own window: its set-up builds a date range from the grid's start to its own end
                a = gen.gen_storage(rnd, scn['grid'], scn['prices'], T, 'stz', [scn['nodes'][0]], False, False)
                a['args']['block_size'] = rnd.choice(['4h', '2h'])
                gen.put_window(a['args'], gen.window(rnd, scn['grid'], kinds=['end_only', 'inside', 'start_only']))
                scn['assets'].append(a)
        elif not g['aware']['tz_kw']:
            form = 'aware'          # (without `timezone` keyword the grid knows no zone to read naive dates in)
        else:
            form = rnd.choice(['plain', 'plain', 'aware', 'ts', 'index', 'array', 'datearr'])
        apply_form(scn, form, rnd)
        r = rnd.random()
        if r < 0.75:
            target = {'kind': 'portfolio', 'own_grid': True}
        elif r < 0.9:
            target = {'kind': 'asset', 'index': rnd.randrange(len(scn['assets']))}
        else:
            target = {'kind': 'portfolio', 'own_grid': False}
        g2 = sub_grid(g, tg, max(1, T // 2)) or copy.deepcopy(g)
        with Quiet():
            T2 = make_grid(g2).T
        prices2 = {k: [gen.q8(rnd, -4, 20) for _ in range(T2)] for k in scn['prices']}
        case = {'scn': scn, 'form': form, 'target': target, 'grid2': g2, 'prices2': prices2, 'solve': (i % 3 == 0), 'stream': 'dst'}
        try:
            with Quiet():
                build_case(case)
            break
        except Exception:
            continue
    return case


# ------------------------------------------------------------------ every constructor parameter with a non-default value
# parameters given through the structure of a spec (always other than the default)
STRUCTURAL = {'name', 'nodes', 'base_asset', 'portfolio', 'assets', 'asset1_variable', 'asset2_variable'}
# parameters that cannot occur with another value than the default in an object that is saved (each is reported in the
# evidence as `param-exempt:<Class>.<param>`, i.e. as a coverage gap with its reason; nothing is hidden)
EXEMPT = {
    ('*', 'profile'): 'not implemented in eaopack: with `freq` a profile must be a pandas Series, for which every set-up raises NotImplementedError and to_json raises TypeError; without `freq` the constructor replaces it by None',
    ('Unit', 'factor'): 'the constructor asserts factor == 1',
    ('Timegrid', 'ref_timegrid'): 'out of scope: a Timegrid with ref_timegrid is an internal restricted view of another grid (built by set_restricted_grid), not something a user sets as a portfolio\'s grid; the serialiser does not store the reference grid',
}
# pairs the package does not accept together (or that make no sense together): never in the same sweep case
CONFLICTS = [({'time_already_running'}, {'time_already_off'}),
             ({'_no_heat'}, {'start_ramp_lower_bounds_heat', 'start_ramp_upper_bounds_heat', 'shutdown_ramp_lower_bounds_heat',
                             'shutdown_ramp_upper_bounds_heat', 'conversion_factor_power_heat', 'max_share_heat'}),
             ({'periodicity', 'periodicity_duration'}, {'block_size', 'max_store_duration', 'no_simult_in_out', 'start', 'end', 'freq'}),
             ({'freq'}, {'block_size', 'max_store_duration'}),
             ({'min_take', 'max_take'}, {'start', 'end'})]


def exempt_reason(cls, p):
    return EXEMPT.get((cls, p)) or EXEMPT.get(('*', p))


def ctor_default(cls_name, p):
    """the default python itself reports for parameter p of the constructor chain of a class (inspect.Parameter.empty: required / unknown)"""
    import eaopack.assets as A
    import eaopack.portfolio as P_
    import eaopack.basic_classes as B
    cls = getattr(A, cls_name, None) or getattr(P_, cls_name, None) or getattr(B, cls_name, None)
    if cls is None:
        return inspect.Parameter.empty
    for k in cls.__mro__:
        if '__init__' in k.__dict__:
            ps = inspect.signature(k.__init__).parameters
            if p in ps and ps[p].kind in (ps[p].POSITIONAL_OR_KEYWORD, ps[p].KEYWORD_ONLY):
                return ps[p].default
            if not any(x.kind == x.VAR_KEYWORD for x in ps.values()):
                break
    return inspect.Parameter.empty


def _differs(v, d):
    """is the (decoded) value another one than the default?"""
    if d is inspect.Parameter.empty:
        return True
    scal = (int, float, bool, str, type(None))
    if isinstance(v, scal) and isinstance(d, scal):
        return (v is None) != (d is None) or isinstance(v, str) != isinstance(d, str) or v != d
    if isinstance(v, (list, tuple)) and isinstance(d, (list, tuple)):
        return len(v) != len(d) or any(_differs(x, y) for x, y in zip(v, d))
    return True


def case_params(case):
    """the set of '<Class>.<param>' that occur with another value than the constructor's default in the object of a case
    that is saved (the target asset with everything it wraps, or the portfolio with all assets, their nodes and — if it
    owns one — its time grid)"""
    scn, t = case['scn'], case['target']
    out = set()
    specs = scn['assets'] if t['kind'] == 'portfolio' else [scn['assets'][t['index']]]
    used_nodes = set()
    for a in scen.all_asset_specs({'assets': specs}):
        c = a['type']
        out.add(c + '.name')
        if 'nodes' in a and c != 'ScaledAsset':
            out.add(c + '.nodes')
            used_nodes |= set(a['nodes'])
        if 'base' in a:
            out.add(c + '.base_asset')
        if 'inner' in a:
            out.add(c + '.portfolio')
            out |= {'Portfolio.assets'}
        for k, v in a.get('args', {}).items():
            if _differs(scen.dec(copy.deepcopy(v)), ctor_default(c, k)):
                out.add('%s.%s' % (c, k))
    if t['kind'] == 'portfolio':
        out.add('Portfolio.assets')
        if t.get('own_grid'):
            g = scn['grid']
            out |= {'Timegrid.start', 'Timegrid.end'}
            if g['freq'] != 'h':
                out.add('Timegrid.freq')
            if g.get('unit', 'h') != 'h':
                out.add('Timegrid.main_time_unit')
            if (g['aware']['tz_kw'] if 'aware' in g else g.get('tz') is not None):
                out.add('Timegrid.timezone')
    for n in used_nodes:
        out.add('Node.name')
        o = scn.get('node_opts', {}).get(n, {})
        if o.get('commodity') is not None:
            out.add('Node.commodity')
        if 'unit' in o:
            out.add('Node.unit')
            for k, v in o['unit'].items():
                if _differs(v, ctor_default('Unit', k)):
                    out.add('Unit.' + k)
    return out


def expected_params(sch=None):
    """every (class, parameter) of the regenerated schema table"""
    sch = sch or the_schema()
    return sorted('%s.%s' % (c['name'], p['name']) for c in sch.values() for p in c['params'])


def _ok_pt(g, i):
    t_ = gen.P(g, i)
    return t_ if gen.ok_local(t_, g) else None


def _mult_freq(g, mult):
    tot = g['step_s'] * mult
    return ('%dmin' % (tot // 60)) if tot % 3600 else ('%dh' % (tot // 3600))


def _prov_window(ctx, a, p):
    g, T = ctx['g'], ctx['T']
    for i in ([1, 0, 2] if p == 'start' else [T - 1, T, T - 2]):
        x = _ok_pt(g, i)
        if x is not None and 0 <= i <= T:
            a['args'][p] = gen.dtv(x)
            return


def _prov_ramps(ctx, a, p):
    args = a['args']
    args['min_cap'] = max(1.0, args.get('min_cap', 1.0) if isinstance(args.get('min_cap', 1.0), float) else 1.0)
    lo = [0.25, 0.5]
    kind = 'start' if p.startswith('start') else 'shutdown'
    args.setdefault(kind + '_ramp_lower_bounds', lo if kind == 'start' else list(reversed(lo)))
    if 'upper' in p or p.endswith('_heat'):
        args.setdefault(kind + '_ramp_upper_bounds', [x + 0.25 for x in args[kind + '_ramp_lower_bounds']])
    if p.endswith('_heat'):
        args.setdefault(kind + '_ramp_lower_bounds_heat', [x / 2 for x in args[kind + '_ramp_lower_bounds']])
        args.setdefault(kind + '_ramp_upper_bounds_heat', [x / 2 + 0.5 for x in args[kind + '_ramp_upper_bounds']])


def _prov_periodicity(ctx, a, p):
    g = ctx['g']
    for mult in (2, 3, 4):
        tot = g['step_s'] * mult
        if tot <= 86400 and 86400 % tot == 0:
            a['args']['periodicity'] = _mult_freq(g, mult)
            if p == 'periodicity_duration':
                a['args']['periodicity_duration'] = _mult_freq(g, 2 * mult)
            return


def _prov_no_heat(ctx, a, p):
    a['args']['_no_heat'] = True
    fuel = any(k in a['args'] for k in ('start_fuel', 'fuel_efficiency', 'consumption_if_on')) or \
        any(k in ctx['musts'] for k in ('start_fuel', 'fuel_efficiency', 'consumption_if_on'))
    a['nodes'] = a['nodes'][:1] + a['nodes'][2:3] if (fuel or ctx['rnd'].random() < 0.5) else a['nodes'][:1]


def _num(key, lo, hi):
    return lambda ctx, a, p: a['args'].__setitem__(key, gen.q8(ctx['rnd'], lo, hi))


def _const(key, *vals):
    return lambda ctx, a, p: a['args'].__setitem__(key, ctx['rnd'].choice(vals))


def _prov_extra_costs(ctx, a, p):
    r = ctx['rnd'].random()
    a['args']['extra_costs'] = gen.q8(ctx['rnd'], 0.125, 2) if r < 0.6 else gen.interval_dict(ctx['rnd'], ctx['g'], 0.125, 2, full_cover=False)


def _prov_wacc(ctx, a, p):
    a['args']['wacc'] = ctx['rnd'].choice([0.05, 0.1])
    if 'base' in a:
        a['base']['args']['wacc'] = a['args']['wacc']


def _prov_key(key, lo, hi):
    def f(ctx, a, p):
        k = '%s%d' % (key[:2], len(ctx['prices']))
        ctx['prices'][k] = [gen.q8(ctx['rnd'], lo, hi) for _ in range(ctx['T'])]
        a['args'][key] = k
    return f


# how a sweep case gives a parameter another value than its default (by parameter name; a parameter of the schema that has
# no entry here is never set by the sweep and shows up as `param-gap` unless another stream draws it)
PROVIDERS = {
    'start': _prov_window, 'end': _prov_window, 'wacc': _prov_wacc,
    'freq': lambda ctx, a, p: a['args'].__setitem__('freq', ctx['g']['freq']),       # (the grid's own step: accepted by every class)
    'price': lambda ctx, a, p: a['args'].__setitem__('price', gen.price_key(ctx['rnd'], ctx['prices'], ctx['T'])),
    'extra_costs': _prov_extra_costs, 'min_cap': _num('min_cap', 0.125, 1), 'max_cap': _num('max_cap', 2, 6),
    'min_take': lambda ctx, a, p: a['args'].__setitem__('min_take', gen.take_dict(ctx['rnd'], ctx['g'], -30, -2) if a['type'] not in ('ExtendedTransport',) else gen.take_dict(ctx['rnd'], ctx['g'], 0, 0.5, n=1)),
    'max_take': lambda ctx, a, p: a['args'].__setitem__('max_take', gen.take_dict(ctx['rnd'], ctx['g'], 2, 30)),
    'periodicity': _prov_periodicity, 'periodicity_duration': _prov_periodicity,
    # storage
    'size': _num('size', 4, 8), 'cap_in': _num('cap_in', 0.5, 3), 'cap_out': _num('cap_out', 0.5, 3),
    'start_level': _num('start_level', 0.125, 2), 'end_level': _num('end_level', 0.125, 2), 'cost_out': _num('cost_out', 0.125, 1),
    'cost_in': _num('cost_in', 0.125, 1), 'cost_store': _num('cost_store', 0.125, 0.5), 'block_size': _const('block_size', '4h', '8h', 'd'),
    'eff_in': _const('eff_in', 0.5, 0.75), 'inflow': _num('inflow', 0.125, 0.5), 'no_simult_in_out': _const('no_simult_in_out', True),
    'max_store_duration': _const('max_store_duration', 3.0, 2.0),
    # transport
    'costs_const': _num('costs_const', 0.125, 2), 'costs_time_series': _prov_key('costs_time_series', 0, 2), 'efficiency': _const('efficiency', 0.5, 0.75, 1.5),
    # plants
    'conversion_factor_power_heat': _const('conversion_factor_power_heat', 0.5, 0.25, 2.0), 'max_share_heat': _const('max_share_heat', 0.5, 1.0, 2.0),
    'ramp': _num('ramp', 1, 4), 'start_costs': _num('start_costs', 0.5, 4), 'running_costs': _num('running_costs', 0.125, 1),
    'min_runtime': _const('min_runtime', 2.0, 3.0), 'time_already_running': _const('time_already_running', 1.0, 2.0),
    'min_downtime': _const('min_downtime', 1.0), 'time_already_off': _const('time_already_off', 1.0, 2.0), 'last_dispatch': _num('last_dispatch', 0.125, 2),
    'start_ramp_lower_bounds': _prov_ramps, 'start_ramp_upper_bounds': _prov_ramps, 'shutdown_ramp_lower_bounds': _prov_ramps,
    'shutdown_ramp_upper_bounds': _prov_ramps, 'start_ramp_lower_bounds_heat': _prov_ramps, 'start_ramp_upper_bounds_heat': _prov_ramps,
    'shutdown_ramp_lower_bounds_heat': _prov_ramps, 'shutdown_ramp_upper_bounds_heat': _prov_ramps,
    'ramp_freq': lambda ctx, a, p: (_prov_ramps(ctx, a, 'start_ramp_lower_bounds'), a['args'].__setitem__('ramp_freq', ctx['rnd'].choice(['h', '2h', '30min']))),
    'start_fuel': _num('start_fuel', 0.5, 2), 'fuel_efficiency': _const('fuel_efficiency', 0.5, 0.25, 0.8), 'consumption_if_on': _num('consumption_if_on', 0.125, 1),
    '_no_heat': _prov_no_heat,
    'min_load_threshhold': _num('min_load_threshhold', 0.5, 3), 'min_load_costs': _num('min_load_costs', 0.5, 3),
    'factors_commodities': lambda ctx, a, p: a['args'].__setitem__('factors_commodities', [ctx['rnd'].choice([0.5, -1.0, 2.0, 0.25]) for _ in a['nodes']]),
    # scaled
    'min_scale': _const('min_scale', 0.5, 0.25), 'max_scale': _const('max_scale', 2.0, 4.0), 'norm_scale': _const('norm_scale', 2.0, 0.5), 'fix_costs': _num('fix_costs', 0.125, 1),
    # order book
    'orders': lambda ctx, a, p: None, 'full_exec': _const('full_exec', True),
    # linked
    'asset2_time_already_running': _const('asset2_time_already_running', 2.0, 1.0), 'time_back': _const('time_back', 2, 0), 'time_forward': _const('time_forward', 1, 2),
}


def sweep_base(cls, ctx):
    """a small valid spec of a class on the nodes N1..N3 (the sweep then adds the parameters of its group)"""
    rnd, g, prices, T = ctx['rnd'], ctx['g'], ctx['prices'], ctx['T']
    if cls in ('Asset', 'SimpleContract', 'Contract'):
        return {'type': cls, 'name': 'x', 'nodes': ['N1'], 'args': {} if cls == 'Asset' else {'min_cap': -1.0, 'max_cap': 2.0}}
    if cls in ('Transport', 'ExtendedTransport'):
        return {'type': cls, 'name': 'x', 'nodes': ['N1', 'N2'], 'args': {'min_cap': 0.0, 'max_cap': 2.0}}
    if cls == 'Storage':
        return {'type': cls, 'name': 'x', 'nodes': ['N1'] if rnd.random() < 0.6 else ['N1', 'N2'], 'args': {'size': 4.0, 'cap_in': 1.0, 'cap_out': 1.5}}
    if cls == 'MultiCommodityContract':
        return {'type': cls, 'name': 'x', 'nodes': ['N1', 'N2'], 'args': {'min_cap': -1.0, 'max_cap': 2.0, 'factors_commodities': [1.0, 0.5]}}
    if cls in ('CHPAsset', 'CHPAsset_with_min_load_costs'):
        a = {'type': cls, 'name': 'x', 'nodes': ['N1', 'N2', 'N3'], 'args': {'min_cap': 1.0, 'max_cap': 4.0, 'price': gen.price_key(rnd, prices, T)}}
        if cls != 'CHPAsset':
            a['args'].update({'min_load_threshhold': 2.0, 'min_load_costs': 1.0})
        return a
    if cls == 'Plant':
        return {'type': cls, 'name': 'x', 'nodes': ['N1', 'N2'], 'args': {'min_cap': 1.0, 'max_cap': 4.0, 'price': gen.price_key(rnd, prices, T)}}
    if cls == 'OrderBook':
        return gen.gen_orderbook(rnd, g, prices, T, 'x', 'N1', allow_mip=False)
    if cls == 'ScaledAsset':
        return {'type': cls, 'name': 'x', 'base': {'type': 'SimpleContract', 'name': 'x_b', 'nodes': ['N1'], 'args': {'min_cap': -1.0, 'max_cap': 2.0, 'extra_costs': 0.5}}, 'args': {}}
    if cls == 'StructuredAsset':
        inner = [{'type': 'Transport', 'name': 'x_tr', 'nodes': ['x_i1', 'N1'], 'args': {'min_cap': 0.0, 'max_cap': 2.0}},
                 {'type': 'SimpleContract', 'name': 'x_c', 'nodes': ['x_i1'], 'args': {'min_cap': 0.0, 'max_cap': 3.0, 'extra_costs': 1.0}}]
        return {'type': cls, 'name': 'x', 'nodes': ['N1'], 'inner': inner, 'inner_nodes': ['x_i1'], 'args': {}}
    if cls == 'LinkedAsset':
        inner = [{'type': 'CHPAsset', 'name': 'lk_a', 'nodes': ['N1', 'N2'], 'args': {'min_cap': 1.0, 'max_cap': 4.0, 'extra_costs': 2.0}},
                 {'type': 'CHPAsset', 'name': 'lk_b', 'nodes': ['N1', 'N2'], 'args': {'min_cap': 1.0, 'max_cap': 5.0, 'extra_costs': 1.0}}]
        return {'type': cls, 'name': 'x', 'nodes': ['N1', 'N2'], 'inner': inner,
                'args': {'asset1_variable': ['lk_b', 'disp', 'N1'], 'asset2_variable': ['lk_a', 'bool_on', None]}}
    return None


def sweep_groups(sch=None, size=5):
    """[(class, [params])]: the parameters of every asset class of the schema table that are not given through the
    structure of a spec, packed into groups that avoid the CONFLICTS; each parameter is in exactly one group"""
    sch = sch or the_schema()
    out = []
    for c in sch.values():
        if c['name'] in ('Unit', 'Node', 'Timegrid', 'Portfolio'):
            continue
        groups = []
        for p in [p['name'] for p in c['params']]:
            if p in STRUCTURAL or exempt_reason(c['name'], p):
                continue
            for gr in groups:
                if len(gr) < size and not any((p in x and gr & y) or (p in y and gr & x) for x, y in CONFLICTS):
                    gr.add(p)
                    break
            else:
                groups.append({p})
        out += [(c['name'], sorted(gr)) for gr in groups]
    return out


def gen_case_sweep(rnd, cls, musts, i=0):
    """one asset of class `cls` in which every parameter of `musts` has another value than its default, inside a small
    portfolio with markets; nodes with commodity / unit; target: the asset or the portfolio (with own grid)"""
    g = gen.gen_grid(random.Random(rnd.getrandbits(48)), tmin=4, tmax=8, tz_prob=0.3,
                     grids=[x for x in gen.GRIDS if x[2] <= pd.Timedelta(hours=2)])
    T = scen.make_grid(g).T
    prices = {}
    nodes = ['N1', 'N2', 'N3']
    ctx = {'rnd': rnd, 'g': g, 'prices': prices, 'T': T, 'musts': musts}
    assets = [{'type': 'SimpleContract', 'name': 'mkt%d' % (j + 1), 'nodes': [n],
               'args': {'min_cap': -40.0, 'max_cap': 40.0, 'price': gen.price_key(rnd, prices, T)}} for j, n in enumerate(nodes)]
    a = sweep_base(cls, ctx)
    if a is None:
        return None
    for p_ in musts:
        f = PROVIDERS.get(p_)
        if f is not None:
            f(ctx, a, p_)
    if a['args'].get('min_downtime', 0) > 1 and not (a['args'].get('time_already_off') or a['args'].get('time_already_running')):
        a['args']['time_already_off'] = 1.0
    if any(k.endswith('_heat') and 'ramp' in k for k in a['args']):
        for kind in ('start', 'shutdown'):      # heat ramps for every power ramp that is given (the package expects both or none)
            if kind + '_ramp_lower_bounds' in a['args']:
                _prov_ramps(ctx, a, kind + '_ramp_upper_bounds_heat')
    assets.append(a)
    node_opts = {'N2': {'commodity': rnd.choice(['heat', 'gas'])},
                 'N3': {'commodity': 'gas', 'unit': {'volume': rnd.choice(['MJ', 'm3']), 'flow': rnd.choice(['MJ/h', 'kW'])}}}
    if rnd.random() < 0.5:
        node_opts['N1'] = {'unit': {'volume': 'kWh', 'flow': 'kW'}}
    scn = {'grid': g, 'nodes': nodes + a.get('inner_nodes', []), 'node_opts': node_opts, 'prices': prices, 'assets': assets}
    form = rnd.choice(['plain', 'plain', 'aware', 'ts', 'array', 'index'])
    apply_form(scn, form, rnd)
    target = {'kind': 'asset', 'index': len(assets) - 1} if i % 3 else {'kind': 'portfolio', 'own_grid': True}
    case = {'scn': scn, 'form': form, 'target': target, 'solve': False, 'stream': 'sweep', 'sweep': {'class': cls, 'params': list(musts)}}
    _second_grid(case, rnd)
    return case


def _second_grid(case, rnd):
    """a second grid (first part of the horizon) with its own prices"""
    scn = case['scn']
    g = scn['grid']
    T = len(g['_pts']) - 1
    g2 = None
    for T2 in [max(1, T // 2), max(1, T // 2) + 1, max(1, T // 2) - 1, T]:
        if not (1 <= T2 <= T):
            continue
        cand = dict(g)
        cand['end'] = g['_pts'][T2]
        try:                    # (a local end point may be ambiguous / missing on a DST day)
            gen.fix_grid(cand)
            scen.make_grid(cand)
            g2 = cand
            break
        except Exception:
            continue
    if g2 is None:
        g2 = dict(g)
    T2r = scen.make_grid(g2).T
    case['grid2'] = g2
    case['prices2'] = {k: [gen.q8(rnd, -4, 20) for _ in range(T2r)] for k in scn['prices']}


def gen_case(rnd, i=0):
    """one C11 case"""
    kind_sets = [None, ['simple', 'contract', 'ext_transport', 'multi'], ['plant', 'chp'], ['storage', 'storage2', 'orderbook'],
                 ['scaled', 'structured'], ['chp', 'plant', 'contract']]
    tzp = [0.15, 0.6][i % 2]
    scn = gen.gen_portfolio(random.Random(rnd.getrandbits(48)), kinds=kind_sets[i % len(kind_sets)], tmax=10,
                            tz_prob=tzp, nodes_max=3, max_assets=4)
    g = scn['grid']
    T = len(g['_pts']) - 1
    names = [a['name'] for a in scn['assets']]
    extra = i % 7
    # kinds harness.gen does not draw
    for a in scn['assets']:
        if a['type'] in ('Plant', 'CHPAsset') and rnd.random() < 0.6:
            ramp_options(rnd, a)
        if a['type'] == 'CHPAsset' and rnd.random() < 0.35:
            a['type'] = 'CHPAsset_with_min_load_costs'
            a['args']['min_load_threshhold'] = gen.q8(rnd, 0.5, 3)
            a['args']['min_load_costs'] = gen.q8(rnd, 0.5, 3)
        if a['type'] == 'Plant' and rnd.random() < 0.3:
            no_heat_form(rnd, a)
        if a['type'] == 'OrderBook' and rnd.random() < 0.5:
            a['df_orders'] = True
        if a['type'] == 'ScaledAsset' and rnd.random() < 0.6:
            # the scaled asset's OWN life time (the duration its fixed costs are charged for and, since fix F-08f, a restriction of the base's window)
            gen.put_window(a['args'], gen.window(rnd, g, kinds=['inside', 'start_only', 'end_only', 'straddle_end', 'straddle_start']))
            a['args']['fix_costs'] = max(0.125, a['args'].get('fix_costs', 0))
    if extra == 1:
        scn['assets'].append(storage_all_options(rnd, g, scn['prices'], T, 'st_all', [scn['nodes'][0]]))
    if extra == 2 and len(scn['nodes']) >= 2:
        n1, n2 = scn['nodes'][0], scn['nodes'][1]
        inner = [{'type': 'CHPAsset', 'name': 'lk_a', 'nodes': [n1, n2], 'args': {'min_cap': 1.0, 'max_cap': 4.0, 'extra_costs': 2.0}},
                 {'type': 'CHPAsset', 'name': 'lk_b', 'nodes': [n1, n2], 'args': {'min_cap': 1.0, 'max_cap': 5.0, 'extra_costs': 1.0}}]
        scn['assets'].append({'type': 'LinkedAsset', 'name': 'linked', 'nodes': [n1, n2], 'inner': inner,
                              'args': {'asset1_variable': ['lk_b', 'disp', n1], 'asset2_variable': ['lk_a', 'bool_on', None],
                                       'time_back': rnd.choice([0, 1, 2])}})
    form = FORMS[i % len(FORMS)] if rnd.random() < 0.8 else 'plain'
    apply_form(scn, form, rnd)
    n_assets = len(scn['assets'])
    r = i % 5
    if r < 3:
        target = {'kind': 'asset', 'index': rnd.randrange(n_assets)}
        if extra in (1, 2) and len(scn['assets']) > len(names):
            target['index'] = n_assets - 1
    elif r == 3:
        target = {'kind': 'portfolio', 'own_grid': False}
    else:
        target = {'kind': 'portfolio', 'own_grid': True}
    case = {'scn': scn, 'form': form, 'target': target, 'solve': (i % 5 == 4)}
    _second_grid(case, rnd)
    return case


def gen_case_dates(rnd, i=0):
    """stream `dates`: a portfolio whose interval data, orders and windows hold their dates in containers of every kind
    (harness.comp.datecont: lists / numpy object arrays of zone-aware Timestamps or datetimes, DatetimeIndex without and
    with a calendar frequency, datetime64 arrays, dates in another zone than the grid's) on a grid whose zone is mostly not
    UTC, around a daylight-saving switch or anywhere in the year.  Second (grid, prices) pair: the first part of the
    horizon, in the same or in another zone."""
    for attempt in range(8):
        g = DC.gen_grid(random.Random(rnd.getrandbits(48)))
        if g is None:
            continue
        scn = DC.portfolio(random.Random(rnd.getrandbits(48)), g)
        DC.apply_containers(scn, random.Random(rnd.getrandbits(48)))
        with_dates = [j for j, a in enumerate(scn['assets']) if DC.has_containers(a)]
        if not with_dates:
            continue
        r = rnd.random()
        if r < 0.5:
            target = {'kind': 'portfolio', 'own_grid': True}
        elif r < 0.85:
            target = {'kind': 'asset', 'index': rnd.choice(with_dates)}
        else:
            target = {'kind': 'portfolio', 'own_grid': False}
        case = {'scn': scn, 'form': 'containers', 'target': target, 'solve': (i % 4 == 0), 'stream': 'dates'}
        _second_grid(case, rnd)
        if rnd.random() < 0.3:      # the same local times in another zone
            g2 = {k: v for k, v in case['grid2'].items() if k != '_pts'}
            g2['tz'] = rnd.choice([z for z in DC.ZONES if z != g['tz']])
            try:
                gen.fix_grid(g2)
                T2 = scen.make_grid(g2).T
                if T2 >= 1:
                    case['grid2'] = g2
                    case['prices2'] = {k: [gen.q8(rnd, -4, 20) for _ in range(T2)] for k in scn['prices']}
            except Exception:
                pass
        try:
            with Quiet():
                build_case(case)
            return case
        except Exception:
            continue
    return gen_case(rnd, i)


# ------------------------------------------------------------------ building
def _patch_df_orders(spec, obj):
    if spec.get('df_orders'):
        return eao.assets.OrderBook(name=obj.name, nodes=obj.nodes[0], wacc=obj.wacc,
                                    orders=pd.DataFrame(obj.orders), full_exec=obj.full_exec)
    return obj


def make_nodes(scn):
    """nodes of a scenario; `node_opts`: {name: {commodity, unit: {volume, flow, factor}}} for other than default nodes"""
    out = {}
    for n in scn['nodes']:
        o = dict(scn.get('node_opts', {}).get(n, {}))
        if 'unit' in o:
            o['unit'] = eao.Unit(**o['unit'])
        out[n] = eao.Node(n, **o)
    return out


def _pre_dec(v):
    """forms harness.scen does not decode: {'$zi': iso, 'tz': zone} -> datetime.datetime with a zoneinfo zone"""
    if isinstance(v, dict):
        if '$zi' in v:
            import zoneinfo
            return pd.Timestamp(v['$zi']).to_pydatetime().replace(tzinfo=zoneinfo.ZoneInfo(v['tz']))
        return {k: _pre_dec(x) for k, x in v.items()}
    if isinstance(v, list):
        return [_pre_dec(x) for x in v]
    return v


def build_case(case):
    scn = case['scn']
    tg = make_grid(scn['grid'])
    nodes = make_nodes(scn)
    assets = []
    specs = _pre_dec(scn['assets']) if case.get('form') == 'zi' else scn['assets']
    if DC.has_containers(specs):      # date containers of the stream `dates` (harness.comp.datecont)
        specs = DC.dec_containers(specs)
    for s in specs:
        if s['type'] == 'LinkedAsset':
            inner = [scen.build_asset(x, nodes) for x in s['inner']]
            args = scen.dec(copy.deepcopy(s['args']))
            for k in ('asset1_variable', 'asset2_variable'):
                a, v, n = args[k]
                args[k] = [a, v, nodes[n] if n is not None else None]
            assets.append(LinkedAsset(Portfolio(inner), name=s['name'], nodes=[nodes[n] for n in s['nodes']], **args))
        else:
            assets.append(_patch_df_orders(s, scen.build_asset(s, nodes)))
    prices = {k: np.asarray(v, dtype=float) for k, v in scn.get('prices', {}).items()}
    tg2 = make_grid(case['grid2'])
    prices2 = {k: np.asarray(v, dtype=float) for k, v in case['prices2'].items()}
    portf = Portfolio(assets)
    t = case['target']
    if t['kind'] == 'asset':
        obj = assets[t['index']]
    else:
        obj = portf
        if t['own_grid']:
            portf.set_timegrid(tg)
    return obj, [(tg, prices), (tg2, prices2)]


def contains_linked(spec):
    return any(a['type'] == 'LinkedAsset' for a in scen.all_asset_specs({'assets': [spec]}))


# ------------------------------------------------------------------ the oracle
def _setup(obj, prices, tg):
    """('ok', problem json) | ('err', class)"""
    try:
        with Quiet():
            op = obj.setup_optim_problem(prices, tg) if tg is not None else obj.setup_optim_problem(prices)
        return 'ok', problem_json(op), op
    except Exception as e:
        return 'err', err_class(e), '%s: %s' % (type(e).__name__, e)


def _zone_object_clash(case, a, b):
    """known finding F-11f: the case has asset dates with zoneinfo zones on a grid given by zoneinfo datetimes, exactly one
    of original / loaded object fails to set up, and it fails with pandas' refusal of two zone objects"""
    g = case['scn']['grid']
    if not (case.get('form') == 'zi' and g.get('aware', {}).get('start_form') == 'zi' and '"$zi"' in json.dumps(case['scn']['assets'])):
        return False
    errs = [x for x in (a, b) if x[0] == 'err']
    return len(errs) == 1 and errs[0][1] == 'type' and 'cannot both be tz-aware with different timezones' in str(errs[0][2])


def _first_diff(a, b, path=''):
    if type(a) != type(b):
        return '%s: %s vs %s' % (path, type(a).__name__, type(b).__name__)
    if isinstance(a, dict):
        for k in sorted(set(a) | set(b)):
            if k not in a:
                return '%s: key %r only after reload' % (path, k)
            if k not in b:
                return '%s: key %r lost' % (path, k)
            d = _first_diff(a[k], b[k], path + '/' + k)
            if d:
                return d
        return None
    if isinstance(a, list):
        if len(a) != len(b):
            return '%s: length %d vs %d' % (path, len(a), len(b))
        for i, (x, y) in enumerate(zip(a, b)):
            d = _first_diff(x, y, '%s[%d]' % (path, i))
            if d:
                return d
        return None
    return None if a == b else '%s: %r vs %r' % (path, a, b)


def _instant(x):
    """(UTC nanoseconds | wall clock nanoseconds of a naive time, zone name | None)"""
    x = pd.Timestamp(x)
    if x.tzinfo is None:
        return ('naive', int(x.value), None)
    return ('aware', int(x.tz_convert('UTC').value), str(x.tzinfo))


def grid_facts(tg):
    """what 'the same time points and time zone' is decided on: the points as instants AND as local times with their
    UTC offset, the zone of the points AND the grid's `tz` attribute, start / end, step lengths"""
    tp = pd.DatetimeIndex(tg.timepoints)
    return {'tz_kw': None if tg.tz is None else str(tg.tz), 'zone': None if tp.tz is None else str(tp.tz), 'T': int(tg.T),
            'instants': [_instant(x)[:2] for x in tp], 'rendered': [str(x) for x in tp],
            'start': _instant(tg.start), 'end': _instant(tg.end),
            'dt': [float(x) for x in tg.dt], 'Dt': [float(x) for x in tg.Dt], 'unit': tg.main_time_unit, 'freq': tg.freq}


def _strip_pf_grid(r):
    if isinstance(r, dict):
        return {k: _strip_pf_grid(v) for k, v in r.items() if not (k == 'timegrid' and r.get('__class__') == 'Portfolio')}
    if isinstance(r, list):
        return [_strip_pf_grid(x) for x in r]
    return r


def run_impl(case):
    """runs the round trips on the real code; returns {'violations': [...], 'features': [...], 'nontrivial': bool}"""
    out = {'violations': [], 'features': [], 'nontrivial': False, 'json': None}
    feats = out['features']
    scn = case['scn']
    t = case['target']
    if t['kind'] == 'asset':
        spec = scn['assets'][t['index']]
        cls = spec['type']
        linked = contains_linked(spec)
    else:
        cls = 'Portfolio'
        linked = any(contains_linked(a) for a in scn['assets'])
    facts0 = {'class': cls, 'form': case['form'], 'tz': scn['grid'].get('tz')}
    if linked:
        facts0['kind'] = 'linked_asset'
    feats += ['class:' + cls, 'form:' + case['form']] + (['tz'] if scn['grid'].get('tz') else [])
    if cls == 'Portfolio':
        feats.append('own-grid' if t['own_grid'] else 'no-grid')
        feats += ['asset:' + a['type'] for a in scn['assets']]
    if case.get('stream'):
        facts0['stream'] = case['stream']
        feats.append('stream:' + case['stream'])
    if 'aware' in scn['grid']:
        ga = scn['grid']['aware']
        own = cls == 'Portfolio' and t['own_grid']
        facts0['grid'] = {'zone': scn['grid']['tz'], 'freq': scn['grid']['freq'], 'tz_kw': ga['tz_kw'], 'forms': [ga['start_form'], ga['end_form']],
                          'where': grid_class(scn['grid']), 'own': own}
        pre = 'own-grid:' if own else 'grid-arg:'
        feats += [pre + x for x in grid_class(scn['grid'])]
        feats += [pre + ('timezone-keyword' if ga['tz_kw'] else 'zone-only-from-aware-start-end'), pre + 'freq:' + scn['grid']['freq'],
                  pre + 'zone:' + scn['grid']['tz'], pre + 'switch:' + scn['grid']['switch']['kind']]
        feats += sorted({pre + 'form:' + ga['start_form'], pre + 'form:' + ga['end_form']})
    for a in scen.all_asset_specs(scn) if cls == 'Portfolio' else scen.all_asset_specs({'assets': [spec]}):
        if a.get('args', {}).get('_no_heat'):
            feats.append('no-heat:%s:%d-node%s' % (a['type'], len(a['nodes']), 's' if len(a['nodes']) > 1 else ''))
    conts = sorted(DC.container_kinds(scn['assets'] if cls == 'Portfolio' else spec))
    if conts:
        facts0['containers'] = conts
        feats += ['dates:' + x for x in conts]
        if scn['grid'].get('season'):
            feats.append('dates-grid:%s:%s' % (scn['grid']['season'], 'UTC' if scn['grid'].get('tz') == 'UTC' else 'zone-with-offset'))
        if case.get('grid2', {}).get('tz') != scn['grid'].get('tz'):
            feats.append('dates-grid2:other-zone')

    def viol(oracle, detail, **kw):
        f = dict(facts0)
        f.update(kw)
        out['violations'].append({'oracle': oracle, 'detail': detail, 'facts': f})

    try:
        with Quiet():
            obj, variants = build_case(case)
    except Exception as e:
        feats.append('build-error:' + err_class(e))
        return out
    s_first = None
    for phase in ('fresh', 'after-setup'):
        if phase == 'after-setup':
            # computed attributes: at least one set-up call on the original before saving
            st = _setup(obj, variants[0][1], variants[0][0])
            feats.append('setup:' + st[0])
        try:
            s = ser.to_json(obj)
        except Exception as e:
            viol('c11-save', 'to_json raises %s: %s' % (type(e).__name__, str(e)[:120]), phase=phase)
            continue
        if s_first is None:
            s_first = s
            out['json'] = s
        elif _strip_pf_grid(json.loads(s)) != _strip_pf_grid(json.loads(s_first)):
            # (a set-up call with a grid argument stores that grid in a portfolio: that key may appear)
            viol('c11-save-stable', 'JSON of the same object changed after a set-up call: ' +
                 str(_first_diff(_strip_pf_grid(json.loads(s_first)), _strip_pf_grid(json.loads(s)))), phase=phase)
        try:
            with Quiet():
                obj2 = ser.load_from_json(s)
        except Exception as e:
            viol('c11-load', 'load_from_json raises %s: %s' % (type(e).__name__, str(e)[:160]), phase=phase)
            continue
        out['nontrivial'] = True
        if type(obj2) is not type(obj):
            viol('c11-load', 'loaded object has type %s, saved %s' % (type(obj2).__name__, type(obj).__name__), phase=phase)
            continue
        # (i) saving the loaded object reproduces the JSON
        try:
            s2 = ser.to_json(obj2)
            if s2 != s:
                viol('c11-resave', 'to_json(load(s)) differs from s: ' + str(_first_diff(json.loads(s), json.loads(s2))), phase=phase)
        except Exception as e:
            viol('c11-resave', 'to_json of the loaded object raises %s: %s' % (type(e).__name__, str(e)[:120]), phase=phase)
        # (iii) a portfolio's own grid survives: same points, same zone; can be set up and optimised
        # (checked first: a set-up call WITH a grid argument replaces the portfolio's grid)
        if cls == 'Portfolio' and t['own_grid']:
            g1, g2 = obj.timegrid, getattr(obj2, 'timegrid', None)
            if g2 is None:
                viol('c11-grid', 'loaded portfolio has no time grid', phase=phase)
            else:
                f1, f2 = grid_facts(g1), grid_facts(g2)
                for what, key in (('`tz` attribute (the timezone keyword)', 'tz_kw'), ('zone of the time points', 'zone'),
                                  ('number of steps T', 'T'), ('time points as instants (UTC)', 'instants'),
                                  ('time points as written with UTC offset', 'rendered'),
                                  ('start (instant, zone)', 'start'), ('end (instant, zone)', 'end'),
                                  ('step lengths dt', 'dt'), ('cumulated durations Dt', 'Dt'),
                                  ('main_time_unit', 'unit'), ('freq', 'freq')):
                    if f1[key] != f2[key]:
                        a_, b_ = f1[key], f2[key]
                        if isinstance(a_, list):
                            j = next((j for j in range(min(len(a_), len(b_))) if a_[j] != b_[j]), min(len(a_), len(b_)))
                            a_, b_ = ('%d values, [%d]=%s' % (len(a_), j, a_[j] if j < len(a_) else '-'),
                                      '%d values, [%d]=%s' % (len(b_), j, b_[j] if j < len(b_) else '-'))
                        viol('c11-grid', "the portfolio's own grid changed: %s: %s before saving, %s after loading (first point %s vs %s)" % (
                            what, a_, b_, f1['rendered'][:1], f2['rendered'][:1]), phase=phase, grid_field=key)
                        break
                own_prices = variants[0][1]     # (the after-setup phase starts with a set-up on variant 0)
                a = _setup(obj, own_prices, None)
                b = _setup(obj2, own_prices, None)
                zk = {'kind': 'zoneinfo_dates'} if _zone_object_clash(case, a, b) else {}
                if a[0] == 'ok' and b[0] != 'ok':
                    viol('c11-grid', 'original can be set up on its own grid, loaded portfolio raises %s' % b[1], phase=phase, **zk)
                elif a[0] == 'ok':
                    d = pf.cmp_problem('loaded-vs-original', b[1], a[1], tol=0)
                    if d:
                        viol('c11-problem', 'own grid: ' + d[0], phase=phase)
                    if case.get('solve') and phase == 'fresh':
                        ra, rb = impl.solve(a[2]), impl.solve(b[2])
                        if not isinstance(ra, str):
                            feats.append('solved')
                            if isinstance(rb, str):
                                viol('c11-optimise', 'original optimises (value %g), loaded portfolio: %s' % (ra.value, rb), phase=phase)
                            elif abs(ra.value - rb.value) > 1e-6 * max(1.0, abs(ra.value)):
                                viol('c11-optimise', 'optimal value %r (original) vs %r (loaded)' % (ra.value, rb.value), phase=phase)
                elif a[0] != b[0] or a[1] != b[1]:
                    viol('c11-problem', 'own grid: original %s, loaded %s' % (a[:2], b[:2]), phase=phase, **zk)
        # (ii) identical optimisation problem for two (grid, prices) pairs
        for vi, (tg, prices) in enumerate(variants):
            a = _setup(obj, prices, tg)
            b = _setup(obj2, prices, tg)
            if a[0] != b[0]:
                zk = {'kind': 'zoneinfo_dates'} if _zone_object_clash(case, a, b) else {}
                viol('c11-problem', 'variant %d: original set-up %s (%s), loaded set-up %s (%s)' % (
                    vi, a[0], a[1] if a[0] == 'err' else '', b[0], b[1] if b[0] == 'err' else ''), phase=phase, variant=vi, **zk)
                if zk:
                    feats.append('zoneinfo-dates:zone-object-clash')
            elif a[0] == 'ok':
                d = pf.cmp_problem('loaded-vs-original', b[1], a[1], tol=0)
                if d:
                    viol('c11-problem', 'variant %d: %s' % (vi, d[0].replace('(model)', '(loaded)').replace('(impl)', '(original)')),
                         phase=phase, variant=vi)
                feats.append('problem-compared')
            elif a[1] != b[1]:
                viol('c11-problem', 'variant %d: different errors %s vs %s' % (vi, a[1], b[1]), phase=phase, variant=vi)
    return out


def oracle(case, impl_result):
    return impl_result['violations']


# ------------------------------------------------------------------ translator self-check (correspondence)
_SCHEMA = None


def the_schema(repo='/repo'):
    global _SCHEMA
    if _SCHEMA is None:
        _SCHEMA = {c['name']: c for c in schema_gen.schema(repo)}
    return _SCHEMA


def _class_of_dict(d, sch):
    tag = d.get('__class__')
    for c in sch.values():
        if c['tag'] == tag:
            if c['dispatch']:
                return sch.get(d.get(c['dispatch']))
            return c
    return None


def check_json_against_schema(raw, sch, after_setup, where=''):
    """raw: json.loads(to_json(obj)) WITHOUT the object hook; every tagged dict of a schema class is compared
    with the keys the schema predicts.  Returns disagreement strings."""
    out = []
    if isinstance(raw, list):
        for i, x in enumerate(raw):
            out += check_json_against_schema(x, sch, after_setup, where + '[%d]' % i)
        return out
    if not isinstance(raw, dict):
        return out
    if '__class__' in raw:
        c = _class_of_dict(raw, sch)
        if c is not None:
            stored = schema_gen.stored_keys(c, after_setup=True)
            cond = {a['name'] for a in c['attrs'] if a['cond']} | {k for k, _, cd in c['explicit'] if cd} | set(c['computed'])
            allk = {k for k, _ in stored} | {k for k, _ in c['adds']}
            must = {k for k, _ in schema_gen.stored_keys(c, after_setup=False) if k not in cond} | {k for k, _ in c['adds']}
            real = set(raw)
            if not (must <= real <= allk):
                out.append('schema/%s%s: real keys - schema %s ; schema (unconditional) - real %s' % (
                    c['name'], where, sorted(real - allk), sorted(must - real)))
            for k, v in c['adds']:
                if raw.get(k) != v:
                    out.append('schema/%s%s: added key %s = %r, schema says %r' % (c['name'], where, k, raw.get(k), v))
        elif raw['__class__'] not in ('datetime', 'date', 'np_array', 'pd_DateTimeIndex'):
            out.append('schema: tagged dict %r%s has no class in the schema' % (raw.get('__class__'), where))
    for k, v in raw.items():
        out += check_json_against_schema(v, sch, after_setup, where + '/' + k)
    return out


def check_signatures(sch):
    """`inspect.signature` of the real constructors against the schema's parameters"""
    out = []
    import eaopack.assets as A
    import eaopack.portfolio as P
    import eaopack.basic_classes as B
    for name, c in sch.items():
        cls = getattr(A, name, None) or getattr(P, name, None) or getattr(B, name, None)
        if cls is None:
            out.append('signature/%s: class not found in eaopack' % name)
            continue
        if getattr(ser, name, None) is not cls and c['resolvable']:
            out.append('signature/%s: schema says resolvable, serialization module does not export it' % name)
        sig = inspect.signature(cls.__init__)
        own = [(p.name, p.default is inspect.Parameter.empty) for p in list(sig.parameters.values())[1:]
               if p.kind in (p.POSITIONAL_OR_KEYWORD, p.KEYWORD_ONLY)]
        has_kw = any(p.kind == p.VAR_KEYWORD for p in sig.parameters.values())
        sp = {p['name']: p['required'] for p in c['params']}
        for n, req in own:
            if n not in sp:
                out.append('signature/%s: parameter %s missing in schema' % (name, n))
            elif sp[n] != req:
                out.append('signature/%s: parameter %s required=%s, schema says %s' % (name, n, req, sp[n]))
        if not has_kw and set(sp) != {n for n, _ in own}:
            out.append('signature/%s: schema has extra parameters %s' % (name, sorted(set(sp) - {n for n, _ in own})))
        if not has_kw and c['swallows']:
            out.append('signature/%s: schema says **kwargs swallows, constructor has none' % name)
        # python's own view of the chain: parameters reachable through **kwargs are those of the next constructor
        if has_kw:
            chain = set()
            for k in cls.__mro__:
                if '__init__' in k.__dict__:
                    s2 = inspect.signature(k.__init__)
                    chain |= {p.name for p in list(s2.parameters.values())[1:] if p.kind in (p.POSITIONAL_OR_KEYWORD, p.KEYWORD_ONLY)}
                    if not any(p.kind == p.VAR_KEYWORD for p in s2.parameters.values()):
                        break
            if not set(sp) <= chain:
                out.append('signature/%s: schema parameters %s not in any constructor of the chain' % (name, sorted(set(sp) - chain)))
    return out


def check_acceptance(obj, raw, sch):
    """dynamic check of `swallows`: the constructor called with the stored keys plus an unknown key"""
    c = _class_of_dict(raw, sch)
    if c is None or c['ctorMode'] != 'kwargs':
        return []
    try:
        kw = dict(ser.load_from_json(json.dumps({k: v for k, v in raw.items() if k not in c['deserPops']})))
    except Exception:
        return []
    try:
        with Quiet():
            type(obj)(**kw)
    except Exception as e:
        return []      # the plain reload fails: the oracle reports that, not this check
    kw['__no_such_parameter__'] = 1
    try:
        with Quiet():
            type(obj)(**kw)
        swallowed = True
    except TypeError:
        swallowed = False
    except Exception:
        return []
    if swallowed != c['swallows']:
        return ['schema/%s: unknown keyword swallowed=%s, schema says %s' % (c['name'], swallowed, c['swallows'])]
    return []


def schema_selfcheck(case):
    """translator self-check on the objects of one case (before and after a set-up call)"""
    sch = the_schema()
    out = []
    try:
        with Quiet():
            obj, variants = build_case(case)
    except Exception:
        return out, []
    seen = []
    for after in (False, True):
        if after:
            _setup(obj, variants[0][1], variants[0][0])
        try:
            raw = json.loads(ser.to_json(obj))
        except Exception:
            continue
        out += check_json_against_schema(raw, sch, after)
        if not after:
            out += check_acceptance(obj, raw, sch)

        def classes(r):
            if isinstance(r, dict):
                if '__class__' in r:
                    c = _class_of_dict(r, sch)
                    if c:
                        seen.append(c['name'])
                for v in r.values():
                    classes(v)
            elif isinstance(r, list):
                for v in r:
                    classes(v)
        classes(raw)
    return out, seen


# ------------------------------------------------------------------ value codec on the real code
def _eq(a, b):
    if isinstance(a, pd.DatetimeIndex) or isinstance(b, pd.DatetimeIndex):
        return isinstance(a, pd.DatetimeIndex) and isinstance(b, pd.DatetimeIndex) and len(a) == len(b) \
            and all(_eq(x, y) for x, y in zip(a, b)) and a.freqstr == b.freqstr and str(a.tz) == str(b.tz)
    if isinstance(a, np.ndarray) or isinstance(b, np.ndarray):
        if isinstance(a, np.ndarray) and isinstance(b, np.ndarray) and (a.dtype == object or b.dtype == object):
            # object arrays of time stamps (numpy has no zone-aware date type): element by element, instants AND zones; the
            # statement does not demand the same numpy dtype for the same dates (a datetime64 array holds the same naive dates)
            return a.shape == b.shape and all(_eq(x, y) for x, y in zip(a.ravel(), b.ravel()))
        return isinstance(a, np.ndarray) and isinstance(b, np.ndarray) and a.shape == b.shape \
            and a.dtype.kind == b.dtype.kind and bool(np.all(a == b))
    if isinstance(a, (dt.datetime, pd.Timestamp, np.datetime64)) and isinstance(b, (dt.datetime, pd.Timestamp, np.datetime64)):
        a, b = pd.Timestamp(a), pd.Timestamp(b)
        if (a.tzinfo is None) != (b.tzinfo is None):
            return False
        return a == b and str(a.tzinfo) == str(b.tzinfo)
    if isinstance(a, dt.date) and isinstance(b, dt.date):
        return type(a) == type(b) and a == b
    if isinstance(a, dict) and isinstance(b, dict):
        return set(a) == set(b) and all(_eq(a[k], b[k]) for k in a)
    if isinstance(a, list) and isinstance(b, list):
        return len(a) == len(b) and all(_eq(x, y) for x, y in zip(a, b))
    return type(a) == type(b) and a == b


def gen_value(rnd, depth=0):
    """(value, whole_second) — a random value of the codec's domain"""
    k = rnd.choice(['naive', 'aware', 'aware', 'date', 'arr', 'arr2', 'arrint', 'arrdate', 'arrdate_res', 'idx', 'idxtz', 'idxfreq', 'dict', 'list', 'scalar', 'subsec',
                    'arrobj', 'arrobj', 'idxtzfreq', 'idxtzfreq'])
    base = pd.Timestamp('2021-01-01') + pd.Timedelta(seconds=rnd.randrange(0, 3 * 365 * 86400))
    if k == 'naive':
        return (base.to_pydatetime() if rnd.random() < 0.5 else base), True
    if k == 'subsec':
        return base + pd.Timedelta(milliseconds=rnd.randint(1, 999)), False
    if k == 'aware':
        z = rnd.choice(ZONES)
        ts = base.tz_localize('UTC').tz_convert(z)
        return (ts if rnd.random() < 0.6 else ts.to_pydatetime()), True
    if k == 'date':
        return base.date(), True
    if k == 'arr':
        return np.asarray([gen.q8(rnd, -5, 5) for _ in range(rnd.randint(0, 5))], dtype=float), True
    if k == 'arr2':
        return np.asarray([[gen.q8(rnd, -5, 5) for _ in range(3)] for _ in range(rnd.randint(1, 3))], dtype=float), True
    if k == 'arrint':
        return np.asarray([rnd.randint(-5, 5) for _ in range(rnd.randint(1, 5))]), True
    if k == 'arrdate':
        return np.asarray([np.datetime64(base + pd.Timedelta(hours=j), 'ns') for j in range(rnd.randint(1, 4))]), True
    if k == 'arrdate_res':
        # other resolutions than ns (np.arange over dates gives [D], an array of datetime objects [us])
        res = rnd.choice(['D', 's', 'us', 'h', 'm'])
        return np.asarray([np.datetime64(base.floor('D') + pd.Timedelta(days=j), res) for j in range(rnd.randint(1, 4))]), True
    if k == 'idx':
        return pd.DatetimeIndex([base + pd.Timedelta(hours=rnd.randint(0, 100)) for _ in range(rnd.randint(1, 4))]), True
    if k == 'idxtz':
        z = rnd.choice(ZONES)
        return pd.DatetimeIndex([(base + pd.Timedelta(hours=j)).tz_localize('UTC').tz_convert(z) for j in range(rnd.randint(1, 4))]), True
    if k == 'idxfreq':
        return pd.date_range(base.floor('h'), periods=rnd.randint(3, 5), freq=rnd.choice(['h', 'D', '15min'])), True
    if k == 'arrobj':
        # numpy OBJECT arrays of time stamps (zone-aware: what DatetimeIndex.to_numpy() returns; numpy has no zone-aware date type)
        z = rnd.choice(ZONES + [None])
        ts = [base + pd.Timedelta(hours=rnd.choice([1, 24, 24 * 7]) * j) for j in range(rnd.randint(1, 4))]
        if z is not None:
            ts = [t.tz_localize('UTC').tz_convert(z) for t in ts]
        return DC._objarr(ts if rnd.random() < 0.6 else [t.to_pydatetime() for t in ts]), True
    if k == 'idxtzfreq':
        # zone-aware index WITH a frequency, also calendar frequencies over a daylight-saving switch (local midnights: not equidistant as instants)
        z = rnd.choice(ZONES + DST_ZONES)
        f = rnd.choice(['D', 'D', 'W', 'MS', '2D', 'h', '12h', '15min'])
        tr = DC.transitions(z, base.year)
        start = (rnd.choice(tr)[1] - pd.Timedelta(days=rnd.randint(0, 3))) if (tr and rnd.random() < 0.7) else base.floor('D')
        r = pd.date_range(start=start, periods=rnd.randint(3, 6), freq=f, tz=z)
        return r[rnd.randint(0, 1):], True
    if k == 'scalar' or depth >= 2:
        return rnd.choice([None, True, 3, -1, 0.125, 'abc', 2.5, 'p1']), True
    if k == 'dict':
        ws = True
        d = {}
        for j in range(rnd.randint(1, 3)):
            v, w = gen_value(rnd, depth + 1)
            d['k%d' % j] = v
            ws = ws and w
        return d, ws
    ws = True
    l = []
    for j in range(rnd.randint(0, 3)):
        v, w = gen_value(rnd, depth + 1)
        l.append(v)
        ws = ws and w
    return l, ws


EXPECT_TAGGED = {'datetime': {'__class__', '__tz__', '__value__'}, 'date': {'__class__', '__value__'},
                 'np_array': {'__class__', 'is_date', 'np_list'}, 'pd_DateTimeIndex': {'__class__', '__freq__', '__value__'}}


def codec_case(rnd):
    """returns (violations, disagreements) for one random value: decode(encode v) = v under WholeSecond;
    the tagged dicts written have exactly the keys the Lean value codec (`enc`) writes"""
    v, ws = gen_value(rnd)
    viol, dis = [], []
    try:
        s = ser.to_json({'v': v})
        back = ser.load_from_json(s)['v']
    except Exception as e:
        return [{'oracle': 'c11-codec', 'detail': 'value %r: %s: %s' % (v, type(e).__name__, str(e)[:100]), 'facts': {'kind': 'codec'}}], dis
    if ws and not _eq(v, back):
        viol.append({'oracle': 'c11-codec', 'detail': 'value %r came back as %r' % (v, back), 'facts': {'kind': 'codec'}})
    if ws:
        try:
            if ser.to_json({'v': back}) != s:
                viol.append({'oracle': 'c11-codec', 'detail': 'value %r: re-encoding differs' % (v,), 'facts': {'kind': 'codec'}})
        except Exception as e:
            viol.append({'oracle': 'c11-codec', 'detail': 'value %r: re-encoding raises %s' % (v, type(e).__name__), 'facts': {'kind': 'codec'}})

    def shapes(r):
        if isinstance(r, dict):
            if '__class__' in r:
                exp = EXPECT_TAGGED.get(r['__class__'])
                if exp is not None and set(r) != exp:
                    dis.append('codec: tagged dict %s has keys %s, model writes %s' % (r['__class__'], sorted(r), sorted(exp)))
                if r['__class__'] == 'datetime':
                    # the TimeCodec law the Lean theorems assume: strptime inverts strftime
                    t = dt.datetime.strptime(r['__value__'], "%Y-%m-%d %H:%M:%S")
                    if t.strftime("%Y-%m-%d %H:%M:%S") != r['__value__']:
                        dis.append('codec: strftime/strptime not inverse on %s' % r['__value__'])
            for x in r.values():
                shapes(x)
        elif isinstance(r, list):
            for x in r:
                shapes(x)
    shapes(json.loads(s))
    return viol, dis


# ------------------------------------------------------------------ the regenerated obligation
LEAN_OUT = 'EAO/Generated/Schema.lean'
KNOWN_SCHEMA_FINDINGS = {'LinkedAsset'}      # F-11d: excluded BY NAME in EAO.C11.schema_roundtrip

THEOREMS = [
    ('EAO.Properties.C11', 'EAO.C11.schema_roundtrip', 'every class of the table regenerated from the sources (except LinkedAsset, by name) satisfies RoundTripOK; kernel-checked over the regenerated table on every run'),
    ('EAO.Properties.C11', 'EAO.C11.linkedAsset_not_roundtrip', 'F-11d: LinkedAsset stays in the table and is proved not to satisfy RoundTripOK'),
    ('EAO.Properties.C11', 'EAO.C11.schema_table_ok', 'class names distinct, one way to recover the class per tag, no clash with the tags of the value codec'),
    ('EAO.Properties.C11', 'EAO.C11.timegrid_stored_keys', 'a Timegrid is written as exactly start, end, freq, main_time_unit, timezone <- tz'),
    ('EAO.Properties.C11', 'EAO.C11.computed_fields_not_stored', 'computed CHP fields and the base-asset copies of a ScaledAsset are not written'),
    ('EAO.Properties.C11', 'EAO.C11.roundtrip_of_schema', 'for every object tree over classes satisfying RoundTripOK: dec (enc v) = some v (structural induction, any depth)'),
    ('EAO.Properties.C11', 'EAO.C11.encode_decode_encode', 'saving the loaded object reproduces the same JSON'),
    ('EAO.Properties.C11', 'EAO.C11.decode_encode_value', 'value codec: dates, naive/aware datetimes, numeric and datetime64 arrays, DatetimeIndex, nested lists/dicts, under WholeSecond'),
    ('EAO.Properties.C11', 'EAO.C11.computed_fields_ignored', 'an object carrying computed fields (after set-up) is written as the same JSON as without them'),
]


def regenerate(repo='/repo'):
    """step 1 of the check: rewrite EAO/Generated/Schema.lean from the sources (unchanged file keeps its time stamp)"""
    from .. import lean
    import os
    return schema_gen.main(['--repo', repo, '--out', os.path.join(lean.LEAN_DIR, LEAN_OUT)])


def schema_report(timeout=300):
    """when `schema_roundtrip` no longer checks: which class fails which named check (evaluates
    `EAO.Schema.report classes` in Lean on the regenerated table); returns [(class, [checks])] without the
    known findings, or None if Lean could not evaluate it"""
    from .. import lean
    import os
    import re
    import subprocess
    path = os.path.join(lean.LEAN_DIR, '.lake', 'c11_report_%d.lean' % os.getpid())
    os.makedirs(os.path.dirname(path), exist_ok=True)
    open(path, 'w').write('import EAO.Generated.Schema\nopen EAO.Schema\n'
                          '#eval (report classes).map (fun x => x.1 ++ ":" ++ ",".intercalate x.2)\n'
                          '#eval tableOK classes\n')
    try:
        p = subprocess.run(['lake', 'env', 'lean', path], cwd=lean.LEAN_DIR, capture_output=True, text=True, timeout=timeout)
    finally:
        try:
            os.remove(path)
        except OSError:
            pass
    if p.returncode != 0:
        return None
    out = []
    for m in re.finditer(r'"([A-Za-z0-9_]+):([^"]*)"', p.stdout):
        if m.group(1) not in KNOWN_SCHEMA_FINDINGS:
            out.append((m.group(1), m.group(2).split(',')))
    if 'false' in p.stdout.split(']')[-1]:
        out.append(('<table>', ['tableOK']))
    return out


# ------------------------------------------------------------------ property-module style entry points
def scenarios(seed, tier):
    n = 400 if tier == 'quick' else 2400
    rnd = random.Random(seed * 104729 + 11)
    covered = set()

    def emit(cid, case):
        covered.update(case_params(case))
        return cid, case
    # date containers of every kind inside interval data / orders / windows, on grids in zones with an offset to UTC
    # (own generator: the cases of the other streams stay the same for a seed; first, so that a failing input of the
    #  statement-level oracles is what a run reports first)
    rnd_d = random.Random(seed * 15485863 + 2221)
    for i in range(200 if tier == 'quick' else 1200):
        yield emit('dates%d' % i, gen_case_dates(random.Random(rnd_d.getrandbits(48)), i))
    for i in range(n):
        yield emit('gen%d' % i, gen_case(random.Random(rnd.getrandbits(48)), i))
    for j in range(3 if tier == 'quick' else 10):
        yield 'codec%d' % j, {'codec': True, 'seed': rnd.getrandbits(32), 'n': 100}
    # (the streams below draw from their own generator so that the cases above stay the same for a seed)
    rnd = random.Random(seed * 7919 + 1109)
    # portfolio-owned grids on zones with daylight saving time: zone-aware start / end at the switches
    for i in range(120 if tier == 'quick' else 720):
        yield emit('dst%d' % i, gen_case_dst(random.Random(rnd.getrandbits(48)), i))
    # every constructor parameter of every class of the regenerated table with another value than its default
    groups = sweep_groups()
    for rep in range(2 if tier == 'quick' else 6):
        for j, (cls, musts) in enumerate(groups):
            case = gen_case_sweep(random.Random(rnd.getrandbits(48)), cls, musts, j + rep)
            if case is not None:
                yield emit('sweep%d_%d' % (rep, j), case)
    yield 'coverage', {'coverage': True, 'covered': sorted(covered)}


def coverage_case(case):
    """the parameters of the regenerated schema table (cross-checked with inspect.signature) against the set of
    '<Class>.<param>' that the generated cases of this run give another value than the default.  A parameter that is never
    exercised is a COVERAGE GAP: written to the evidence (feature `param-gap:` / `param-exempt:`) and printed; it is not a
    violation."""
    r = {'evaluated': 1, 'nontrivial': True, 'features': [], 'disagreements': [], 'violations': []}
    sch = the_schema()
    r['disagreements'] += check_signatures(sch)
    exp = expected_params(sch)
    cov = set(case['covered'])
    gaps, exempt = [], []
    for x in exp:
        if x in cov:
            continue
        c, p_ = x.split('.', 1)
        (exempt if exempt_reason(c, p_) else gaps).append(x)
    r['features'].append('param-coverage:%d-of-%d-parameters-with-a-non-default-value' % (len(exp) - len(gaps) - len(exempt), len(exp)))
    r['features'] += ['param-gap:' + x for x in gaps] + ['param-exempt:' + x for x in exempt]
    if not gaps:
        r['features'].append('param-coverage:no-gap-besides-the-exempt')
    for x in gaps:
        print('COVERAGE-GAP property=C11 parameter=%s never generated with another value than its default' % x)
    r['observed'] = {'gaps': gaps, 'exempt': {x: exempt_reason(*x.split('.', 1)) for x in exempt}}
    return r


def run_case(case, drv=None):
    """one case through oracle + translator self-check, in the result format of harness.core"""
    r = {'evaluated': 1, 'nontrivial': False, 'features': [], 'disagreements': [], 'violations': []}
    if case.get('coverage'):
        return coverage_case(case)
    if case.get('codec'):
        rnd = random.Random(case['seed'])
        for _ in range(case['n']):
            v, d = codec_case(rnd)
            r['violations'] += v
            r['disagreements'] += d
        r['nontrivial'] = True
        r['features'].append('codec')
        r['evaluated'] = case['n']
        return r
    res = run_impl(case)
    r['nontrivial'] = res['nontrivial']
    r['features'] = res['features']
    r['violations'] = res['violations']
    if res['nontrivial']:       # (the object was built, saved and loaded)
        r['features'] += ['param:' + x for x in sorted(case_params(case))]
    d, seen = schema_selfcheck(case)
    r['disagreements'] = d
    r['features'] += ['schema-class:' + c for c in sorted(set(seen))]
    return r


# ------------------------------------------------------------------ self-test
def selftest(n=200, seed=1, drv=None, verbose=False):
    """n generated cases, n/3 cases of the stream dst and one sweep over all constructor parameters through the oracle
    and the translator self-check, the parameter coverage, 3n codec values.
    `drv` is accepted for uniformity with the other components and not used."""
    rnd = random.Random(seed)
    res = {'cases': 0, 'nontrivial': 0, 'violations': [], 'known': 0, 'disagreements': [], 'classes_seen': {},
           'features': {}, 'codec_values': 0}
    res['disagreements'] += check_signatures(the_schema())
    # classes no generated case instantiates directly
    for o in (eao.assets.Asset(name='plain'), eao.Unit(), eao.Node('n', commodity='gas')):
        raw = json.loads(ser.to_json(o))
        res['disagreements'] += check_json_against_schema(raw, the_schema(), False)
        c = _class_of_dict(raw, the_schema())
        res['classes_seen'][c['name']] = res['classes_seen'].get(c['name'], 0) + 1
        if ser.to_json(ser.load_from_json(ser.to_json(o))) != ser.to_json(o):
            res['violations'].append(('static', {'oracle': 'c11-resave', 'detail': type(o).__name__, 'facts': {'class': type(o).__name__}}))
    cases = [gen_case(random.Random(rnd.getrandbits(48)), i) for i in range(n)]
    cases += [gen_case_dst(random.Random(rnd.getrandbits(48)), i) for i in range(n // 3)]
    cases += [c for c in (gen_case_sweep(random.Random(rnd.getrandbits(48)), cls, musts, j) for j, (cls, musts) in enumerate(sweep_groups())) if c]
    covered = set()
    for i, case in enumerate(cases):
        covered |= case_params(case)
        r = run_impl(case)
        res['cases'] += 1
        res['nontrivial'] += bool(r['nontrivial'])
        for f in r['features']:
            res['features'][f] = res['features'].get(f, 0) + 1
        for v in r['violations']:
            if v['facts'].get('kind') == 'linked_asset':
                res['known'] += 1
            else:
                res['violations'].append((i, v))
                if verbose:
                    print('VIOLATION case', i, v)
        d, seen = schema_selfcheck(case)
        for c in seen:
            res['classes_seen'][c] = res['classes_seen'].get(c, 0) + 1
        for x in d:
            res['disagreements'].append((i, x))
            if verbose:
                print('DISAGREEMENT case', i, x)
    cov = coverage_case({'coverage': True, 'covered': sorted(covered)})
    res['disagreements'] += [('coverage', x) for x in cov['disagreements']]
    res['coverage'] = [f for f in cov['features'] if f.startswith('param-')]
    for j in range(3 * n):
        v, d = codec_case(rnd)
        res['codec_values'] += 1
        res['violations'] += [('codec%d' % j, x) for x in v]
        res['disagreements'] += [('codec%d' % j, x) for x in d]
    return res


if __name__ == '__main__':
    import sys
    n = int(sys.argv[1]) if len(sys.argv) > 1 else 100
    seed = int(sys.argv[2]) if len(sys.argv) > 2 else 1
    r = selftest(n, seed, verbose=True)
    print(json.dumps({k: (v if not isinstance(v, list) else len(v)) for k, v in r.items()}, indent=1, default=str))
    for x in r['violations'][:20]:
        print('V', x)
    for x in r['disagreements'][:20]:
        print('D', x)
